package main

import (
	"fmt"
	"go/types"
	"math/big"
	"strings"

	"golang.org/x/tools/go/ssa"
)

func (m *Machine) bigOf(v Value) BigV {
	switch x := v.(type) {
	case BigV:
		if x.cell != nil {
			return m.cur.mem[x.cell.id].(BigV)
		}
		return x
	case Ptr:
		if x.obj == nil && len(x.alts) == 0 {
			m.oblige(m.cbool(false), "nil *big.Int dereference", "")
			m.fail("nil big")
		}
		return m.bigOf(m.load(x))
	case StructV: // wrapper structs embedding a big.Int as first field (compatible.Int, compatiblemod.Mod)
		return m.bigOf(x.fields[0])
	}
	panic(fmt.Sprintf("bigOf %T", v))
}

func (b BigV) isConst() bool { return b.c != nil }

func (m *Machine) bigLin(b BigV) *Lin {
	if b.c != nil {
		return linConst(b.c)
	}
	return b.lin
}

func (m *Machine) bigStore(recv Value, b BigV) {
	p := recv.(Ptr)
	if m.bigShared {
		// worst case of math/big's storage reuse (nat.make): a receiver-writing method writes the limbs in place,
		// so every struct copy that shares the backing array sees the new value
		if cur, ok := m.load(p).(BigV); ok && cur.cell != nil {
			if m.effectsOn && cur.cell.id <= m.preexistBelow {
				m.noteEffect(Ptr{obj: cur.cell})
				m.oblige(m.cbool(false), "effect: write to big.Int storage that existed before the call", "")
			}
			m.cur.mem[cur.cell.id] = BigV{c: b.c, lin: b.lin}
			return
		}
		m.store(p, BigV{cell: m.newObj(BigV{c: b.c, lin: b.lin}, "bigcell")})
		return
	}
	m.store(p, b)
}

func (m *Machine) byteSliceConst(s SliceV) ([]byte, bool) {
	out := make([]byte, s.len)
	for i := 0; i < s.len; i++ {
		k, ok := concreteBig(m.load(elemPtr(s, i)))
		if !ok {
			return nil, false
		}
		out[i] = byte(k.Int64())
	}
	return out, true
}

func (m *Machine) newByteSlice(b []byte) SliceV {
	arr := ArrayV{}
	for _, x := range b {
		arr.elems = append(arr.elems, m.constInt(big.NewInt(int64(x)), types.Typ[types.Uint8]))
	}
	return SliceV{arr: m.newObj(arr, "bytes"), len: len(b), cap: len(b)}
}

// bigStub models the methods of math/big.Int on BigV values. Constants are computed exactly; symbolic
// values (integer mode) are linear forms with the usual side constraints.
func (m *Machine) bigStub(fn *ssa.Function, args []Value) (Value, bool) {
	full := fn.String()
	if full == "math/big.Jacobi" && m.intMode {
		// number-theoretic external function: an arbitrary value in {-1, 0, 1} (constants are computed)
		x, y := m.bigOf(args[0]), m.bigOf(args[1])
		if x.isConst() && y.isConst() {
			return m.constInt(big.NewInt(int64(big.Jacobi(x.c, y.c))), types.Typ[types.Int]), true
		}
		return m.nondet("jacobi", 8, true, big.NewInt(-1), big.NewInt(1)), true
	}
	if !strings.HasPrefix(full, "(*math/big.Int).") {
		return nil, false
	}
	name := strings.TrimPrefix(full, "(*math/big.Int).")
	recv := args[0]
	get := func(i int) BigV { return m.bigOf(args[i]) }
	ret := func(b BigV) (Value, bool) { m.bigStore(recv, b); return recv, true }
	allConst := func(idx ...int) bool {
		for _, i := range idx {
			if !get(i).isConst() {
				return false
			}
		}
		return true
	}
	switch name {
	case "Set":
		return ret(get(1))
	case "SetInt64", "SetUint64":
		iv := args[1].(VInt)
		if k, ok := concreteBig(iv); ok {
			v := new(big.Int).Set(k)
			if name == "SetInt64" && !m.intMode {
				v = iv.bv.signedVal()
			}
			return ret(BigV{c: v})
		}
		if m.intMode {
			return ret(BigV{lin: iv.lin})
		}
	case "Bytes":
		if b := get(0); b.isConst() {
			return m.newByteSlice(b.c.Bytes()), true
		}
		if m.intMode && m.bigBytesHavoc == 0 {
			// the byte length is known when the value's interval lies between two consecutive powers of 256
			b := get(0)
			if lo, hi := m.interval(b.lin); lo != nil && lo.Sign() >= 0 && len(lo.Bytes()) == len(hi.Bytes()) {
				n := len(hi.Bytes())
				arr := ArrayV{}
				for i := 0; i < n; i++ {
					arr.elems = append(arr.elems, m.constInt(big.NewInt(0), types.Typ[types.Uint8]))
				}
				out := SliceV{arr: m.newObj(arr, "bytes"), len: n, cap: n}
				if bs := m.byteDecompose(b.lin, n); bs != nil {
					// the value is literally sum byte_i 256^i over byte-ranged symbols (it came from SetBytes): hand the bytes back
					for i := 0; i < n; i++ {
						m.store(elemPtr(out, i), bs[i])
					}
					return out, true
				}
				rest := b.lin
				for i := n - 1; i >= 0; i-- {
					q, r := m.divmod(rest, big.NewInt(256))
					m.store(elemPtr(out, i), VInt{lin: r})
					rest = q
				}
				return out, true
			}
			if m.bigBytesLen >= 0 && !m.bigBytesLenUsed && b.lin != nil {
				// case split by the driver: this run ASSUMES that the minimal big-endian encoding of the value has exactly
				// bigBytesLen bytes (the spec lists one harness per length; together they cover every value)
				m.bigBytesLenUsed = true
				n := m.bigBytesLen
				if n == 0 {
					m.cur.pc = append(m.cur.pc, cCmp("=", b.lin, linConstI(0)))
				} else {
					lo := new(big.Int).Lsh(big.NewInt(1), uint(8*(n-1)))
					hi := new(big.Int).Lsh(big.NewInt(1), uint(8*n))
					m.cur.pc = append(m.cur.pc, cAnd(cCmp("<=", linConst(lo), b.lin), cCmp("<", b.lin, linConst(hi))))
				}
				arr := ArrayV{}
				for i := 0; i < n; i++ {
					arr.elems = append(arr.elems, m.constInt(big.NewInt(0), types.Typ[types.Uint8]))
				}
				out := SliceV{arr: m.newObj(arr, "bytes"), len: n, cap: n}
				rest := b.lin
				for i := n - 1; i >= 0; i-- {
					q, r := m.divmod(rest, big.NewInt(256))
					m.store(elemPtr(out, i), VInt{lin: r})
					rest = q
				}
				return out, true
			}
			panic("big.Int.Bytes of a value whose byte length is not determined by its interval")
		}
		if m.bigBytesHavoc > 0 {
			// effect analysis only: a fresh slice of the maximal length with unconstrained content
			arr := ArrayV{}
			for i := 0; i < m.bigBytesHavoc; i++ {
				arr.elems = append(arr.elems, m.nondet("bytes", 8, false, nil, nil))
			}
			return SliceV{arr: m.newObj(arr, "bytes"), len: m.bigBytesHavoc, cap: m.bigBytesHavoc}, true
		}
	case "FillBytes":
		buf := args[1].(SliceV)
		b := get(0)
		if b.isConst() {
			if len(b.c.Bytes()) > buf.len {
				m.oblige(m.cbool(false), "big.Int.FillBytes: buffer too small", "")
				m.fail("fillbytes")
			}
			out := b.c.FillBytes(make([]byte, buf.len))
			for i, x := range out {
				m.store(elemPtr(buf, i), m.constInt(big.NewInt(int64(x)), types.Typ[types.Uint8]))
			}
			return buf, true
		}
		if m.intMode {
			// v = sum buf[i] 256^(n-1-i), requires 0 <= v < 256^n
			lim := new(big.Int).Lsh(big.NewInt(1), uint(8*buf.len))
			m.oblige(cAnd(cCmp("<=", linConstI(0), b.lin), cCmp("<", b.lin, linConst(lim))), "big.Int.FillBytes: value fits the buffer", "")
			rest := b.lin
			for i := buf.len - 1; i >= 0; i-- {
				q, r := m.divmod(rest, big.NewInt(256))
				m.store(elemPtr(buf, i), VInt{lin: r})
				rest = q
			}
			return buf, true
		}
	case "SetBytes":
		src := args[1].(SliceV)
		if bs, ok := m.byteSliceConst(src); ok {
			return ret(BigV{c: new(big.Int).SetBytes(bs)})
		}
		if m.intMode {
			v := linConstI(0)
			for i := 0; i < src.len; i++ {
				e := m.load(elemPtr(src, i)).(VInt).lin
				v = v.add(e.scale(new(big.Int).Lsh(big.NewInt(1), uint(8*(src.len-1-i)))), 1)
			}
			return ret(BigV{lin: v})
		}
	case "Cmp":
		if allConst(0, 1) {
			return m.constInt(big.NewInt(int64(get(0).c.Cmp(get(1).c))), types.Typ[types.Int]), true
		}
		if m.intMode {
			a, b := m.bigLin(get(0)), m.bigLin(get(1))
			z := m.fresh("cmp")
			zl := linSym(z)
			m.bounds[z] = [2]*big.Int{big.NewInt(-1), big.NewInt(1)}
			m.defs = append(m.defs, cImp(cCmp("<", a, b), cCmp("=", zl, linConstI(-1))), cImp(cCmp("=", a, b), cCmp("=", zl, linConstI(0))), cImp(cCmp("<", b, a), cCmp("=", zl, linConstI(1))))
			return VInt{lin: zl}, true
		}
	case "Sign":
		if allConst(0) {
			return m.constInt(big.NewInt(int64(get(0).c.Sign())), types.Typ[types.Int]), true
		}
		if m.intMode {
			a := m.bigLin(get(0))
			z := m.fresh("sgn")
			zl := linSym(z)
			m.bounds[z] = [2]*big.Int{big.NewInt(-1), big.NewInt(1)}
			m.defs = append(m.defs, cImp(cCmp("<", a, linConstI(0)), cCmp("=", zl, linConstI(-1))), cImp(cCmp("=", a, linConstI(0)), cCmp("=", zl, linConstI(0))), cImp(cCmp("<", linConstI(0), a), cCmp("=", zl, linConstI(1))))
			return VInt{lin: zl}, true
		}
	case "BitLen":
		if allConst(0) {
			return m.constInt(big.NewInt(int64(get(0).c.BitLen())), types.Typ[types.Int]), true
		}
	case "Bit":
		if k, ok := concreteInt(args[1]); ok {
			if allConst(0) {
				return m.constInt(big.NewInt(int64(get(0).c.Bit(k))), types.Typ[types.Uint]), true
			}
			if m.intMode {
				// bit k of a non-negative value: (v >> k) mod 2
				q := m.bigLin(get(0))
				if k > 0 {
					q, _ = m.divmod(q, new(big.Int).Lsh(big.NewInt(1), uint(k)))
				}
				_, r := m.divmod(q, big.NewInt(2))
				return VInt{lin: r}, true
			}
		}
	case "Int64", "Uint64":
		b := get(0)
		if b.isConst() {
			if name == "Int64" {
				return m.constInt(big.NewInt(b.c.Int64()), types.Typ[types.Int64]), true
			}
			return m.constInt(new(big.Int).SetUint64(b.c.Uint64()), types.Typ[types.Uint64]), true
		}
		if m.intMode {
			t := types.Typ[types.Int64]
			if name == "Uint64" {
				t = types.Typ[types.Uint64]
			}
			m.rangeObl(b.lin, t, "big.Int."+name+" (value must fit)", 0)
			return VInt{lin: b.lin}, true
		}
	case "Add", "Sub", "Mul":
		if allConst(1, 2) {
			r := new(big.Int)
			switch name {
			case "Add":
				r.Add(get(1).c, get(2).c)
			case "Sub":
				r.Sub(get(1).c, get(2).c)
			case "Mul":
				r.Mul(get(1).c, get(2).c)
			}
			return ret(BigV{c: r})
		}
		if m.intMode {
			a, b := m.bigLin(get(1)), m.bigLin(get(2))
			var r *Lin
			switch name {
			case "Add":
				r = a.add(b, 1)
			case "Sub":
				r = a.add(b, -1)
			case "Mul":
				r = m.linMul(a, b)
			}
			return ret(BigV{lin: r})
		}
	case "Neg":
		if allConst(1) {
			return ret(BigV{c: new(big.Int).Neg(get(1).c)})
		}
		if m.intMode {
			return ret(BigV{lin: m.bigLin(get(1)).scale(big.NewInt(-1))})
		}
	case "Mod":
		// Euclidean modulus; the modulus must be a positive constant
		if mod := get(2); mod.isConst() && mod.c.Sign() > 0 {
			if allConst(1) {
				return ret(BigV{c: new(big.Int).Mod(get(1).c, mod.c)})
			}
			if m.intMode {
				_, r := m.divmod(m.bigLin(get(1)), mod.c)
				return ret(BigV{lin: r})
			}
		}
	case "Lsh", "Rsh":
		if k, ok := concreteInt(args[2]); ok {
			if allConst(1) {
				if name == "Lsh" {
					return ret(BigV{c: new(big.Int).Lsh(get(1).c, uint(k))})
				}
				return ret(BigV{c: new(big.Int).Rsh(get(1).c, uint(k))})
			}
			if m.intMode {
				p := new(big.Int).Lsh(big.NewInt(1), uint(k))
				if name == "Lsh" {
					return ret(BigV{lin: m.bigLin(get(1)).scale(p)})
				}
				q, _ := m.divmod(m.bigLin(get(1)), p)
				return ret(BigV{lin: q})
			}
		}
	case "Exp":
		// x^e mod m for a constant exponent (up to 16 bits) and a constant positive modulus: square-and-multiply over
		// the integer encoding (products are abstracted and refined like every other product)
		if e, mod := get(2), get(3); e.isConst() && e.c.Sign() >= 0 && e.c.BitLen() <= 16 && mod.isConst() && mod.c.Sign() > 0 {
			if allConst(1) {
				return ret(BigV{c: new(big.Int).Exp(get(1).c, e.c, mod.c)})
			}
			if m.intMode {
				_, base := m.divmod(m.bigLin(get(1)), mod.c)
				acc := linConstI(1)
				for i := e.c.BitLen() - 1; i >= 0; i-- {
					_, acc = m.divmod(m.linMul(acc, acc), mod.c)
					if e.c.Bit(i) == 1 {
						_, acc = m.divmod(m.linMul(acc, base), mod.c)
					}
				}
				_, acc = m.divmod(acc, mod.c)
				return ret(BigV{lin: acc})
			}
		}
	case "ModInverse":
		// uninterpreted: r with r*x == 1 (mod m) and 0 <= r < m, for a constant prime-like modulus and x != 0 mod m
		if mod := get(2); mod.isConst() && mod.c.Sign() > 0 {
			if allConst(1) {
				r := new(big.Int).ModInverse(get(1).c, mod.c)
				if r == nil {
					m.store(recv.(Ptr), BigV{c: new(big.Int)})
					return Ptr{}, true
				}
				return ret(BigV{c: r})
			}
			if m.intMode {
				x := m.bigLin(get(1))
				rn := m.fresh("inv")
				r := linSym(rn)
				m.bounds[rn] = [2]*big.Int{big.NewInt(0), new(big.Int).Sub(mod.c, big.NewInt(1))}
				m.defs = append(m.defs, cAnd(cCmp("<=", linConstI(0), r), cCmp("<", r, linConst(mod.c))))
				m.invDefs = append(m.invDefs, invDef{r: rn, x: x, mod: mod.c})
				return ret(BigV{lin: r})
			}
		}
	case "SetString":
		if sv, ok := args[1].(StrV); ok {
			base, _ := concreteInt(args[2])
			v, okp := new(big.Int).SetString(sv.s, base)
			if !okp {
				return TupleV{[]Value{Ptr{}, VBool{m.cbool(false)}}}, true
			}
			m.bigStore(recv, BigV{c: v})
			return TupleV{[]Value{recv, VBool{m.cbool(true)}}}, true
		}
	case "String", "Text":
		return StrV{"<big>"}, true
	case "IsInt64":
		if allConst(0) {
			return VBool{m.cbool(get(0).c.IsInt64())}, true
		}
	}
	panic("math/big.Int." + name + ": not modelled for these (symbolic) arguments in this mode")
}

type invDef struct {
	r   string
	x   *Lin
	mod *big.Int
}

// byteDecompose recognises l = sum_i d_i 256^(n-1-i) where every digit d_i is either a constant byte or a symbol with
// bounds inside [0,255] occurring with coefficient exactly 256^(n-1-i); returns the n digits (big-endian) or nil.
func (m *Machine) byteDecompose(l *Lin, n int) []Value {
	digits := make([]Value, n)
	used := make([]bool, n)
	for sym, k := range l.k {
		if k.Sign() <= 0 {
			return nil
		}
		tz := k.TrailingZeroBits()
		if tz%8 != 0 || new(big.Int).Rsh(k, tz).Cmp(big.NewInt(1)) != 0 {
			return nil
		}
		pos := int(tz / 8)
		bd, ok := m.bounds[sym]
		if !ok || bd[0].Sign() < 0 || bd[1].Cmp(big.NewInt(255)) > 0 || pos >= n || used[n-1-pos] {
			return nil
		}
		used[n-1-pos] = true
		digits[n-1-pos] = VInt{lin: linSym(sym)}
	}
	if l.c.Sign() < 0 {
		return nil
	}
	cb := l.c.Bytes()
	if len(cb) > n {
		return nil
	}
	for i := 0; i < n; i++ {
		var c byte
		if j := i - (n - len(cb)); j >= 0 {
			c = cb[j]
		}
		if used[i] {
			if c != 0 {
				return nil
			}
			continue
		}
		digits[i] = m.constInt(big.NewInt(int64(c)), types.Typ[types.Uint8])
	}
	return digits
}
