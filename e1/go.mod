module ssaexec

go 1.26.8

require golang.org/x/tools v0.50.0

require (
	golang.org/x/mod v0.41.0 // indirect
	golang.org/x/sync v0.23.0 // indirect
)
