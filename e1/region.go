package main

import (
	"time"
	"fmt"
	"strings"
	"go/ast"
	"go/token"
	"go/types"
	"math/big"

	"golang.org/x/tools/go/ssa"
)

type exit struct {
	ret   bool
	st    *State
	env   map[ssa.Value]Value
	pred  *ssa.BasicBlock
	value Value
}

// immediate post-dominators (virtual exit = nil)
func postdoms(fn *ssa.Function) map[*ssa.BasicBlock]*ssa.BasicBlock {
	n := len(fn.Blocks)
	// pdom sets as bitsets over n+1 (index n = virtual exit)
	full := make([]bool, n+1)
	for i := range full {
		full[i] = true
	}
	pd := make([][]bool, n+1)
	for i := 0; i < n; i++ {
		pd[i] = append([]bool{}, full...)
	}
	pd[n] = make([]bool, n+1)
	pd[n][n] = true
	succs := func(b *ssa.BasicBlock) []int {
		if len(b.Succs) == 0 {
			return []int{n}
		}
		var r []int
		for _, s := range b.Succs {
			r = append(r, s.Index)
		}
		return r
	}
	changed := true
	for changed {
		changed = false
		for i := n - 1; i >= 0; i-- {
			b := fn.Blocks[i]
			nw := append([]bool{}, full...)
			for _, s := range succs(b) {
				for k := range nw {
					nw[k] = nw[k] && pd[s][k]
				}
			}
			nw[i] = true
			for k := range nw {
				if nw[k] != pd[i][k] {
					changed = true
				}
			}
			pd[i] = nw
		}
	}
	res := map[*ssa.BasicBlock]*ssa.BasicBlock{}
	for i := 0; i < n; i++ {
		// ipdom = the strict postdominator that is postdominated by all other strict postdominators
		var cands []int
		for k := 0; k <= n; k++ {
			if k != i && pd[i][k] {
				cands = append(cands, k)
			}
		}
		best := -1
		for _, c := range cands {
			ok := true
			for _, d := range cands {
				if d != c && !(c == n && false) {
					// c is immediate if every other candidate d postdominates c
					if c != n && !pd[c][d] {
						ok = false
					}
					if c == n && d != n {
						ok = false
					}
				}
			}
			if ok {
				best = c
			}
		}
		if best >= 0 && best < n {
			res[fn.Blocks[i]] = fn.Blocks[best]
		}
	}
	return res
}

func (m *Machine) call(fn *ssa.Function, args []Value, free []Value, depth int) Value {
	if depth > 80 {
		panic("call depth")
	}
	if m.entryFn == nil {
		m.entryFn = fn
	}
	if to, ok := m.renames[fn.String()]; ok {
		// stub: a function of the harness file stands in for the callee
		if h := fn.Pkg; h != nil {
			_ = h
		}
		if tf := m.lookupHarnessFunc(to); tf != nil {
			fn = tf
		} else {
			panic("rename target not found: " + to)
		}
	}
	if r, ok := m.intrinsic(fn, args); ok {
		return r
	}
	if fn.Pkg != nil && m.isExternalPkg(fn.Pkg.Pkg.Path()) {
		return m.externalCall(fn, args)
	}
	if _, ok := m.contracts[fn.String()]; ok {
		// a function of the repository summarised by a stated contract (leaf kernels verified by their own harnesses)
		return m.externalCall(fn, args)
	}
	if fn.Pkg == nil && fn.Origin() != nil && fn.Origin().Pkg != nil && m.isExternalPkg(fn.Origin().Pkg.Pkg.Path()) {
		return m.externalCall(fn, args)
	}
	if fn.Blocks == nil {
		panic("no body for " + fn.String())
	}
	m.stats["calls:"+fn.String()]++
	if m.mathIn[fn.Name()] {
		// harness stub whose integer arithmetic is over the mathematical integers (shadow state of an abstraction)
		m.mathDepth++
		defer func() { m.mathDepth-- }()
	}
	pdm, ok := m.pdcache[fn]
	if !ok {
		pdm = postdoms(fn)
		m.pdcache[fn] = pdm
	}
	f := &frame{fn: fn, env: map[ssa.Value]Value{}, visits: map[int]int{}, ipdom: pdm, depth: depth, dbg: map[string]ssa.Value{}}
	for i, p := range fn.Params {
		f.env[p] = args[i]
	}
	for i, fv := range fn.FreeVars {
		f.env[fv] = free[i]
	}
	prefix := len(m.cur.pc)
	base := append([]*Cond{}, m.cur.pc...)
	var exits []exit
	aborted := false
	func() {
		defer func() {
			if r := recover(); r != nil {
				if _, ok := r.(cutAbort); ok {
					aborted = true
					return
				}
				panic(r)
			}
		}()
		exits = m.runRegion(f, fn.Blocks[0], nil, nil)
	}()
	if aborted {
		return nil
	}
	if len(exits) == 0 {
		m.fail("all paths of " + fn.Name() + " ended")
	}
	st, _, val := m.mergeExits(base[:prefix], exits, nil)
	m.cur = st
	return val
}

// runRegion executes from block b (entered from prev) until `stop` is reached or the function returns.
func (m *Machine) runRegion(f *frame, b, prev, stop *ssa.BasicBlock) []exit {
	for {
		if b == stop && stop != nil {
			return []exit{{st: m.cur, env: f.env, pred: prev}}
		}
		f.visits[b.Index]++
		if la, ok := m.loopAssume[f.fn.Name()]; ok && f.visits[b.Index] > la {
			// stated bound: executions that iterate more often are outside the claim (assumption, not obligation)
			m.stats["loop_bound_assumed:"+f.fn.Name()]++
			m.fail("loop bound assumed")
		}
		if f.visits[b.Index] > m.unwind {
			m.oblige(m.cbool(false), "unwinding bound exceeded in "+f.fn.String(), "")
			m.fail("unwind")
		}
		if prev != nil {
			var vals []Value
			var phis []*ssa.Phi
			for _, in := range b.Instrs {
				ph, ok := in.(*ssa.Phi)
				if !ok {
					break
				}
				if _, done := f.env[phiDone{ph}]; done {
					continue
				}
				for i, p := range b.Preds {
					if p == prev {
						vals = append(vals, m.get(f, ph.Edges[i]))
						phis = append(phis, ph)
						break
					}
				}
			}
			for i, ph := range phis {
				f.env[ph] = vals[i]
			}
		}
		for _, in := range b.Instrs {
			if ph, ok := in.(*ssa.Phi); ok {
				delete(f.env, phiDone{ph})
			}
		}
		var next *ssa.BasicBlock
		for _, in := range b.Instrs {
			switch x := in.(type) {
			case *ssa.If:
				c := m.get(f, x.Cond).(VBool).c
				if v, ok := c.isConst(); ok {
					if v {
						next = b.Succs[0]
					} else {
						next = b.Succs[1]
					}
					continue
				}
				return m.fork(f, b, c, stop)
			case *ssa.Jump:
				next = b.Succs[0]
			case *ssa.Return:
				e := exit{ret: true, st: m.cur, env: f.env}
				switch len(x.Results) {
				case 0:
				case 1:
					e.value = m.get(f, x.Results[0])
				default:
					t := TupleV{}
					for _, r := range x.Results {
						t.vs = append(t.vs, m.get(f, r))
					}
					e.value = t
				}
				return []exit{e}
			case *ssa.DebugRef:
				if id, ok := x.Expr.(*ast.Ident); ok && !x.IsAddr {
					if _, isParam := x.X.(*ssa.Parameter); isParam {
						m.checkCut(f, in) // "before-store-param": the base of the lvalue is referenced before the right-hand side is evaluated
					}
					f.dbg[id.Name] = x.X
				}
			default:
				m.steps++
				if m.steps&4095 == 0 && time.Now().After(m.deadline) {
					panic("symbolic execution exceeded its time budget (exec_timeout_s)")
				}
				m.checkCut(f, in)
				m.step(f, in)
			}
		}
		prev, b = b, next
	}
}

// feasible asks the solver whether a path condition is satisfiable together with the definitions so far
// (spec option "prune"). Unknown or error = feasible: pruning only ever removes arms the solver proved dead.
func (m *Machine) feasible(pc []*Cond) bool {
	if m.concrete != nil {
		return true
	}
	if m.pruneZ == nil || m.pruneZ.dead {
		m.pruneZ = startSolver(solverFor(m), 10000)
	}
	o := &Obligation{pc: pc, defs: m.defs, vacuity: true}
	sc, _, _ := m.script(o, false)
	m.stats["feasibility_queries"]++
	v, _ := m.pruneZ.query(sc, nil)
	return v != "unsat"
}

type phiDone struct{ ph *ssa.Phi }

func (phiDone) Name() string                  { return "phidone" }
func (phiDone) String() string                { return "phidone" }
func (phiDone) Type() types.Type              { return nil }
func (phiDone) Parent() *ssa.Function         { return nil }
func (phiDone) Referrers() *[]ssa.Instruction { return nil }
func (phiDone) Pos() token.Pos                { return 0 }

func (m *Machine) fork(f *frame, b *ssa.BasicBlock, c *Cond, stop *ssa.BasicBlock) []exit {
	J := f.ipdom[b] // may be nil: arms leave the function
	base := m.cur
	envBase := f.env
	prefix := append([]*Cond{}, base.pc...)
	var all []exit
	for arm := 0; arm < 2; arm++ {
		st := base.clone()
		g := c
		if arm == 1 {
			g = cNot(c)
		}
		st.pc = append(st.pc, g)
		if m.prune && !m.feasible(st.pc) {
			m.stats["pruned_arms"]++
			continue
		}
		m.cur = st
		f.env = copyEnv(envBase)
		func() {
			defer func() {
				if r := recover(); r != nil {
					if _, ok := r.(pathEnd); ok {
						return
					}
					panic(r)
				}
			}()
			all = append(all, m.runRegion(f, b.Succs[arm], b, J)...)
		}()
	}
	var stops, rets []exit
	for _, e := range all {
		if e.ret {
			rets = append(rets, e)
		} else {
			stops = append(stops, e)
		}
	}
	m.stats["forks"]++
	if J != nil && J == stop {
		// the enclosing region joins at the same block: let it merge all arms at once (phi edges need the real predecessors)
		m.cur, f.env = base, envBase
		return all
	}
	if len(stops) == 0 || J == nil {
		m.cur, f.env = base, envBase
		if len(rets) == 0 {
			m.fail("both arms ended")
		}
		return rets
	}
	st, env, _ := m.mergeExits(prefix, stops, J)
	// phis of J
	for _, in := range J.Instrs {
		ph, ok := in.(*ssa.Phi)
		if !ok {
			break
		}
		var vals []Value
		for _, e := range stops {
			for i, p := range J.Preds {
				if p == e.pred {
					ff := &frame{fn: f.fn, env: e.env}
					vals = append(vals, m.get(ff, ph.Edges[i]))
					break
				}
			}
		}
		env[ph] = m.mergeVals(guardsOf(prefix, stops), vals)
		env[phiDone{ph}] = true
	}
	m.cur, f.env = st, env
	m.stats["merges"]++
	rest := m.runRegion(f, J, nil, stop)
	// phi values were precomputed; runRegion(J, prev=nil) skips phi evaluation
	return append(rets, rest...)
}

func copyEnv(e map[ssa.Value]Value) map[ssa.Value]Value {
	n := make(map[ssa.Value]Value, len(e))
	for k, v := range e {
		n[k] = v
	}
	return n
}

func guardsOf(prefix []*Cond, es []exit) []*Cond {
	var gs []*Cond
	for _, e := range es {
		var g *Cond
		for _, c := range e.st.pc[len(prefix):] {
			if g == nil {
				g = c
			} else {
				g = cAnd(g, c)
			}
		}
		if g == nil {
			g = &Cond{kind: "const", val: true}
			if len(e.st.pc) > 0 && e.st.pc[0].bv != nil {
				g = &Cond{bv: boolConst(true)}
			}
		}
		gs = append(gs, g)
	}
	return gs
}

// mergeExits merges states (memory, env, return value) of exits reached under disjoint guards.
func (m *Machine) mergeExits(prefix []*Cond, es []exit, J *ssa.BasicBlock) (*State, map[ssa.Value]Value, Value) {
	if len(es) == 1 {
		return es[0].st, copyEnv(es[0].env), es[0].value
	}
	gs := guardsOf(prefix, es)
	st := &State{mem: map[int]Value{}, pc: append([]*Cond{}, prefix...)}
	// new pc: prefix + OR of guards (drop when it is c OR not c)
	var or *Cond
	for _, g := range gs {
		if or == nil {
			or = g
		} else {
			or = m.cor(or, g)
		}
	}
	if !(len(gs) == 2 && isNegation(gs[0], gs[1])) {
		if v, ok := or.isConst(); !(ok && v) {
			st.pc = append(st.pc, or)
		}
	}
	ids := map[int]bool{}
	for _, e := range es {
		for id := range e.st.mem {
			ids[id] = true
		}
	}
	for id := range ids {
		var vals []Value
		var gg []*Cond
		for i, e := range es {
			if v, ok := e.st.mem[id]; ok {
				vals = append(vals, v)
				gg = append(gg, gs[i])
			}
		}
		if len(vals) == len(es) {
			st.mem[id] = m.mergeVals(gs, vals)
		} else {
			st.mem[id] = m.mergeVals(gg, vals) // object allocated in some arms only
		}
	}
	env := map[ssa.Value]Value{}
	for k, v0 := range es[0].env {
		vals := []Value{v0}
		ok := true
		for _, e := range es[1:] {
			v, has := e.env[k]
			if !has {
				ok = false
				break
			}
			vals = append(vals, v)
		}
		if ok {
			func() {
				defer func() {
					if r := recover(); r != nil {
						// value not mergeable (e.g. distinct pointers): it cannot be live after the join unless via phi
					}
				}()
				env[k] = m.mergeVals(gs, vals)
			}()
		}
	}
	var rv Value
	if es[0].ret && es[0].value != nil {
		var vals []Value
		for _, e := range es {
			vals = append(vals, e.value)
		}
		rv = m.mergeVals(gs, vals)
	}
	return st, env, rv
}

func isNegation(a, b *Cond) bool {
	if a.bv != nil && b.bv != nil {
		return bNot(a.bv) == b.bv
	}
	return (a.kind == "not" && a.x == b) || (b.kind == "not" && b.x == a)
}
func (m *Machine) cor(a, b *Cond) *Cond {
	if a.bv != nil && b.bv != nil {
		return &Cond{bv: bOr(a.bv, b.bv)}
	}
	return cOr(a, b)
}

func (m *Machine) mergeVals(gs []*Cond, vals []Value) Value {
	same := true
	for _, v := range vals[1:] {
		if !identical(vals[0], v) {
			same = false
			break
		}
	}
	if same {
		return vals[0]
	}
	switch v0 := vals[0].(type) {
	case VInt:
		if v0.bv != nil {
			r := vals[len(vals)-1].(VInt).bv
			for i := len(vals) - 2; i >= 0; i-- {
				r = ite(gs[i].bv, vals[i].(VInt).bv, r)
			}
			return VInt{bv: r}
		}
		zn := m.fresh("z")
		z := linSym(zn)
		var lo, hi *big.Int
		bounded := true
		for i, v := range vals {
			m.defs = append(m.defs, cImp(gs[i], cCmp("=", z, v.(VInt).lin)))
			if l, h := m.interval(v.(VInt).lin); l != nil && bounded {
				if lo == nil || l.Cmp(lo) < 0 {
					lo = l
				}
				if hi == nil || h.Cmp(hi) > 0 {
					hi = h
				}
			} else {
				bounded = false
			}
		}
		if bounded && lo != nil {
			// the merged value lies in the hull of the alternatives (guards are exhaustive): interval bound for the
			// cheap range pre-check and as a redundant lemma for the solver
			m.bounds[zn] = [2]*big.Int{lo, hi}
			m.defs = append(m.defs, cAnd(cCmp("<=", linConst(lo), z), cCmp("<=", z, linConst(hi))))
		}
		return VInt{lin: z}
	case VBool:
		if v0.c.bv != nil {
			r := vals[len(vals)-1].(VBool).c.bv
			for i := len(vals) - 2; i >= 0; i-- {
				r = ite(gs[i].bv, vals[i].(VBool).c.bv, r)
			}
			return VBool{&Cond{bv: r}}
		}
		var r *Cond
		for i, v := range vals {
			t := cAnd(gs[i], v.(VBool).c)
			if r == nil {
				r = t
			} else {
				r = cOr(r, t)
			}
		}
		return VBool{r}
	case ArrayV:
		n := ArrayV{elems: make([]Value, len(v0.elems))}
		for k := range v0.elems {
			var col []Value
			for _, v := range vals {
				col = append(col, v.(ArrayV).elems[k])
			}
			n.elems[k] = m.mergeVals(gs, col)
		}
		return n
	case StructV:
		n := StructV{fields: make([]Value, len(v0.fields))}
		for k := range v0.fields {
			var col []Value
			for _, v := range vals {
				col = append(col, v.(StructV).fields[k])
			}
			n.fields[k] = m.mergeVals(gs, col)
		}
		return n
	case TupleV:
		n := TupleV{vs: make([]Value, len(v0.vs))}
		for k := range v0.vs {
			var col []Value
			for _, v := range vals {
				col = append(col, v.(TupleV).vs[k])
			}
			n.vs[k] = m.mergeVals(gs, col)
		}
		return n
	case UVal:
		panic("cannot merge distinct opaque values (external library state) across paths")
	case BigV:
		// merged big integers: a fresh integer symbol defined per arm
		z := linSym(m.fresh("zb"))
		for i, v := range vals {
			m.defs = append(m.defs, cImp(gs[i], cCmp("=", z, m.bigLin(m.bigOf(v)))))
		}
		return BigV{lin: z}
	case Ptr:
		// distinct pointers: a guarded choice (loads become ite, stores become conditional stores)
		n := Ptr{}
		for k, v := range vals {
			pv := v.(Ptr)
			if len(pv.alts) > 0 {
				for _, a := range pv.alts {
					n.alts = append(n.alts, PtrAlt{g: cAnd(gs[k], a.g), p: a.p})
				}
			} else {
				n.alts = append(n.alts, PtrAlt{g: gs[k], p: pv})
			}
		}
		return n
	case IfaceV:
		// interfaces may be nil on some arms (typically errors): keep the non-nil dynamic type and a nil-condition
		var typ types.Type
		for _, v := range vals {
			if t := v.(IfaceV).typ; t != nil {
				if typ != nil && !types.Identical(typ, t) {
					panic("merge of interfaces with different dynamic types")
				}
				typ = t
			}
		}
		if typ == nil {
			return IfaceV{}
		}
		var col []Value
		var cg []*Cond
		var nilc *Cond
		for k, v := range vals {
			iv := v.(IfaceV)
			var nc *Cond
			if iv.typ == nil {
				nc = gs[k]
			} else {
				col = append(col, iv.v)
				cg = append(cg, gs[k])
				if iv.nilc != nil {
					nc = cAnd(gs[k], iv.nilc)
				}
			}
			if nc != nil {
				if nilc == nil {
					nilc = nc
				} else {
					nilc = m.cor(nilc, nc)
				}
			}
		}
		var inner Value
		func() {
			defer func() {
				if r := recover(); r != nil {
					inner = col[0]
				}
			}()
			inner = m.mergeVals(cg, col)
		}()
		return IfaceV{typ: typ, v: inner, nilc: nilc}
	}
	if _, isSlice := vals[0].(SliceV); isSlice && m.approxBits {
		// effect harnesses: a merged slice value is only passed on, never written through; keep the first non-nil one
		m.stats["approx_slice_merge"]++
		for _, v := range vals {
			if v.(SliceV).arr != nil {
				return v
			}
		}
		return vals[0]
	}
	panic(fmt.Sprintf("cannot merge values of type %T", vals[0]))
}

func identical(a, b Value) bool {
	switch x := a.(type) {
	case VInt:
		y, ok := b.(VInt)
		if !ok {
			return false
		}
		if x.bv != nil {
			return x.bv == y.bv
		}
		return x.lin.smt() == y.lin.smt()
	case VBool:
		y, ok := b.(VBool)
		if !ok {
			return false
		}
		if x.c.bv != nil {
			return y.c.bv == x.c.bv
		}
		return x.c == y.c
	case ArrayV:
		y, ok := b.(ArrayV)
		if !ok || len(x.elems) != len(y.elems) {
			return false
		}
		if len(x.elems) > 0 && &x.elems[0] == &y.elems[0] {
			return true
		}
		for i := range x.elems {
			if !identical(x.elems[i], y.elems[i]) {
				return false
			}
		}
		return true
	case StructV:
		y, ok := b.(StructV)
		if !ok {
			return false
		}
		for i := range x.fields {
			if !identical(x.fields[i], y.fields[i]) {
				return false
			}
		}
		return true
	case Ptr:
		y, ok := b.(Ptr)
		return ok && len(x.alts) == 0 && len(y.alts) == 0 && x.obj == y.obj && fmt.Sprint(x.path) == fmt.Sprint(y.path)
	case SliceV:
		y, ok := b.(SliceV)
		return ok && x.arr == y.arr && x.off == y.off && x.len == y.len && x.cap == y.cap && fmt.Sprint(x.base) == fmt.Sprint(y.base)
	case StrV:
		y, ok := b.(StrV)
		return ok && x == y
	case IfaceV:
		y, ok := b.(IfaceV)
		return ok && x.typ == y.typ && identical(x.v, y.v)
	case TupleV:
		y, ok := b.(TupleV)
		if !ok || len(x.vs) != len(y.vs) {
			return false
		}
		for i := range x.vs {
			if !identical(x.vs[i], y.vs[i]) {
				return false
			}
		}
		return true
	case UVal:
		y, ok := b.(UVal)
		return ok && x.term == y.term
	case VField:
		y, ok := b.(VField)
		return ok && x.r == y.r
	case BigV:
		y, ok := b.(BigV)
		if !ok {
			return false
		}
		if x.cell != nil || y.cell != nil {
			return x.cell == y.cell
		}
		if x.c != nil && y.c != nil {
			return x.c.Cmp(y.c) == 0
		}
		return x.lin != nil && y.lin != nil && x.lin.smt() == y.lin.smt()
	case FuncV:
		y, ok := b.(FuncV)
		return ok && x.fn == y.fn
	case OpaqueV:
		y, ok := b.(OpaqueV)
		return ok && x == y
	case nil:
		return b == nil
	}
	return false
}

var _ = big.NewInt

type cutAbort struct{}
type cutSpec struct {
	fn      string
	trigger string // after-vars | before-store-param | line
	param   string
	line    int
	vars    []string
	mode   string // "abort" | "havoc"
	lo, hi *big.Int
	bounds map[string][2]*big.Int // per-variable override
	alias  string                 // captured values are also published under alias+name
	mem    []string               // "param:n": the n array elements behind pointer parameter param, named param0..param(n-1)
	done   bool
}

func (m *Machine) checkCut(f *frame, in ssa.Instruction) {
	for i := range m.cuts {
		c := &m.cuts[i]
		if c.done || c.fn != f.fn.Name() {
			continue
		}
		fire := false
		switch c.trigger {
		case "line":
			if !in.Pos().IsValid() {
				continue
			}
			if m.prog.Fset.Position(in.Pos()).Line <= c.line {
				return // cuts are ordered; wait for this one first
			}
			fire = true
		case "after-vars":
			// fires at the first instruction after every listed variable has been assigned (robust to line shifts)
			fire = true
			for _, v := range c.vars {
				if _, ok := f.dbg[v]; !ok {
					fire = false
					break
				}
			}
			if !fire {
				return
			}
		case "before-store-param":
			// fires at the first address computation or store through the named parameter (e.g. the output
			// array): go/ssa evaluates the lvalue address before the right-hand side of an assignment
			var root ssa.Value
			switch a := in.(type) {
			case *ssa.DebugRef:
				root = a.X
			case *ssa.Store:
				root = a.Addr
			case *ssa.IndexAddr:
				root = a.X
			case *ssa.FieldAddr:
				root = a.X
			default:
				return
			}
			for {
				switch a := root.(type) {
				case *ssa.IndexAddr:
					root = a.X
					continue
				case *ssa.FieldAddr:
					root = a.X
					continue
				}
				break
			}
			pr, ok := root.(*ssa.Parameter)
			if !ok || pr.Name() != c.param {
				return
			}
			fire = true
		}
		if !fire {
			return
		}
		c.done = true
		for _, v := range c.vars {
			sv, ok := f.dbg[v]
			if !ok {
				panic("cut variable not found: " + v)
			}
			if c.mode == "abort" {
				m.cutVals[v] = m.get(f, sv)
			} else {
				lo, hi := c.lo, c.hi
				if b, ok := c.bounds[v]; ok {
					lo, hi = b[0], b[1]
				}
				n := m.fresh("cut_" + v)
				m.nondets = append(m.nondets, nondetInfo{name: n, w: 64, signed: true, lo: lo, hi: hi})
				if m.intMode {
					m.bounds[n] = [2]*big.Int{lo, hi}
					m.defs = append(m.defs, cAnd(cCmp("<=", linConst(lo), linSym(n)), cCmp("<=", linSym(n), linConst(hi))))
					f.env[sv] = VInt{lin: linSym(n)}
					m.cutVals[v] = VInt{lin: linSym(n)}
				} else {
					w, _, _ := intInfo(sv.Type())
					bv := bvVar(n, w)
					m.cur.pc = append(m.cur.pc, &Cond{bv: bAnd(bvCmp("bvsle", bvConst(lo, w), bv), bvCmp("bvsle", bv, bvConst(hi, w)))})
					f.env[sv] = VInt{bv: bv}
					m.cutVals[v] = VInt{bv: bv}
				}
			}
		}
		for _, mv := range c.mem {
			var pname string
			var n int
			if _, err := fmt.Sscanf(strings.Replace(mv, ":", " ", 1), "%s %d", &pname, &n); err != nil {
				panic("bad mem cut " + mv)
			}
			var base Ptr
			found := false
			for _, prm := range f.fn.Params {
				if prm.Name() == pname {
					base = f.env[prm].(Ptr)
					found = true
				}
			}
			if !found {
				panic("mem cut: no parameter " + pname)
			}
			for i := 0; i < n; i++ {
				name := fmt.Sprintf("%s%d", pname, i)
				ep := Ptr{obj: base.obj, path: append(append([]PathElem{}, base.path...), PathElem{k: i})}
				if c.mode == "abort" {
					m.cutVals[name] = m.load(ep)
					continue
				}
				lo, hi := c.lo, c.hi
				if b, ok := c.bounds[name]; ok {
					lo, hi = b[0], b[1]
				}
				sym := m.fresh("cut_" + name)
				m.nondets = append(m.nondets, nondetInfo{name: sym, w: 64, signed: true, lo: lo, hi: hi})
				if m.intMode {
					m.bounds[sym] = [2]*big.Int{lo, hi}
					m.defs = append(m.defs, cAnd(cCmp("<=", linConst(lo), linSym(sym)), cCmp("<=", linSym(sym), linConst(hi))))
					m.store(ep, VInt{lin: linSym(sym)})
					m.cutVals[name] = VInt{lin: linSym(sym)}
				} else {
					old := m.load(ep).(VInt)
					w := old.bv.w
					bv := bvVar(sym, w)
					m.cur.pc = append(m.cur.pc, &Cond{bv: bAnd(bvCmp("bvsle", bvConst(lo, w), bv), bvCmp("bvsle", bv, bvConst(hi, w)))})
					m.store(ep, VInt{bv: bv})
					m.cutVals[name] = VInt{bv: bv}
				}
			}
		}
		if c.alias != "" {
			for _, v := range c.vars {
				m.cutVals[c.alias+v] = m.cutVals[v]
			}
		}
		if c.mode == "abort" {
			panic(cutAbort{})
		}
		m.stats["cut_havoc"]++
	}
}
