package main

import (
	"fmt"
	"go/types"
	"strings"

	"golang.org/x/tools/go/ssa"
)

// ---------- field mode: values of the designated field type are abstract Reals ----------
type RExpr struct {
	id   int
	op   string // "var","const","+","-","*","neg"
	a, b *RExpr
	name string
}

var rTab = map[string]*RExpr{}
var rList []*RExpr

func mkR(op string, a, b *RExpr, name string) *RExpr {
	ai, bi := -1, -1
	if a != nil {
		ai = a.id
	}
	if b != nil {
		bi = b.id
	}
	k := fmt.Sprintf("%s|%d|%d|%s", op, ai, bi, name)
	exprMu.Lock()
	defer exprMu.Unlock()
	if e, ok := rTab[k]; ok {
		return e
	}
	e := &RExpr{id: len(rList), op: op, a: a, b: b, name: name}
	rTab[k] = e
	rList = append(rList, e)
	return e
}

type VField struct{ r *RExpr }

func (p *printer) rref(e *RExpr) string {
	p.usedReal = true
	switch e.op {
	case "var":
		if _, ok := p.vars[e.name]; !ok {
			p.vars[e.name] = -1
			fmt.Fprintf(&p.sb, "(declare-const %s Real)\n", e.name)
		}
		return e.name
	case "const":
		return e.name
	}
	n := fmt.Sprintf("r%d", e.id)
	if p.defined[-e.id-1] {
		return n
	}
	p.defined[-e.id-1] = true
	var body string
	switch e.op {
	case "neg":
		body = "(- " + p.rref(e.a) + ")"
	default:
		body = "(" + e.op + " " + p.rref(e.a) + " " + p.rref(e.b) + ")"
	}
	fmt.Fprintf(&p.sb, "(define-fun %s () Real %s)\n", n, body)
	return n
}

func (m *Machine) isFieldType(t types.Type) bool {
	if len(m.fieldTypes) == 0 {
		return false
	}
	n, ok := t.(*types.Named)
	if !ok {
		return false
	}
	for _, f := range m.fieldTypes {
		if n.Obj().Name() == f {
			return true
		}
	}
	return false
}

// field summaries for group/edwards25519 (contracts proved separately by the kernel harnesses)
func (m *Machine) fieldSummary(fn *ssa.Function, args []Value) (Value, bool) {
	if len(m.fieldTypes) == 0 {
		return nil, false
	}
	ld := func(i int) *RExpr { return m.load(args[i].(Ptr)).(VField).r }
	st := func(i int, r *RExpr) { m.store(args[i].(Ptr), VField{r}) }
	switch fn.Name() {
	case "feMul":
		st(0, mkR("*", ld(1), ld(2), ""))
	case "feSquare":
		x := ld(1)
		st(0, mkR("*", x, x, ""))
	case "feSquare2":
		x := ld(1)
		st(0, mkR("*", mkR("const", nil, nil, "2.0"), mkR("*", x, x, ""), ""))
	case "feAdd":
		st(0, mkR("+", ld(1), ld(2), ""))
	case "feSub":
		st(0, mkR("-", ld(1), ld(2), ""))
	case "feNeg":
		st(0, mkR("neg", ld(1), nil, ""))
	case "feCopy":
		st(0, ld(1))
	case "feZero":
		st(0, mkR("const", nil, nil, "0.0"))
	case "feOne":
		st(0, mkR("const", nil, nil, "1.0"))
	// harness intrinsics over field values
	case "nondetField":
		return VField{mkR("var", nil, nil, m.fresh("fe"))}, true
	case "fMul":
		return VField{mkR("*", args[0].(VField).r, args[1].(VField).r, "")}, true
	case "fAdd":
		return VField{mkR("+", args[0].(VField).r, args[1].(VField).r, "")}, true
	case "fSub":
		return VField{mkR("-", args[0].(VField).r, args[1].(VField).r, "")}, true
	case "fEq":
		return VBool{&Cond{kind: "req", ra: args[0].(VField).r, rb: args[1].(VField).r}}, true
	default:
		return nil, false
	}
	return nil, true
}

var _ = strings.Join
