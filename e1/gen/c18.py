#!/usr/bin/env python3
import json, os
H = []
for pk in ("bn256", "bn254"):
    for fn in ("Add", "Sub", "Neg", "Carry"):
        H.append(dict(name="%s.gfp%s-generic" % (pk, fn), pkg="./pairing/" + pk, files=["harness/C18/gfp_%s.go" % pk], entry="HarnessGfp" + fn, mode="bv", tags="generic",
                      globals=["p2"], validate=8, unwind=40, timeout_ms=600000,
                      functions=["%s.gfp%s (pure-Go build, tag generic)" % (pk, fn)] + (["%s.gfpCarry" % pk] if fn != "Carry" else []),
                      bound="all a, b < p (256-bit)"))
for pk in ("bn256",):
    P = "go.dedis.ch/kyber/v4/pairing/%s." % pk
    H.append(dict(name="%s.gfpMul-tail-generic" % pk, pkg="./pairing/" + pk, files=["harness/C18/gfp_%s.go" % pk], entry="HarnessGfpMulTail", mode="bv", tags="generic", globals=["p2"], unwind=40, timeout_ms=600000, replay_entry="HarnessGfpMulTailReplay",
                  renames={P + "mul": "c18Mul", P + "halfMul": "c18HalfMul"},
                  stubs=["mul / halfMul (schoolbook products) -> arbitrary values, recorded; assumed: low 256 bits of T + t vanish and (T + t) / 2^256 < 2p (what Montgomery's method provides)"],
                  functions=["%s.gfpMul (final reduction, pure-Go build)" % pk, "%s.gfpCarry" % pk], bound="all 512-bit T, t satisfying the two stated assumptions",
                  mutants=[dict(id="C18m1", file="pairing/bn256/gfp_generic.go", old="\t*c = gfP{T[4], T[5], T[6], T[7]}\n\tgfpCarry(c, carry)", new="\t*c = gfP{T[4], T[5], T[6], T[7]}\n\tgfpCarry(c, 0)")]))
json.dump(dict(property="C18", harnesses=H), open(os.path.join(os.path.dirname(__file__), "..", "specs", "C18.json"), "w"), indent=1)
print(len(H))
