#!/usr/bin/env python3
import json, os
H = []
for pk in ("bn256", "bn254"):
    for fn in ("Add", "Sub", "Neg", "Carry"):
        H.append(dict(name="%s.gfp%s-generic" % (pk, fn), pkg="./pairing/" + pk, files=["harness/C18/gfp_%s.go" % pk], entry="HarnessGfp" + fn, mode="bv", tags="generic",
                      globals=["p2"], validate=8, unwind=40, timeout_ms=600000,
                      functions=["%s.gfp%s (pure-Go build, tag generic)" % (pk, fn)] + (["%s.gfpCarry" % pk] if fn != "Carry" else []),
                      bound="all a, b < p (256-bit)"))
json.dump(dict(property="C18", harnesses=H), open(os.path.join(os.path.dirname(__file__), "..", "specs", "C18.json"), "w"), indent=1)
print(len(H))
