#!/usr/bin/env python3
import json, os
here = os.path.dirname(__file__)
H = []
c01 = json.load(open(os.path.join(here, "..", "specs", "C01.json")))["harnesses"]
H += [h for h in c01 if h["name"] in ("feToBytes-core", "feToBytes-pack", "feFromBytes")]
c02 = json.load(open(os.path.join(here, "..", "specs", "C02.json")))["harnesses"]
H += [h for h in c02 if h["name"] in ("scReduce-pack", "scAdd-pack", "scMulAdd-pack", "scAdd-load")]
c04 = json.load(open(os.path.join(here, "..", "specs", "C04.json")))["harnesses"]
H += [h for h in c04 if h["name"].startswith("mod.Int.UnmarshalBinary") and ("m251-" in h["name"] or "m65521-" in h["name"])]
for h in H:
    h.pop("mutants", None)
PKG, F = "./group/edwards25519", ["harness/C03/enc.go"]
for n in [0, 31, 32, 33, 64]:
    H.append(dict(name="scalar.UnmarshalBinary-len%d" % n, pkg=PKG, files=F, entry="HarnessScalarUnmarshal", mode="bv", params={"p0": n}, validate=4,
                  functions=["edwards25519.(*scalar).UnmarshalBinary", "edwards25519.(*scalar).MarshalSize"], bound="input length %d, arbitrary content" % n))
H.append(dict(name="point.Equal", pkg=PKG, files=F, entry="HarnessPointEqual", mode="bv", no_replay=True,
              renames={"(*go.dedis.ch/kyber/v4/group/edwards25519.extendedGroupElement).ToBytes": "c03ToBytes"},
              stubs=["extendedGroupElement.ToBytes -> two arbitrary 32-byte encodings"], functions=["edwards25519.(*point).Equal"], bound="all pairs of 32-byte encodings",
              mutants=[dict(id="C03b", file="group/edwards25519/point.go", old="\tfor i := range b1 {\n\t\tif b1[i] != b2[i] {", new="\tfor i := range b1[:31] {\n\t\tif b1[i] != b2[i] {")]))
MP, MF = "./group/internal/marshalling", ["harness/C03/marsh.go"]
H.append(dict(name="marshalling.PointMarshalTo", pkg=MP, files=MF, entry="HarnessPointMarshalTo", mode="bv", validate=4, functions=["marshalling.PointMarshalTo"], bound="arbitrary 5-byte encoding"))
for avail in [0, 1, 4, 5, 6, 8]:
    for chunk in ([1, 2, 5, 8] if avail >= 4 else [8]):
        H.append(dict(name="marshalling.PointUnmarshalFrom-avail%d-chunk%d" % (avail, chunk), pkg=MP, files=MF, entry="HarnessPointUnmarshalFrom", mode="bv", params={"p0": avail, "p1": chunk}, validate=2, unwind=64,
                      functions=["marshalling.PointUnmarshalFrom", "io.ReadFull", "io.ReadAtLeast"], bound="stream of %d bytes delivered in chunks of at most %d" % (avail, chunk)))
H.append(dict(name="marshalling.ScalarMarshalTo", pkg=MP, files=MF, entry="HarnessScalarMarshalTo", mode="bv", validate=4, functions=["marshalling.ScalarMarshalTo"], bound="arbitrary 5-byte encoding"))
for avail in [0, 1, 4, 5, 6, 8]:
    for chunk in ([1, 2, 5, 8] if avail >= 4 else [8]):
        H.append(dict(name="marshalling.ScalarUnmarshalFrom-avail%d-chunk%d" % (avail, chunk), pkg=MP, files=MF, entry="HarnessScalarUnmarshalFrom", mode="bv", params={"p0": avail, "p1": chunk}, validate=2, unwind=64,
                      functions=["marshalling.ScalarUnmarshalFrom", "io.ReadFull", "io.ReadAtLeast"], bound="stream of %d bytes delivered in chunks of at most %d" % (avail, chunk)))
for xl, yl in [(32, 32), (31, 32), (32, 31), (1, 32), (32, 1), (0, 32), (16, 16), (30, 29), (0, 0)]:
    H.append(dict(name="p256.MarshalBinary-x%d-y%d" % (xl, yl), pkg="./group/p256", files=["harness/C17/p256.go"], entry="HarnessP256Marshal", mode="int", params={"p0": xl, "p1": yl}, validate=3, unwind=80,
                  stubs=["crypto/elliptic curve -> stub", "math/big.Int as mathematical integers; Bytes() has the length determined by the value's interval"],
                  functions=["p256.(*curvePoint).MarshalBinary", "p256.(*curvePoint).MarshalSize"], bound="x of exactly %d bytes, y of exactly %d bytes, arbitrary content" % (xl, yl),
                  tiers=(["quick", "thorough"] if (xl, yl) in ((32, 32), (31, 32), (32, 1), (0, 32)) else ["thorough"]),
                  mutants=[dict(id="C03p1", file="group/p256/curve.go", old="\tcopy(ret[1+byteLen-len(x):], x)", new="\tcopy(ret[1:], x)")] if (xl, yl) == (31, 32) else []))
H.append(dict(name="bn254.gfP.Unmarshal", pkg="./pairing/bn254", files=["harness/C03/bn254_unmarshal.go"], entry="HarnessBN254GfpUnmarshal", mode="bv", unwind=100, validate=8, globals=["p2"],
              functions=["bn254.(*gfP).Unmarshal"], bound="all 2^256 32-byte inputs",
              mutants=[dict(id="C03bn1", file="pairing/bn254/gfp.go", old="\tfor i := 3; i >= 0; i-- {\n\t\tif e[i] < p2[i] {", new="\tfor i := 3; i > 0; i-- {\n\t\tif e[i] < p2[i] {")]))
BP = "go.dedis.ch/kyber/v4/pairing/bn256."
H.append(dict(name="bn256.G1.MarshalBinary-roundtrip", pkg="./pairing/bn256", files=["harness/C03/bn_marshal.go"], entry="HarnessBNG1Marshal", mode="bv", unwind=200, no_replay=True,
              renames={BP + "gfpMul": "c03Mont", "(*" + BP + "curvePoint).IsOnCurve": "c03OnCurve"},
              stubs=["gfpMul (Montgomery conversion by R^2 / by 1, assembly) -> identity on field elements", "(*curvePoint).IsOnCurve -> true"],
              functions=["bn256.(*pointG1).MarshalBinary", "bn256.(*pointG1).UnmarshalBinary", "bn256.(*gfP).Marshal", "bn256.(*gfP).Unmarshal", "bn256.(*curvePoint).MakeAffine"],
              bound="all affine coordinates (2 x 256 bits), and the point at infinity"))
for k, kn in enumerate(["infinity-representations", "affine"]):
    H.append(dict(name="bn256.G1.Equal-%s" % kn, pkg="./pairing/bn256", files=["harness/C03/bn_marshal.go"], entry="HarnessBNG1Equal", mode="bv", params={"p0": k}, unwind=200, replay_entry="HarnessBNG1EqualReplay",
                  renames={BP + "gfpMul": "c03Mont", "(*" + BP + "curvePoint).IsOnCurve": "c03OnCurve"},
                  stubs=["gfpMul (Montgomery conversion, assembly) -> identity on field elements"],
                  functions=["bn256.(*pointG1).Equal", "bn256.(*pointG1).MarshalBinary", "bn256.(*curvePoint).MakeAffine", "bn256.(*curvePoint).IsInfinity"],
                  bound="all coordinate values; z in {0, 1}"))
for mod, size in [(251, 1), (65521, 2), (16777213, 3)]:
    for bo in [0, 1]:
        for vl in range(0, size + 1):
            H.append(dict(name="mod.Int.MarshalBinary-m%d-bo%d-vlen%d" % (mod, bo, vl), pkg="./group/mod", files=["harness/C04/modint.go"], entry="HarnessModIntMarshal", mode="int", params={"p0": mod, "p1": bo, "p2": vl}, validate=3, unwind=64,
                          stubs=["math/big.Int as mathematical integers; Bytes() with the length determined by the value's interval"],
                          functions=["mod.(*Int).MarshalBinary", "mod.(*Int).LittleEndian", "mod.(*Int).UnmarshalBinary", "mod.(*Int).MarshalSize"],
                          bound="modulus %d (%d-byte encoding), byte order %s, all values with exactly %d significant bytes" % (mod, size, ["big", "little"][bo], vl),
                          tiers=(["quick", "thorough"] if mod != 251 else ["thorough"])))
for mod in [13, 251]:
    for t, tn in enumerate(["projPoint", "extPoint"]):
        H.append(dict(name="vartime.%s.Equal-m%d" % (tn, mod), pkg="./group/edwards25519vartime", files=["harness/C03/vartime_equal.go"], entry="HarnessVartimeEqual", mode="int", params={"p0": mod, "p1": t}, validate=4,
                      stubs=["math/big.Int as mathematical integers"], functions=["edwards25519vartime.(*%s).Equal" % tn, "mod.(*Int).Mul", "mod.(*Int).Equal"],
                      bound="prime field of %d elements, all coordinates, Z != 0" % mod))
json.dump(dict(property="C03", harnesses=H), open(os.path.join(here, "..", "specs", "C03.json"), "w"), indent=1)
print(len(H))
