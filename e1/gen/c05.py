#!/usr/bin/env python3
import json, os
H = []
GN = "github.com/consensys/gnark-crypto"
G1J = "(*%s/ecc/bls12-381.G1Jac)" % GN
FP = "(*%s/ecc/bls12-381/fp.Element)" % GN
gn_contracts = {
    G1J + ".Set": dict(reads=[1], writes=[0], copy=True),
    G1J + ".AddAssign": dict(reads=[0, 1], writes=[0]),
    G1J + ".SubAssign": dict(reads=[0, 1], writes=[0]),
    G1J + ".Neg": dict(reads=[1], writes=[0]),
    G1J + ".ScalarMultiplication": dict(reads=[1, 2], writes=[0]),
    FP + ".SetZero": dict(reads=[], writes=[0]),
    FP + ".SetOne": dict(reads=[], writes=[0]),
}
for op, on in enumerate(["Add", "Sub"]):
    for pat, pn in enumerate(["distinct", "r=a", "r=b", "a=b", "r=a=b"]):
        H.append(dict(name="gnark.G1.%s-%s" % (on, pn), pkg="./pairing/bls12381/gnark", files=["harness/C05/gnark.go"], entry="HarnessGnarkG1Binary", mode="bv",
                      params={"p0": op, "p1": pat}, external=[GN], contracts=gn_contracts, validate=1,
                      stubs=["gnark-crypto is uninterpreted: G1Jac.Set reads its argument and writes its receiver; AddAssign/SubAssign read receiver and argument and write the receiver; Neg, ScalarMultiplication likewise"],
                      functions=["gnark.(*G1Elt).%s" % on, "gnark.(*G1Elt).Clone", "gnark.(*G1Elt).Set"], bound="aliasing pattern %s, arbitrary (opaque) points" % pn))
K = "github.com/kilic/bls12-381"
kc = {}
for G, P in (("G1", "PointG1"), ("G2", "PointG2")):
    E_ = "(*%s.%s)" % (K, G)
    kc[E_ + ".Zero"] = dict(reads=[], writes=[], returns="new")
    kc[E_ + ".One"] = dict(reads=[], writes=[], returns="new")
    kc[E_ + ".Add"] = dict(reads=[2, 3], writes=[1], returns="arg1")
    kc[E_ + ".Sub"] = dict(reads=[2, 3], writes=[1], returns="arg1")
    kc[E_ + ".Neg"] = dict(reads=[2], writes=[1], returns="arg1")
    kc["(*%s.%s).Set" % (K, P)] = dict(reads=[1], writes=[0], copy=True)
GT = "(*%s.GT)" % K
kc[GT + ".New"] = dict(reads=[], writes=[], returns="new")
kc[GT + ".Mul"] = dict(reads=[2, 3], writes=[1])
kc[GT + ".Inverse"] = dict(reads=[2], writes=[1])
kc["(*%s.E).Set" % K] = dict(reads=[1], writes=[0], copy=True)
KP, KF = "./pairing/bls12381/kilic", ["harness/C05/kilic.go"]
kst = ["kilic/bls12-381 is uninterpreted: G.Zero/One/GT.New return a new element; G.Add/Sub(c,a,b), G.Neg(c,a), GT.Mul(c,a,b), GT.Inverse(c,a) read a (and b) and write c; Point.Set / E.Set copy"]
for i, n in enumerate(["G1.Null", "G1.Base", "G2.Null", "G2.Base"]):
    H.append(dict(name="kilic.%s" % n, pkg=KP, files=KF, entry="HarnessKilicNullBase", mode="bv", params={"p0": i}, external=[K], contracts=kc, stubs=kst, validate=1,
                  functions=["kilic.(*%sElt).%s" % tuple(n.split("."))], bound="arbitrary (opaque) receiver"))
for op, on in enumerate(["Add", "Sub"]):
    for pat, pn in enumerate(["distinct", "r=a", "r=b", "a=b", "r=a=b"]):
        H.append(dict(name="kilic.GT.%s-%s" % (on, pn), pkg=KP, files=KF, entry="HarnessKilicGTBinary", mode="bv", params={"p0": op, "p1": pat}, external=[K], contracts=kc, stubs=kst, validate=1,
                      functions=["kilic.(*GTElt).%s" % on, "kilic.(*GTElt).Neg", "kilic.(*GTElt).Clone", "kilic.(*GTElt).Set"], bound="aliasing pattern %s, arbitrary (opaque) elements" % pn))
for how, hn in enumerate(["Clone", "Set"]):
    for who, wn in enumerate(["mutate-source", "mutate-copy"]):
        for mu, mn in enumerate(["Null", "Base", "Add", "Neg", "Set", "Sub"]):
            H.append(dict(name="residue.%s-%s-%s" % (hn, wn, mn), pkg="./group/p256", files=["harness/C05/residue.go"], entry="HarnessResidueCopyIndependent", mode="int",
                          params={"p0": how, "p1": who, "p2": mu}, big_shared=True, validate=2,
                          stubs=["math/big.Int with shared storage: struct copies share the limbs; every receiver-writing method writes them in place (worst case of nat.make reuse)", "ModInverse uninterpreted"],
                          functions=["p256.(*residuePoint).%s" % hn, "p256.(*residuePoint).%s" % mn], bound="group P=2039, values 2..2038; programs: copy ; one mutating call",
                          tiers=(["quick", "thorough"] if mn in ("Null", "Add", "Set") else ["thorough"])))
for mod in [251, 65521]:
    for bo in [0, 1]:
        for ln in [0, 1, 2, 3]:
            H.append(dict(name="mod.Int.SetBytes-m%d-bo%d-len%d" % (mod, bo, ln), pkg="./group/mod", files=["harness/C05/modint.go"], entry="HarnessModIntSetBytes", mode="int", params={"p0": mod, "p1": bo, "p2": ln}, validate=3, unwind=64,
                          stubs=["math/big.Int as mathematical integers"], functions=["mod.NewIntBytes", "mod.(*Int).InitBytes", "mod.(*Int).SetBytes", "compatible.(*Int).SetBytesMod"],
                          bound="modulus %d, byte order %s, all byte strings of length %d" % (mod, ["big", "little"][bo], ln), tiers=(["quick", "thorough"] if (mod, ln) in ((251, 1), (251, 2), (65521, 2), (65521, 3)) else ["thorough"])))
MOPS = ["Add", "Sub", "Neg", "Mul", "Set", "Zero", "One", "SetInt64", "SetUint64"]
for mod in [251, 2, 65537]:
    for op, on in enumerate(MOPS):
        for pat, pn in enumerate(["distinct", "r=a", "r=b", "a=b", "r=a=b"]):
            if on in ("Neg", "Set", "Zero", "One", "SetInt64", "SetUint64") and pat in (2, 3, 4):
                continue
            H.append(dict(name="mod.Int.%s-m%d-%s" % (on, mod, pn), pkg="./group/mod", files=["harness/C05/modint.go"], entry="HarnessModIntAlias", mode="int",
                          params={"p0": mod, "p1": op, "p2": pat}, big_shared=True, validate=3,
                          stubs=["math/big.Int as mathematical integers with shared storage for struct copies"],
                          functions=["mod.(*Int).%s" % on, "compatible.(*Int).%s" % on], bound="modulus %d, all operand values and all stale receiver values in [0,m), aliasing %s" % (mod, pn),
                          tiers=(["quick", "thorough"] if mod == 251 else ["thorough"])))
    for how, hn in enumerate(["Clone", "Set"]):
        for mu, mn in enumerate(["Add", "Neg", "Zero", "SetInt64", "Mul"]):
            H.append(dict(name="mod.Int.%s-then-%s-m%d" % (hn, mn, mod), pkg="./group/mod", files=["harness/C05/modint.go"], entry="HarnessModIntCopy", mode="int",
                          params={"p0": mod, "p1": how, "p2": mu}, big_shared=True, validate=2,
                          stubs=["math/big.Int with shared storage: struct copies share the limbs"],
                          functions=["mod.(*Int).%s" % hn, "mod.(*Int).%s" % mn], bound="modulus %d, all values; copy ; one mutating call on either side" % mod,
                          tiers=(["quick", "thorough"] if mod == 251 and mn in ("Add", "Zero", "Neg") else ["thorough"])))
for wm, wn in enumerate(["2^64+13", "2^127-1", "ed25519-order"]):
    for op, on in enumerate(["NewInt64", "SetInt64", "SetUint64", "Init64"]):
        H.append(dict(name="mod.Int.%s-wide-%s" % (on, wn), pkg="./group/mod", files=["harness/C05/modint.go"], entry="HarnessModIntWide", mode="int", params={"p0": wm, "p1": op}, validate=3,
                      stubs=["math/big.Int as mathematical integers"], functions=["mod.NewInt64", "mod.(*Int).Init64", "mod.(*Int).SetInt64", "mod.(*Int).SetUint64"],
                      bound="modulus %s (wider than a machine word), ALL int64 / uint64 arguments" % wn, tiers=(["quick", "thorough"] if wm != 1 else ["thorough"])))
for q in [13, 251]:
    for t, tn in enumerate(["projPoint", "extPoint"]):
        for op, on in enumerate(["Add", "Sub", "Neg"]):
            for pat, pn in enumerate(["distinct", "r=a", "r=b", "a=b", "r=a=b"]):
                if on == "Neg" and pat in (2, 3, 4):
                    continue
                H.append(dict(name="vartime.%s.%s-q%d-%s" % (tn, on, q, pn), pkg="./group/edwards25519vartime", files=["harness/C05/vartime_alias.go"], entry="HarnessVartimeAlias", mode="int",
                              params={"p0": q, "p1": t, "p2": op, "p3": pat}, big_shared=True, validate=2, timeout_ms=120000,
                              stubs=["math/big.Int as mathematical integers with shared storage for struct copies"],
                              functions=["edwards25519vartime.(*%s).%s" % (tn, on), "edwards25519vartime.(*%s).Clone" % tn], bound="prime field of %d elements, arbitrary curve parameters a, d, arbitrary coordinates and stale receiver, aliasing %s" % (q, pn),
                              tiers=(["quick", "thorough"] if q == 13 else ["thorough"])))
HD5 = os.path.join(os.path.dirname(__file__), "..", "harness", "C05")
open(os.path.join(HD5, "gen_bngt_bn256.go"), "w").write("// Code generated from bngt.go by gen/c05.py. DO NOT EDIT.\n" + open(os.path.join(HD5, "bngt.go")).read().replace("package bn254", "package bn256"))
for pk, hf in [("bn254", "harness/C05/bngt.go"), ("bn256", "harness/C05/gen_bngt_bn256.go")]:
    Q = "go.dedis.ch/kyber/v4/pairing/%s." % pk
    E12 = "(*" + Q + "gfP12)."
    gtc = {E12 + k: dict(writes=[0], havoc=True, returns="arg0") for k in ["Mul", "Conjugate", "Exp", "SetOne", "SetZero", "Invert", "Square", "Neg", "Add", "Sub"]}
    for k in ["gfpMul", "gfpAdd", "gfpSub", "gfpNeg"]:
        gtc[Q + k] = dict(writes=[0], havoc=True)
    gtr = {Q + "optimalAte": "gtOptimalAte", Q + "miller": "gtMiller", Q + "finalExponentiation": "gtFinalExp"}
    for how, hn in enumerate(["Base", "Null", "Set", "Clone", "MulBase", "Neg", "Sub"]):
        for mu, mn in enumerate(["Add", "Neg", "Null", "Mul", "Set-then-Add"]):
            H.append(dict(name="%s.GT.%s-then-%s" % (pk, hn, mn), pkg="./pairing/" + pk, files=[hf], entry="HarnessGTValueSemantics", mode="int", params={"p0": how, "p1": mu}, globals_all=True, contracts=gtc, renames=gtr,
                          replay_entry="HarnessGTValueSemanticsReplay", unwind=200, approx_bitops=True,
                          stubs=["gfP12 arithmetic (Mul, Conjugate, Exp, SetOne, ...) -> writes only its receiver, arbitrary value; optimalAte / miller / finalExponentiation -> return a new element, arbitrary value; gfP12.Set / Clone run on their real bodies"],
                          functions=["%s.(*pointGT).%s" % (pk, x) for x in ["Base", "Null", "Set", "Clone", "Add", "Sub", "Neg", "Mul", "Pair"]],
                          bound="two points obtained by %s, one mutating call (%s) on the first; arbitrary element values" % (hn, mn),
                          tiers=(["quick", "thorough"] if mn in ("Add", "Set-then-Add") and hn in ("Base", "Null", "Set", "Clone", "MulBase") else ["thorough"])))
H20 = []
for pk, hf in [("bn254", "harness/C05/bngt.go"), ("bn256", "harness/C05/gen_bngt_bn256.go")]:
    Q = "go.dedis.ch/kyber/v4/pairing/%s." % pk
    E12 = "(*" + Q + "gfP12)."
    gtc = {E12 + k: dict(writes=[0], havoc=True, returns="arg0") for k in ["Mul", "Conjugate", "Exp", "SetOne", "SetZero", "Invert", "Square", "Neg", "Add", "Sub"]}
    for k in ["gfpMul", "gfpAdd", "gfpSub", "gfpNeg"]:
        gtc[Q + k] = dict(writes=[0], havoc=True)
    gtr = {Q + "optimalAte": "gtOptimalAte", Q + "miller": "gtMiller", Q + "finalExponentiation": "gtFinalExp"}
    for k, kn in enumerate(["Base", "Null", "MulBase"]):
        H20.append(dict(name="%s.GT.shared-read-only.%s" % (pk, kn), pkg="./pairing/" + pk, files=[hf], entry="HarnessGTSharedReadOnly", mode="int", params={"p0": k}, globals_all=True, contracts=gtc, renames=gtr,
                        race_entry="RaceGTSharedReadOnly", unwind=200, approx_bitops=True,
                        stubs=["gfP12 arithmetic -> writes only its receiver; optimalAte / miller / finalExponentiation -> return a new element"],
                        functions=["%s.(*pointGT).%s" % (pk, kn.replace("MulBase", "Mul"))], bound="a fresh point of one's own; arbitrary scalar"))
json.dump(dict(property="C20", harnesses=H20), open(os.path.join(os.path.dirname(__file__), "..", "specs", "C20gt.json"), "w"), indent=1)
json.dump(dict(property="C05", harnesses=H), open(os.path.join(os.path.dirname(__file__), "..", "specs", "C05.json"), "w"), indent=1)
print(len(H))
