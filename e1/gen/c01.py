#!/usr/bin/env python3
"""Generate specs/C01.json"""
import json, os
PKG, F = "./group/edwards25519", ["harness/C01/fe.go"]
H = []
def h(name, entry, mode, fns, bound, **kw):
    d = dict(name=name, pkg=PKG, files=F, entry=entry, mode=mode, functions=fns, bound=bound)
    d.update(kw)
    H.append(d)
IN = "all limb vectors within the documented input bounds (|even| <= 1.1*2^26, |odd| <= 1.1*2^25 unless stated)"
h("feMul", "HarnessFeMul", "int", ["edwards25519.feMul"], IN, validate=24,
  mutants=[dict(id="C01fe1", file="group/edwards25519/fe.go", old="\tf9g7_38 := int64(f9_2) * int64(g7_19)", new="\tf9g7_38 := int64(f9_2) * int64(g6_19)")])
h("feSquare", "HarnessFeSquare", "int", ["edwards25519.feSquare"], IN, validate=24)
h("feSquare2", "HarnessFeSquare2", "int", ["edwards25519.feSquare2"], "input limbs |even| <= 1.65*2^26, |odd| <= 1.65*2^25", validate=24)
h("feAdd", "HarnessFeAdd", "int", ["edwards25519.feAdd"], "input limbs |even| <= 1.1*2^25, |odd| <= 1.1*2^24", validate=12)
h("feSub", "HarnessFeSub", "int", ["edwards25519.feSub"], "input limbs |even| <= 1.1*2^25, |odd| <= 1.1*2^24", validate=12)
h("feNeg", "HarnessFeNeg", "int", ["edwards25519.feNeg"], "input limbs |even| <= 1.1*2^25, |odd| <= 1.1*2^24", validate=12)
h("feCopyZeroOne", "HarnessFeCopyZeroOne", "int", ["edwards25519.feCopy", "edwards25519.feZero", "edwards25519.feOne"], IN, validate=8)
h("feCMove", "HarnessFeCMove", "bv", ["edwards25519.feCMove"], "all int32 limb vectors, b in {0,1}", validate=12)
M26, M25 = str(2**26 - 1), str(2**25 - 1)
bd = {("h%d" % i): ["0", M26 if i % 2 == 0 else M25] for i in range(10)}
h("feToBytes-core", "HarnessFeToBytesCore", "int", ["edwards25519.feToBytes (quotient estimate, carry chain)"], "input limbs |even| <= 1.1*2^25, |odd| <= 1.1*2^24",
  cuts=[dict(fn="feToBytes", trigger="before-store-param", param="s", mode="abort", vars=[], mem=["h:10"])], replay_entry="ReplayFeToBytes",
  mutants=[dict(id="C03a", file="group/edwards25519/fe.go", old="q := (19*h[9] + (1 << 24)) >> 25", new="q := (19*h[9] + (1 << 23)) >> 25")])
h("feToBytes-pack", "HarnessFeToBytesPack", "bv", ["edwards25519.feToBytes (byte packing)"], "all canonical limb vectors (0 <= even < 2^26, 0 <= odd < 2^25)", no_replay=True,
  cuts=[dict(fn="feToBytes", trigger="before-store-param", param="s", mode="havoc", vars=[], mem=["h:10"], lo="0", hi=M26, bounds=bd)])
h("feFromBytes", "HarnessFeFromBytes", "int", ["edwards25519.feFromBytes", "edwards25519.load3", "edwards25519.load4"], "all 2^256 byte strings", validate=16)
json.dump(dict(property="C01", harnesses=H), open(os.path.join(os.path.dirname(__file__), "..", "specs", "C01.json"), "w"), indent=1)
print(len(H), "harnesses")
