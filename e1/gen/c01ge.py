#!/usr/bin/env python3
import json, os
P = "go.dedis.ch/kyber/v4/group/edwards25519."
ren = {P + "feMul": "gfMul", P + "feSquare": "gfSquare", P + "feSquare2": "gfSquare2", P + "feAdd": "gfAdd", P + "feSub": "gfSub", P + "feNeg": "gfNeg"}
H = []
for q in [13, 17]:
    for case, cn in enumerate(["Add-extended-cached", "Sub-extended-cached", "MixedAdd-MixedSub-precomputed", "Double", "neutral-and-negation"]):
        H.append(dict(name="ge.%s-q%d" % (cn, q), pkg="./group/edwards25519", files=["harness/C01/geform.go"], entry="HarnessGeFormula", mode="bv", params={"p0": q, "p1": case}, renames=ren,
                      replay_entry="HarnessGeFormulaReplay", timeout_ms=300000,
                      stubs=["feMul / feSquare / feSquare2 / feAdd / feSub / feNeg -> arithmetic modulo the small prime %d in limb 0 (field abstraction; a = -1 is a square and d a non-square, so the law is complete as on Ed25519)" % q],
                      functions=["edwards25519.(*completedGroupElement).Add", "edwards25519.(*completedGroupElement).Sub", "edwards25519.(*completedGroupElement).MixedAdd", "edwards25519.(*completedGroupElement).MixedSub",
                                 "edwards25519.(*projectiveGroupElement).Double", "edwards25519.(*extendedGroupElement).Double", "edwards25519.(*extendedGroupElement).ToCached", "edwards25519.(*completedGroupElement).ToExtended",
                                 "edwards25519.(*completedGroupElement).ToProjective", "edwards25519.(*extendedGroupElement).Neg", "edwards25519.(*cachedGroupElement).Neg", "edwards25519.(*preComputedGroupElement).Neg"],
                      bound="twisted Edwards curve -x^2 + y^2 = 1 + d x^2 y^2 over F_%d: all pairs of curve points, all non-zero projective scalings" % q,
                      tiers=(["quick", "thorough"] if q == 13 else ["thorough"]),
                      mutants=[dict(id="C01ge1", file="group/edwards25519/ge.go", old="\tfeSub(&c.X, &c.Z, &c.Y)\n\tfeAdd(&c.Y, &c.Z, &c.Y)\n\tfeAdd(&c.Z, &t0, &c.T)\n\tfeSub(&c.T, &t0, &c.T)\n}\n\n//nolint:dupl // Extracting common parts makes little sense\nfunc (c *completedGroupElement) Sub(",
                                     new="\tfeSub(&c.X, &c.Z, &c.Y)\n\tfeAdd(&c.Y, &c.Z, &c.Y)\n\tfeSub(&c.Z, &t0, &c.T)\n\tfeAdd(&c.T, &t0, &c.T)\n}\n\n//nolint:dupl // Extracting common parts makes little sense\nfunc (c *completedGroupElement) Sub(")] if (q, case) == (13, 0) else []))
json.dump(dict(property="C01", harnesses=H), open(os.path.join(os.path.dirname(__file__), "..", "specs", "C01ge.json"), "w"), indent=1)
print(len(H))
