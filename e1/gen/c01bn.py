#!/usr/bin/env python3
import json, os
HD = os.path.join(os.path.dirname(__file__), "..", "harness", "C01")
src = open(os.path.join(HD, "bn.go")).read()
open(os.path.join(HD, "gen_bn254.go"), "w").write("// Code generated from bn.go by gen/c01bn.py. DO NOT EDIT.\n" + src.replace("package bn256", "package bn254").replace('import "go.dedis.ch/kyber/v4/compatible"', 'import "math/big"').replace("func bigFromInt64(k int64) *compatible.Int { return compatible.NewInt(k) }", "func bigFromInt64(k int64) *big.Int { return big.NewInt(k) }"))
H = []
for pk, f in [("bn256", "harness/C01/bn.go"), ("bn254", "harness/C01/gen_bn254.go")]:
    P = "go.dedis.ch/kyber/v4/pairing/%s." % pk
    ren = {P + "gfpMul": "bnMul", P + "gfpAdd": "bnAdd", P + "gfpSub": "bnSub", P + "gfpNeg": "bnNeg", P + "newGFp": "bnNewGFp"}
    for q in [13, 31]:
        for case, cn in enumerate(["same-point-two-representations", "inverse", "infinity", "distinct"]):
            if q == 31 and cn == "distinct":
                continue  # both solvers return unknown at 300 s for the chord law over F_31: reduced bound (F_13 only)
            H.append(dict(name="%s.curvePoint.Add-%s-q%d" % (pk, cn, q), pkg="./pairing/" + pk, files=[f], entry="HarnessBNAdd", mode="bv", params={"p0": q, "p1": case}, renames=ren, replay_entry="HarnessBNAddReplay",
                          timeout_ms=300000,
                          stubs=["gfpMul / gfpAdd / gfpSub / gfpNeg / newGFp -> arithmetic modulo the small prime %d in limb 0 (field abstraction: the formulas are polynomial identities over any field of characteristic > 3)" % q],
                          functions=["%s.(*curvePoint).Add" % pk, "%s.(*curvePoint).Double" % pk, "%s.(*curvePoint).Neg" % pk, "%s.(*curvePoint).SetInfinity" % pk, "%s.(*curvePoint).IsInfinity" % pk],
                          bound="curve y^2 = x^3 + 3 over F_%d: all affine points, all non-zero Jacobian scalings of both operands" % q,
                          tiers=(["quick", "thorough"] if q == 13 and pk == "bn256" or (q == 13 and case == 0) else ["thorough"])))
json.dump(dict(property="C01", harnesses=H), open(os.path.join(os.path.dirname(__file__), "..", "specs", "C01bn.json"), "w"), indent=1)
print(len(H))
