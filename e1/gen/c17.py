#!/usr/bin/env python3
import json, os
PKG, F = "./group/edwards25519", ["harness/C17/embed.go"]
E = "(*go.dedis.ch/kyber/v4/group/edwards25519."
H = []
for dl in [0, 1, 2, 15, 28, 29, 30, 31, 32, 127, 128, 255]:
    H.append(dict(name="ed25519.Data-lenbyte%d" % dl, pkg=PKG, files=F, entry="HarnessData", mode="bv", replay_entry="HarnessDataReplay", replay_models=16, params={"p0": dl},
          renames={E + "extendedGroupElement).ToBytes": "c17ToBytes"},
          stubs=["extendedGroupElement.ToBytes -> length byte as given, 31 arbitrary bytes (the encoder is verified in C01/C03)"],
          functions=["edwards25519.(*point).Data", "edwards25519.(*point).EmbedLen"], bound="length byte %d, all other bytes arbitrary" % dl,
          tiers=(["quick", "thorough"] if dl in (0, 1, 29, 30, 255) else ["thorough"])))
for n in [-1, 0, 1, 2, 15, 28, 29, 30, 31, 32, 37]:
    H.append(dict(name="ed25519.Embed-len%s" % ("nil" if n < 0 else n), pkg=PKG, files=F, entry="HarnessEmbed", mode="bv", params={"p0": n}, replay_entry="HarnessEmbedReplay", unwind=80,
                  loop_assume={"Embed": 2},
                  renames={E + "extendedGroupElement).FromBytes": "c17FromBytes", E + "point).Mul": "c17MulStub", E + "point).Equal": "c17EqualStub"},
                  stubs=["FromBytes -> arbitrary verdict (records the candidate); point.Mul -> records the scalar; point.Equal -> arbitrary verdict"],
                  functions=["edwards25519.(*point).Embed"], bound="data length %s, arbitrary content and stream, at most 2 attempts (stated assumption)" % ("nil" if n < 0 else n),
                  tiers=(["quick", "thorough"] if n in (-1, 0, 1, 29, 30) else ["thorough"]),
                  mutants=[dict(id="C17a", file="group/edwards25519/point.go", old="\t\tvar Q point\n\t\tQ.Mul(primeOrderScalar, P)\n\t\tif Q.Equal(nullPoint) {\n\t\t\treturn P // success\n\t\t}", new="\t\treturn P")] if n == 1 else []))
for xl, dl in [(0, 0), (1, 1), (1, 5), (2, 0), (2, 1), (2, 3), (3, 2), (3, 30), (16, 15), (16, 20), (31, 30), (32, 0), (32, 30), (32, 31), (32, 255), (20, 40)]:
    if xl == 0 and dl != 0:
        continue
    H.append(dict(name="p256.Data-xlen%d-lenbyte%d" % (xl, dl), pkg="./group/p256", files=["harness/C17/p256.go"], entry="HarnessP256Data", mode="int", params={"p0": xl, "p1": dl}, validate=3, unwind=80,
                  stubs=["crypto/elliptic curve -> stub (Data does not use it)", "math/big.Int as mathematical integers; Bytes() has the length determined by the value's interval"],
                  functions=["p256.(*curvePoint).Data", "p256.(*curvePoint).EmbedLen", "p256.(*curve).coordLen"], bound="x of exactly %d bytes (arbitrary content), length byte %d" % (xl, dl),
                  tiers=(["quick", "thorough"] if (xl, dl) in ((0, 0), (1, 5), (2, 3), (3, 30), (32, 30), (32, 31)) else ["thorough"])))
H.append(dict(name="residue.Pick-cofactor6", pkg="./group/p256", files=["harness/C04/residue.go"], entry="HarnessResiduePick", mode="int", replay_entry="HarnessResiduePickReplay", unwind=64, loop_assume={"Embed": 1}, globals=["one", "two"],
              stubs=["math/big.Int as mathematical integers; Exp by square-and-multiply in the encoding; Jacobi = arbitrary value in {-1,0,1}"],
              functions=["p256.(*residuePoint).Pick", "p256.(*residuePoint).Embed", "p256.(*residuePoint).Valid", "random.Bits"], bound="residue group P=31, Q=5, cofactor 6; arbitrary stream; the first candidate is the one accepted (stated assumption: a retry repeats the same test on fresh bytes)"))
for vl, lb in [(32, 0), (32, 1), (32, 29), (32, 30), (32, 31), (32, 32), (32, 255), (31, 29), (31, 30), (16, 5), (16, 31), (2, 1), (1, 0), (1, 29), (1, 30), (1, 200), (0, 0)]:
    H.append(dict(name="vartime.Data-ybytes%d-lenbyte%d" % (vl, lb), pkg="./group/edwards25519vartime", files=["harness/C17/vartime_data.go"], entry="HarnessVartimeData", mode="int", params={"p0": vl, "p1": lb},
                  globals=["verifCurve17"], validate=3, unwind=80, timeout_ms=120000,
                  stubs=["math/big.Int as mathematical integers; Bytes() has the length determined by the value's interval (case split on the byte length of y)"],
                  functions=["edwards25519vartime.(*curve).data", "edwards25519vartime.(*curve).encodePoint", "edwards25519vartime.(*curve).embedLen", "mod.(*Int).MarshalBinary"],
                  bound="Ed25519 parameters; y with a %d-byte minimal encoding (arbitrary content), length byte %d, x arbitrary" % (vl, lb),
                  tiers=(["quick", "thorough"] if (vl, lb) in ((32, 0), (32, 29), (32, 30), (32, 31), (32, 255), (1, 30), (0, 0)) else ["thorough"])))
BQ = "go.dedis.ch/kyber/v4/pairing/bn256."
for n in [-1, 0, 1, 15, 29, 30, 33]:
    H.append(dict(name="bn256.G1.Embed-len%s" % ("nil" if n < 0 else n), pkg="./pairing/bn256", files=["harness/C17/bn_embed.go"], entry="HarnessBNEmbed", mode="int", params={"p0": n}, unwind=80, loop_assume={"Embed": 2}, globals_all=True, replay_entry="HarnessBNEmbedReplay",
                  renames={BQ + "deriveY": "beDeriveY", BQ + "newGFpFromBigInt": "beNewGFp", BQ + "newGFp": "beNewGFpSmall", "(*" + BQ + "curvePoint).IsOnCurve": "beIsOnCurve"},
                  stubs=["deriveY -> arbitrary verdict; newGFpFromBigInt -> records the integer; IsOnCurve -> arbitrary verdict; stream -> arbitrary bytes", "math/big.Int as mathematical integers"],
                  functions=["bn256.(*pointG1).Embed"], bound="data length %s, arbitrary content and stream, at most 2 candidates (stated assumption)" % ("nil" if n < 0 else n),
                  tiers=(["quick", "thorough"] if n in (-1, 0, 1, 29, 30) else ["thorough"])))
json.dump(dict(property="C17", harnesses=H), open(os.path.join(os.path.dirname(__file__), "..", "specs", "C17.json"), "w"), indent=1)
print(len(H))
