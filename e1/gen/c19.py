#!/usr/bin/env python3
import json, os
PKG, F = "./util/random", ["harness/C19/rand.go"]
H = []
for n in list(range(0, 41)) + [47, 48, 49, 63, 64, 65, 72]:
    H.append(dict(name="Bits-%d" % n, pkg=PKG, files=F, entry="HarnessBits", mode="bv", params={"p0": n}, validate=6,
                  functions=["random.Bits"], bound="bit length %d, exact in {false,true}, all stream bytes" % n,
                  tiers=(["quick", "thorough"] if n <= 24 or n in (31, 32, 33, 40, 64, 65) else ["thorough"]),
                  mutants=[dict(id="C19b", file="util/random/rand.go", old="\tif highbits != 0 {\n\t\tb[0] &= ^(0xff << highbits)\n\t}", new="\t_ = highbits")] if n in (3, 12) else []))
for mod in [1, 2, 3, 5, 7, 8, 9, 15, 16, 17, 100, 127, 128, 129, 255, 256, 257, 1000, 32767, 32768, 65535, 65536, 65537]:
    H.append(dict(name="Int-%d" % mod, pkg=PKG, files=F, entry="HarnessInt", mode="int", params={"p0": mod}, unwind=64, loop_assume={"Int": 3}, validate=4,
                  functions=["random.Int", "compatible.(*Int).SetBytesWithCheck", "compatible.(*Int).SetBytes", "random.Bits"],
                  stubs=["math/big.Int modelled as a mathematical integer (SetBytes, Cmp, BitLen, Sign, Int64)"],
                  bound="modulus %d, all stream bytes, at most 3 rejection rounds (unwinding assertion)" % mod,
                  tiers=(["quick", "thorough"] if mod in (1, 2, 3, 7, 8, 9, 255, 256, 257, 65537) else ["thorough"]),
                  mutants=[dict(id="C19a", file="compatible/var_int.go", old="\tif mod.Cmp(&z.Int) <= 0 {", new="\tif mod.Cmp(&z.Int) < 0 {")] if mod in (7, 256) else []))
json.dump(dict(property="C19", harnesses=H), open(os.path.join(os.path.dirname(__file__), "..", "specs", "C19.json"), "w"), indent=1)
print(len(H))

# ---- XOF wrappers (state machine over an arbitrary underlying XOF)
HD = os.path.join(os.path.dirname(__file__), "..", "harness", "C19")
src = open(os.path.join(HD, "xof_blake2xb.go")).read()
xs = src.replace("package blake2xb", "package blake2xs").replace("golang.org/x/crypto/blake2b", "golang.org/x/crypto/blake2s").replace("blake2b.", "blake2s.")
open(os.path.join(HD, "gen_xof_blake2xs.go"), "w").write("// Code generated from xof_blake2xb.go by gen/c19.py. DO NOT EDIT.\n" + xs)
kc = src.replace("package blake2xb", "package keccak").replace('"golang.org/x/crypto/blake2b"', '"golang.org/x/crypto/sha3"')
a, b = kc.index("// BEGIN-CTOR"), kc.index("// END-CTOR")
kc = kc[:a] + '''func fakeNewShake() sha3.ShakeHash {
	f := &fakeX{}
	if fakeN < len(fakeMade) {
		fakeMade[fakeN] = f
	}
	fakeN++
	return f
}

func (f *fakeX) Sum(b []byte) []byte { return b }
func (f *fakeX) Size() int           { return 64 }
func (f *fakeX) BlockSize() int      { return 136 }

''' + kc[b + len("// END-CTOR"):]
kc = kc.replace("const fakeSize = blake2b.Size", "const fakeSize = 0").replace("blake2b.XOF", "sha3.ShakeHash").replace("xof{impl: f}", "xof{sh: f}").replace("x.impl", "x.sh").replace("y.impl", "y.sh")
open(os.path.join(HD, "gen_xof_keccak.go"), "w").write("// Code generated from xof_blake2xb.go by gen/c19.py. DO NOT EDIT.\n" + kc)

XH = []
KL = [-1, 0, 1, 127, 128, 129, 300]
for impl, pkg, f, ren in [
    ("blake2xb", "./xof/blake2xb", "harness/C19/xof_blake2xb.go", {"golang.org/x/crypto/blake2b.NewXOF": "fakeNewXOF"}),
    ("blake2xs", "./xof/blake2xs", "harness/C19/gen_xof_blake2xs.go", {"golang.org/x/crypto/blake2s.NewXOF": "fakeNewXOF"}),
    ("keccak", "./xof/keccak", "harness/C19/gen_xof_keccak.go", {"golang.org/x/crypto/sha3.NewShake256": "fakeNewShake"})]:
    stub = ["the underlying golang.org/x/crypto XOF -> fakeX: every output byte a fresh symbolic value, absorbed bytes, keys and operation counts recorded (the hash function itself is outside the claim)"]
    def add(name, entry, params, fn, bound, quick):
        XH.append(dict(name="xof-%s-%s" % (impl, name), pkg=pkg, files=[f], entry=entry, mode="bv", params=params, renames=ren, replay_entry=entry + "Replay", unwind=1024,
                       functions=["%s.%s" % (impl, x) for x in fn], stubs=stub, bound=bound, tiers=(["quick", "thorough"] if quick else ["thorough"])))
    for kl in KL:
        add("Reseed-k%d" % kl, "HarnessXofReseed", {"p0": kl}, ["(*xof).Reseed", "(*xof).Read", "(*xof).Write", "New"], "scratch buffer of length %d (arbitrary contents) before the call; all stream bytes" % kl, True)
        add("Clone-k%d" % kl, "HarnessXofClone", {"p0": kl}, ["(*xof).Clone", "(*xof).Read", "(*xof).Write", "(*xof).XORKeyStream", "(*xof).Reseed"], "scratch buffer of length %d; all stream bytes" % kl, kl in (-1, 0, 129))
        for n in [0, 1, 127, 128, 129, 600]:
            q = (kl, n) in [(-1, 0), (-1, 1), (-1, 129), (0, 1), (1, 1), (1, 0), (128, 129), (129, 128), (300, 1), (300, 600), (127, 128), (-1, 600)]
            add("XOR-k%d-n%d" % (kl, n), "HarnessXofXOR", {"p0": kl, "p1": n}, ["(*xof).XORKeyStream", "(*xof).Read"], "scratch buffer length %d, len(src)=%d, dst == src or separate, all src and stream bytes" % (kl, n), q)
    for sl in [0, 1, 31, 32, 33, 63, 64, 65, 128, 129, 300]:
        add("NewReset-s%d" % sl, "HarnessXofNewReset", {"p0": sl}, ["New", "(*xof).Reset", "(*xof).Read", "(*xof).Write"], "seed length %d, all seed bytes" % sl, sl in (0, 1, 32, 33, 64, 65, 300))
    for n in [0, 1, 600]:
        add("ReadWrite-n%d" % n, "HarnessXofReadWrite", {"p0": -1, "p1": n}, ["(*xof).Read", "(*xof).Write"], "chunk length %d (Write capped at 400 recorded bytes)" % n, n == 1)
for cfg in [(32, -1, -1), (40, -1, -1), (32, 32, -1), (32, 31, -1), (31, 32, -1), (0, 32, -1), (32, 0, -1), (5, 32, -1), (32, 32, 32), (32, 7, 0), (1, 40, 31), (31, 31, 32)]:
    XH.append(dict(name="randstream-%s" % "_".join(str(a) for a in cfg if a >= 0), pkg="./util/random", files=["harness/C19/randstream.go"], entry="HarnessRandStream", mode="bv",
                   params={"p0": cfg[0], "p1": cfg[1], "p2": cfg[2]}, unwind=400, replay_entry="HarnessRandStreamReplay",
                   renames={"crypto/sha256.New": "fkSha256New", "go.dedis.ch/kyber/v4/xof/blake2xb.New": "fkXofNew"},
                   stubs=["crypto/sha256.New -> recording hash; blake2xb.New -> recording expander (the hash functions are outside the claim)"],
                   functions=["random.New", "random.(*randstream).XORKeyStream", "io.ReadFull"], bound="readers delivering %s bytes (a reader with fewer than 32 fails afterwards), all byte values" % ", ".join(str(a) for a in cfg if a >= 0),
                   tiers=(["quick", "thorough"] if cfg in ((32, -1, -1), (32, 31, -1), (0, 32, -1), (32, 7, 0), (1, 40, 31)) else ["thorough"])))
json.dump(dict(property="C19", harnesses=XH), open(os.path.join(os.path.dirname(__file__), "..", "specs", "C19xof.json"), "w"), indent=1)
print(len(XH))
