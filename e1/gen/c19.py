#!/usr/bin/env python3
import json, os
PKG, F = "./util/random", ["harness/C19/rand.go"]
H = []
for n in list(range(0, 41)) + [47, 48, 49, 63, 64, 65, 72]:
    H.append(dict(name="Bits-%d" % n, pkg=PKG, files=F, entry="HarnessBits", mode="bv", params={"p0": n}, validate=6,
                  functions=["random.Bits"], bound="bit length %d, exact in {false,true}, all stream bytes" % n,
                  tiers=(["quick", "thorough"] if n <= 24 or n in (31, 32, 33, 40, 64, 65) else ["thorough"]),
                  mutants=[dict(id="C19b", file="util/random/rand.go", old="\tif highbits != 0 {\n\t\tb[0] &= ^(0xff << highbits)\n\t}", new="\t_ = highbits")] if n in (3, 12) else []))
for mod in [1, 2, 3, 5, 7, 8, 9, 15, 16, 17, 100, 127, 128, 129, 255, 256, 257, 1000, 32767, 32768, 65535, 65536, 65537]:
    H.append(dict(name="Int-%d" % mod, pkg=PKG, files=F, entry="HarnessInt", mode="int", params={"p0": mod}, unwind=64, loop_assume={"Int": 3}, validate=4,
                  functions=["random.Int", "compatible.(*Int).SetBytesWithCheck", "compatible.(*Int).SetBytes", "random.Bits"],
                  stubs=["math/big.Int modelled as a mathematical integer (SetBytes, Cmp, BitLen, Sign, Int64)"],
                  bound="modulus %d, all stream bytes, at most 3 rejection rounds (unwinding assertion)" % mod,
                  tiers=(["quick", "thorough"] if mod in (1, 2, 3, 7, 8, 9, 255, 256, 257, 65537) else ["thorough"]),
                  mutants=[dict(id="C19a", file="compatible/var_int.go", old="\tif mod.Cmp(&z.Int) <= 0 {", new="\tif mod.Cmp(&z.Int) < 0 {")] if mod in (7, 256) else []))
json.dump(dict(property="C19", harnesses=H), open(os.path.join(os.path.dirname(__file__), "..", "specs", "C19.json"), "w"), indent=1)
print(len(H))
