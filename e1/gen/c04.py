#!/usr/bin/env python3
import json, os
H = []
VT, VF = "./group/edwards25519vartime", ["harness/C04/vartime.go"]
for n in [0, 1, 2, 16, 31, 32, 33, 64, 65]:
    H.append(dict(name="vartime.decodePoint-len%d" % n, pkg=VT, files=VF, entry="HarnessDecodePoint", mode="int", params={"p0": n}, globals=["verifCurve"],
                  renames={"(*go.dedis.ch/kyber/v4/group/mod.Int).Sqrt": "stubSqrt"},
                  stubs=["(*mod.Int).Sqrt -> arbitrary boolean (math/big ModSqrt)", "math/big.Int as mathematical integer; ModInverse uninterpreted"],
                  functions=["edwards25519vartime.(*curve).decodePoint", "edwards25519vartime.(*curve).solveForX", "edwards25519vartime.reverse", "mod.(*Int).Mul/Sub/Div/Neg"],
                  bound="input length %d, arbitrary content" % n,
                  tiers=(["quick", "thorough"] if n in (0, 1, 31, 32, 33) else ["thorough"])))
PP, PF = "./group/p256", ["harness/C04/p256.go"]
for n in [0, 1, 33, 64, 65, 66]:
    H.append(dict(name="p256.UnmarshalBinary-len%d" % n, pkg=PP, files=PF, entry="HarnessP256Unmarshal", mode="int", params={"p0": n}, validate=4,
                  stubs=["crypto/elliptic curve -> harness stub: IsOnCurve returns an arbitrary answer and records its arguments", "math/big.Int as mathematical integer"],
                  functions=["p256.(*curvePoint).UnmarshalBinary", "p256.(*curvePoint).Valid"], bound="input length %d, arbitrary content" % n))
MP, MF = "./group/mod", ["harness/C04/modint.go"]
for mod in [2, 251, 256, 257, 65521, 65536, 16777259]:
    size = (mod.bit_length() + 7) // 8
    for bo in (0, 1):
        for ln in sorted({0, size - 1, size, size + 1} - {-1}):
            H.append(dict(name="mod.Int.UnmarshalBinary-m%d-bo%d-len%d" % (mod, bo, ln), pkg=MP, files=MF, entry="HarnessModIntUnmarshal", mode="int",
                          params={"p0": mod, "p1": bo, "p2": ln}, validate=4,
                          stubs=["math/big.Int as mathematical integer"],
                          functions=["mod.(*Int).UnmarshalBinary", "mod.(*Int).MarshalSize", "mod.reverse", "mod.NewInt64"],
                          bound="modulus %d, byte order %s, input length %d, arbitrary content" % (mod, ["big", "little"][bo], ln),
                          tiers=(["quick", "thorough"] if mod in (251, 256, 65521) else ["thorough"]),
                          mutants=[dict(id="C04b", file="group/mod/int.go", old="\tif i.V.Cmp(compatible.FromCompatibleMod(i.M)) >= 0 {", new="\tif i.V.Cmp(compatible.FromCompatibleMod(i.M)) > 0 {")] if (mod == 251 and ln == size) else []))
for n in [0, 1, 2]:
    H.append(dict(name="residue.UnmarshalBinary-len%d" % n, pkg="./group/p256", files=["harness/C04/residue.go"], entry="HarnessResidueUnmarshal", mode="int", params={"p0": n}, replay_entry="HarnessResidueUnmarshalReplay", unwind=64, globals=["one", "two"],
                  stubs=["math/big.Int as mathematical integers; Exp with constant exponent and modulus by square-and-multiply; Jacobi = arbitrary value in {-1,0,1}"],
                  functions=["p256.(*residuePoint).UnmarshalBinary", "p256.(*residuePoint).Valid"], bound="residue group P=31, Q=5, R=6 (cofactor > 2); input length %d, arbitrary content" % n))
EP = "go.dedis.ch/kyber/v4/group/edwards25519."
ed_contracts = {EP + k: dict(writes=[0], havoc=True) for k in ["feMul", "feSquare", "feSquare2", "feAdd", "feSub", "feNeg", "feCopy", "feCMove", "feFromBytes"]}
ed_contracts[EP + "feToBytes"] = dict(writes=[0, 1], havoc=True)
for n in [0, 1, 31, 33, 64]:
    H.append(dict(name="ed25519.point.UnmarshalBinary-len%d" % n, pkg="./group/edwards25519", files=["harness/C04/ed.go"], entry="HarnessEdUnmarshalLen", mode="bv", params={"p0": n}, contracts=ed_contracts,
                  replay_entry="HarnessEdUnmarshalLenReplay", unwind=400,
                  stubs=["field kernels -> writes only its output parameter, arbitrary value (only the length guard and the control flow are the subject)"],
                  functions=["edwards25519.(*point).UnmarshalBinary", "edwards25519.(*extendedGroupElement).FromBytes"], bound="input length %d, arbitrary content" % n,
                  mutants=[dict(id="C04c", file="group/edwards25519/ge.go", old="\tif len(s) != 32 {\n\t\treturn false\n\t}\n\tfeFromBytes(&p.Y, s)", new="\tif len(s) < 32 {\n\t\treturn false\n\t}\n\tfeFromBytes(&p.Y, s)")] if n == 33 else []))
BP = "go.dedis.ch/kyber/v4/pairing/bn256."
bn_contracts = {BP + k: dict(writes=[0], havoc=True) for k in ["gfpMul", "gfpAdd", "gfpSub", "gfpNeg"]}
for n in [0, 1, 63, 64, 65, 128]:
    H.append(dict(name="bn256.G1.UnmarshalBinary-len%d" % n, pkg="./pairing/bn256", files=["harness/C04/bn.go"], entry="HarnessBNUnmarshalG1", mode="bv", params={"p0": n},
                  renames={"(*" + BP + "curvePoint).IsOnCurve": "bnStubIsOnCurve"}, contracts=bn_contracts, replay_entry="HarnessBNUnmarshalG1Replay", unwind=400,
                  stubs=["(*curvePoint).IsOnCurve -> recording stub with an arbitrary verdict", "gfpMul/gfpAdd/gfpSub/gfpNeg (assembly) -> writes only its output parameter, arbitrary value"],
                  functions=["bn256.(*pointG1).UnmarshalBinary", "bn256.(*gfP).Unmarshal", "bn256.montEncode", "bn256.newGFp"], bound="input length %d, arbitrary content" % n,
                  tiers=(["quick", "thorough"] if n in (0, 63, 64, 65) else ["thorough"]),
                  mutants=[dict(id="C04a", file="pairing/bn256/point.go", old="\tif !p.g.IsOnCurve() {\n\t\treturn errors.New(\"bn256.G1: malformed point\")\n\t}", new="\t_ = errors.New")] if n == 64 else []))
BQ = "go.dedis.ch/kyber/v4/pairing/bn254."
bq_contracts = {BQ + k: dict(writes=[0], havoc=True) for k in ["gfpMul", "gfpAdd", "gfpSub", "gfpNeg"]}
for n in [0, 63, 64, 65]:
    H.append(dict(name="bn254.G1.UnmarshalBinary-len%d" % n, pkg="./pairing/bn254", files=["harness/C04/gen_bn254.go"], entry="HarnessBNUnmarshalG1", mode="bv", params={"p0": n},
                  renames={"(*" + BQ + "curvePoint).IsOnCurve": "bnStubIsOnCurve"}, contracts=bq_contracts, replay_entry="HarnessBNUnmarshalG1Replay", unwind=400,
                  stubs=["(*curvePoint).IsOnCurve -> recording stub with an arbitrary verdict", "gfpMul/gfpAdd/gfpSub/gfpNeg (assembly) -> writes only its output parameter, arbitrary value"],
                  functions=["bn254.(*pointG1).UnmarshalBinary", "bn254.(*gfP).Unmarshal"], bound="input length %d, arbitrary content" % n, tiers=(["quick", "thorough"] if n in (63, 64) else ["thorough"])))
json.dump(dict(property="C04", harnesses=H), open(os.path.join(os.path.dirname(__file__), "..", "specs", "C04.json"), "w"), indent=1)
print(len(H))
