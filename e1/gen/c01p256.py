#!/usr/bin/env python3
import json, os
H = []
OPS = ["Add", "Sub", "Neg", "Mul", "MulBase", "Null", "Base", "Set", "Clone"]
for op, on in enumerate(OPS):
    for shape, sn in enumerate(["any", "infinity", "y=0"]):
        if on in ("MulBase", "Null", "Base") and shape > 0:
            continue
        H.append(dict(name="p256.adapter.%s-%s" % (on, sn), pkg="./group/p256", files=["harness/C01/p256_adapter.go"], entry="HarnessP256Adapter", mode="int", params={"p0": op, "p1": shape},
                      replay_entry="HarnessP256AdapterReplay", unwind=80, timeout_ms=120000,
                      stubs=["crypto/elliptic curve -> contract stub: Add / ScalarMult / ScalarBaseMult return an arbitrary canonical pair and record their arguments", "math/big.Int as mathematical integers"],
                      functions=["p256.(*curvePoint).%s" % on.replace("MulBase", "Mul")], bound="operands: %s canonical pair(s) (0 <= x, y < p), arbitrary stale receiver, two-byte scalar" % {"any": "arbitrary", "infinity": "the point at infinity (0,0) as", "y=0": "arbitrary x with y = 0 as"}[sn],
                      tiers=["quick", "thorough"], **({"big_bytes_len": 2} if on in ("Mul", "MulBase") else {})))
json.dump(dict(property="C01", harnesses=H), open(os.path.join(os.path.dirname(__file__), "..", "specs", "C01p256.json"), "w"), indent=1)
print(len(H))
