#!/usr/bin/env python3
import json, os
PKG, F = "./group/edwards25519", ["harness/C01/alg.go"]
T = "(*go.dedis.ch/kyber/v4/group/edwards25519."
ren = {
    T + "extendedGroupElement).Zero": "algZeroE", T + "projectiveGroupElement).Zero": "algZeroP", T + "cachedGroupElement).Zero": "algZeroC", T + "preComputedGroupElement).Zero": "algZeroPC",
    T + "projectiveGroupElement).Double": "algDoubleP", T + "extendedGroupElement).Double": "algDoubleE",
    T + "extendedGroupElement).ToCached": "algToCached", T + "extendedGroupElement).ToProjective": "algE2P",
    T + "completedGroupElement).ToProjective": "algC2P", T + "completedGroupElement).ToExtended": "algC2E",
    T + "extendedGroupElement).Neg": "algNegE", T + "cachedGroupElement).Neg": "algNegC", T + "preComputedGroupElement).Neg": "algNegPC",
    T + "completedGroupElement).Add": "algAdd", T + "completedGroupElement).Sub": "algSub", T + "completedGroupElement).MixedAdd": "algMixedAdd", T + "completedGroupElement).MixedSub": "algMixedSub",
}
ren_sel = dict(ren)
ren_sel["go.dedis.ch/kyber/v4/group/edwards25519.selectCached"] = "algSelectCached"
ren_sel["go.dedis.ch/kyber/v4/group/edwards25519.selectPreComputed"] = "algSelectPreComputed"
math = ["algZeroE", "algZeroP", "algZeroC", "algZeroPC", "algDoubleP", "algDoubleE", "algToCached", "algE2P", "algC2P", "algC2E", "algNegE", "algNegC", "algNegPC", "algAdd", "algSub", "algMixedAdd", "algMixedSub", "algSelectCached", "algSelectPreComputed", "algFillBase", "algK"]
stubs = ["group operations (Add, Sub, MixedAdd, MixedSub, Double, Neg, Zero, representation changes) -> their action on the integer k of P = k*A (free-group abstraction; justified by the kernel and formula layers)",
         "selectCached / selectPreComputed -> c = b * table entry (this specification is verified on the real bodies by the select harnesses)",
         "precomputed table base[pos][i] assumed to hold (i+1) * 256^pos * B (ref10 constant; exercised natively by the replay entry)"]
H = [
    dict(name="alg.geScalarMult", pkg=PKG, files=F, entry="HarnessAlgScalarMult", mode="int", renames=ren_sel, math_in=math, unwind=300, replay_entry="HarnessAlgReplayFull", stubs=stubs, timeout_ms=600000,
         functions=["edwards25519.geScalarMult"], bound="all scalars a with a[31] <= 127 (2^255 values); no loop depends on data",
         mutants=[dict(id="C01alg1", file="group/edwards25519/ge.go", old="\tfor i = 62; i >= 0; i-- {\n\n\t\t// t <<= 4", new="\tfor i = 62; i >= 1; i-- {\n\n\t\t// t <<= 4")]),
    dict(name="alg.geScalarMultBase", pkg=PKG, files=F, entry="HarnessAlgScalarMultBase", mode="int", renames=ren_sel, math_in=math, unwind=300, replay_entry="HarnessAlgReplayFull", stubs=stubs, timeout_ms=600000,
         functions=["edwards25519.geScalarMultBase"], bound="all scalars a with a[31] <= 127"),
    dict(name="select.selectCached", pkg=PKG, files=F, entry="HarnessSelectCached", mode="bv", validate=6, unwind=64,
         functions=["edwards25519.selectCached", "edwards25519.(*cachedGroupElement).CMove", "edwards25519.(*cachedGroupElement).Neg", "edwards25519.equal", "edwards25519.negative", "edwards25519.feCMove"],
         bound="all table contents (8 x 40 int32 limbs), all digits b in -8..8"),
]
for pos in [0, 1, 31]:
    H.append(dict(name="select.selectPreComputed-pos%d" % pos, pkg=PKG, files=F, entry="HarnessSelectPreComputed", mode="bv", params={"p0": pos}, validate=4, unwind=64,
                  functions=["edwards25519.selectPreComputed", "edwards25519.(*preComputedGroupElement).CMove", "edwards25519.(*preComputedGroupElement).Neg"],
                  bound="table row %d with arbitrary contents, all digits b in -8..8" % pos, tiers=(["quick", "thorough"] if pos in (0, 31) else ["thorough"])))
for off, n, quick in [(0, 0, True), (31, 1, True), (0, 1, False), (1, 1, False), (15, 1, False), (30, 1, False)]:  # two-byte windows (30,2), (0,2) were tried: the symbolic execution does not finish within 50 minutes - not claimed
    H.append(dict(name="alg.geScalarMultVartime-bytes%d+%d" % (off, n), pkg=PKG, files=F, entry="HarnessAlgVartime", mode="int", params={"p0": off, "p1": n}, renames=ren, math_in=math, unwind=200000, wrap_conversions=True, prune=True,
                  replay_entry="HarnessAlgReplayWindow", stubs=stubs[:1], timeout_ms=600000, exec_timeout_s=(3000 if n == 2 else 900),
                  functions=["edwards25519.geScalarMultVartime", "edwards25519.slide"], bound=("the zero scalar (stale output contents)" if n == 0 else "all scalars whose non-zero bytes are bytes %d..%d (2^%d values incl. the zero scalar), a[31] <= 127; dead branch arms pruned by solver feasibility queries" % (off, off + n - 1, 8 * n)),
                  tiers=(["quick", "thorough"] if quick else ["thorough"]),
                  mutants=[dict(id="C01c", file="group/edwards25519/ge_mult_vartime.go", old="\t\t} else if aSlide[i] < 0 {\n\t\t\tt.ToExtended(&u)\n\t\t\tt.Sub(&u, &Ai[(-aSlide[i])/2])\n\t\t}", new="\t\t}")] if (off, n) == (31, 1) else []))
json.dump(dict(property="C01", harnesses=H), open(os.path.join(os.path.dirname(__file__), "..", "specs", "C01alg.json"), "w"), indent=1)
print(len(H))
