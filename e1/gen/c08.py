#!/usr/bin/env python3
import json, os
PKG, F = "./group/edwards25519", ["harness/C08/canon.go"]
H = [
 dict(name="scalar.IsCanonical", pkg=PKG, files=F, entry="HarnessScalarIsCanonical", mode="bv", globals=["primeOrder"], validate=24,
      functions=["edwards25519.(*scalar).IsCanonical"], bound="all 2^256 byte strings of length 32; lengths 0, 31, 33",
      mutants=[dict(id="C08c1", file="group/edwards25519/scalar.go", old="\tif sb[31]&0xf0 == 0 {", new="\tif sb[31]&0xe0 == 0 {")]),
 dict(name="point.IsCanonical", pkg=PKG, files=F, entry="HarnessPointIsCanonical", mode="bv", validate=24,
      functions=["edwards25519.(*point).IsCanonical"], bound="all 2^256 byte strings of length 32; lengths 0, 31",
      mutants=[dict(id="C08c2", file="group/edwards25519/point.go", old="\tfor i := 30; i > 0; i-- {\n\t\tc |= s[i] ^ 0xff", new="\tfor i := 30; i > 1; i-- {\n\t\tc |= s[i] ^ 0xff")]),
 dict(name="point.HasSmallOrder", pkg=PKG, files=F, entry="HarnessHasSmallOrder", mode="bv", globals=["weakKeys"], replay_entry="HarnessHasSmallOrderReplay", replay_models=12,
      renames={"(*go.dedis.ch/kyber/v4/group/edwards25519.point).MarshalBinary": "canonStubMarshal"},
      stubs=["(*point).MarshalBinary -> harness stub returning 32 symbolic bytes (the encoder is verified separately: feToBytes, ToBytes)"],
      functions=["edwards25519.(*point).HasSmallOrder"], bound="all 2^256 encodings",
      mutants=[dict(id="C08c3", file="group/edwards25519/point.go", old="\tfor j := range 31 {\n\t\tfor i := range 5 {", new="\tfor j := range 30 {\n\t\tfor i := range 5 {")]),
 dict(name="point.HasSmallOrder.torsion", pkg=PKG, files=F, entry="HarnessTorsionListed", mode="bv", globals=["weakKeys"], replay_entry="HarnessTorsionListedReplay",
      renames={"(*go.dedis.ch/kyber/v4/group/edwards25519.point).MarshalBinary": "canonStubMarshal"},
      stubs=["(*point).MarshalBinary -> harness stub returning the listed encoding"],
      functions=["edwards25519.(*point).HasSmallOrder"], bound="the 8 torsion points (symbolic index into a list written independently of weakKeys)"),
 dict(name="schnorr.VerifyWithChecks", pkg="./sign/schnorr", files=["harness/C08/schnorr_checks.go"], entry="HarnessVerifyWithChecks", mode="bv", unwind=200,
      renames={"go.dedis.ch/kyber/v4/sign/schnorr.hash": "fkHash"}, replay_entry="HarnessVerifyWithChecksReplay",
      stubs=["kyber.Group -> recording fake whose IsCanonical / HasSmallOrder / Equal return arbitrary verdicts", "schnorr.hash -> stub (the hash is not the subject)"],
      functions=["schnorr.VerifyWithChecks"], bound="all 32-byte keys and 64-byte signatures, all verdicts of the group's predicates",
      mutants=[dict(id="C08a", file="sign/schnorr/schnorr.go", old="\t\tif !p.IsCanonical(sig[:pointSize]) {\n\t\t\treturn errors.New(\"point R is not canonical\")\n\t\t}", new="\t\t_ = p.IsCanonical")]),
 dict(name="eddsa.VerifyWithChecks", pkg="./sign/eddsa", files=["harness/C08/eddsa_checks.go"], entry="HarnessEdDSAVerifyWithChecks", mode="bv", unwind=200, globals=["group"], globals_all=True,
      renames={"(*go.dedis.ch/kyber/v4/group/edwards25519.Curve).Scalar": "fkNewScalar", "(*go.dedis.ch/kyber/v4/group/edwards25519.Curve).Point": "fkNewPoint", "crypto/sha512.New": "fkSha512"},
      replay_entry="HarnessEdDSAVerifyWithChecksReplay",
      stubs=["edwards25519.Curve.Point / Scalar -> recording fakes: IsCanonical / HasSmallOrder return arbitrary verdicts, every point carries its component in the 8-torsion subgroup Z_8 and every scalar its value modulo 8; Equal = arbitrary verdict on the prime-order component AND equality of the torsion components", "crypto/sha512 -> arbitrary 64-byte digest"],
      functions=["eddsa.VerifyWithChecks"], bound="all 32-byte keys and 64-byte signatures, all verdicts of the group's predicates, all torsion components of R and of the key, all challenges modulo 8"),
]
for ml in [0, 1, 5, 33]:
    H.append(dict(name="eddsa.Sign-wiring-msglen%d" % ml, pkg="./sign/eddsa", files=["harness/C08/eddsa_sign.go"], entry="HarnessEdDSASignWiring", mode="bv", params={"p0": ml}, unwind=300, globals=["group"], globals_all=True, replay_entry="HarnessEdDSASignReplay",
      renames={"(*go.dedis.ch/kyber/v4/group/edwards25519.Curve).Scalar": "sgNewScalar", "(*go.dedis.ch/kyber/v4/group/edwards25519.Curve).Point": "sgNewPoint", "crypto/sha512.New": "sgSha512"},
      stubs=["edwards25519.Curve.Point / Scalar -> fake group: a scalar is a 32-bit value (arithmetic modulo 2^32), a point its discrete logarithm, an encoding the 4 value bytes followed by zeros", "crypto/sha512 -> records what it absorbs, returns an arbitrary digest per Sum"],
      functions=["eddsa.(*EdDSA).Sign"], bound="all messages of %d bytes, all keys, prefixes and digests" % ml, tiers=(["quick", "thorough"] if ml in (0, 5) else ["thorough"])))
json.dump(dict(property="C08", harnesses=H), open(os.path.join(os.path.dirname(__file__), "..", "specs", "C08.json"), "w"), indent=1)
