#!/usr/bin/env python3
"""Generate specs/C02.json (harness list for the scalar checks)."""
import json, os
H = []
M21, M25, M29 = str(2**21 - 1), str(2**25 - 1), str(2**29 - 1)
def names(p, n): return [p + str(i) for i in range(n)]
fns = {
    "scAdd": dict(load="HarnessScLoad2", core="HarnessScAddCore", pack="HarnessScAddPack", ins=[("a", 12), ("c", 12)], out="s"),
    "scSub": dict(load="HarnessScSubLoad", core="HarnessScSubCore", pack="HarnessScSubPack", ins=[("a", 12), ("c", 12)], out="s"),
    "scMul": dict(load="HarnessScMulLoad", core="HarnessScMulCore", pack="HarnessScMulPack", ins=[("a", 12), ("b", 12)], out="s"),
    "scMulAdd": dict(load="HarnessScMulAddLoad", core="HarnessScMulAddCore", pack="HarnessScMulAddPack", ins=[("a", 12), ("b", 12), ("c", 12)], out="s"),
    "scReduce": dict(load="HarnessScReduceLoad", core="HarnessScReduceCore", pack="HarnessScReducePack", ins=[("s", 24)], out="out"),
}
PKG, F = "./group/edwards25519", ["harness/C02/sc.go"]
MUT = {"scMulAdd": [dict(id="C02a", file="group/edwards25519/scalar.go",
        old="\tcarry[11] = s11 >> 21\n\ts12 += carry[11]\n\ts11 -= carry[11] << 21\n\n\ts0 += s12 * 666643",
        new="\tcarry[11] = s11 >> 22\n\ts12 += carry[11]\n\ts11 -= carry[11] << 22\n\n\ts0 += s12 * 666643")]}
for fn, d in fns.items():
    allv = [v for p, n in d["ins"] for v in names(p, n)]
    tops = {names(p, n)[-1]: ["0", M29 if n == 24 else M25] for p, n in d["ins"]}
    H.append(dict(name=fn + "-load", pkg=PKG, files=F, entry=d["load"], mode="bv",
                  cuts=[dict(fn=fn, trigger="after-vars", mode="abort", vars=allv)],
                  functions=["edwards25519." + fn + " (limb loads)", "edwards25519.load3", "edwards25519.load4"],
                  bound="all 2^%d byte inputs; no loop" % (8 * (64 if fn == "scReduce" else 32 * len(d["ins"])))))
    H.append(dict(name=fn + "-core", pkg=PKG, files=F, entry=d["core"], mode="int", replay_entry="Replay" + fn[0].upper() + fn[1:],
                  mutants=MUT.get(fn, []),
                  cuts=[dict(fn=fn, trigger="after-vars", mode="havoc", vars=allv, lo="0", hi=M21, bounds=tops, alias="in"),
                        dict(fn=fn, trigger="before-store-param", param=d["out"], mode="abort", vars=names("s", 12))],
                  functions=["edwards25519." + fn + " (limb arithmetic: products, reduction by l, carry chains)"],
                  bound="all limb vectors with 0 <= limb < 2^21 (top limb < 2^25 resp. 2^29), i.e. every byte input by the load lemma; no loop",
                  timeout_ms=150000))
    H.append(dict(name=fn + "-pack", pkg=PKG, files=F, entry=d["pack"], mode="bv", no_replay=True,
                  cuts=[dict(fn=fn, trigger="before-store-param", param=d["out"], mode="havoc", vars=names("s", 12), lo="0", hi=M21, bounds={"s11": ["0", M25]})],
                  functions=["edwards25519." + fn + " (byte packing)"],
                  bound="all limb vectors the core piece can produce (0 <= s_i < 2^21, s_11 < 2^25)"))
SA = ["harness/C02/scalar_api.go"]
GL = ["primeOrder", "defaultEndianess"]
# should a change route these methods through the limb kernels (verified by their own harnesses), the kernels are summarised
# ("writes its output parameter, arbitrary value"): the functional claim then fails symbolically and the native battery decides
KC = {"go.dedis.ch/kyber/v4/group/edwards25519." + k: dict(writes=[0], havoc=True) for k in ["scReduce", "scMulAdd", "scMul", "scAdd", "scSub"]}
SPLIT = "case split on the byte length of the reduced value (big.Int.Bytes has a value-dependent length): one harness per length, each ASSUMES its length; the lengths listed cover every value"
for n in [0, 1, 16, 31, 32, 33, 48, 64, 65, 96]:
    for bl in range(0, min(n, 32) + 1):
        quick = n in (0, 31, 32, 33, 64, 65) and bl in (0, 1, 16, 31, 32)
        H.append(dict(name="scalar.SetBytes-len%d-valuebytes%d" % (n, bl), pkg=PKG, files=SA, entry="HarnessScalarSetBytes", mode="int", params={"p0": n}, globals=GL, contracts=KC, replay_entry="HarnessScalarAPIReplay", big_bytes_len=bl, validate=(3 if quick else 0), unwind=200, timeout_ms=120000,
                      stubs=["math/big.Int as mathematical integers", SPLIT], functions=["edwards25519.(*scalar).SetBytes", "edwards25519.(*scalar).setInt", "mod.NewIntBytes", "mod.(*Int).LittleEndian"],
                      bound="all byte strings of length %d whose value mod l has a %d-byte minimal encoding, arbitrary stale receiver" % (n, bl), tiers=(["quick", "thorough"] if quick else ["thorough"])))
for bl in [0, 1, 2, 3, 4, 5, 6, 7, 8, 32]:
    H.append(dict(name="scalar.SetInt64-valuebytes%d" % bl, pkg=PKG, files=SA, entry="HarnessScalarSmall", mode="int", params={"p0": 0}, globals=GL, contracts=KC, replay_entry="HarnessScalarAPIReplay", big_bytes_len=bl, validate=3, unwind=80, timeout_ms=120000,
                  stubs=["math/big.Int as mathematical integers", SPLIT], functions=["edwards25519.(*scalar).SetInt64", "mod.NewInt64"], bound="all int64 arguments whose residue has a %d-byte minimal encoding (0..8 bytes: non-negative arguments; 32 bytes: negative ones)" % bl,
                  tiers=(["quick", "thorough"] if bl in (0, 1, 8, 32) else ["thorough"])))
for k, kn in enumerate(["SetInt64", "Zero", "One", "Set", "Clone"]):
    if k == 0:
        continue
    H.append(dict(name="scalar." + kn, pkg=PKG, files=SA, entry="HarnessScalarSmall", mode="int", params={"p0": k}, globals=GL, validate=3, unwind=80, timeout_ms=120000,
                  stubs=["math/big.Int as mathematical integers"], functions=["edwards25519.(*scalar)." + kn], bound="all 32-byte values, arbitrary stale receiver"))
json.dump(dict(property="C02", harnesses=H), open(os.path.join(os.path.dirname(__file__), "..", "specs", "C02.json"), "w"), indent=1)
print(len(H), "harnesses")
