#!/usr/bin/env python3
import json, os
H = []
ms = ["MarshalBinary", "String", "Data", "Equal", "Clone", "MarshalSize", "operand-of-Add", "operand-of-Neg-Set"]
for t, tn in enumerate(["projPoint", "extPoint"]):
    for k, mn in enumerate(ms):
        H.append(dict(name="vartime.%s.%s" % (tn, mn), pkg="./group/edwards25519vartime", files=["harness/C20/vartime.go"], entry="HarnessVartimeReadOnly", mode="int",
                      params={"p0": t, "p1": k}, globals=["verifPC20", "verifEC20"], big_bytes_havoc=32, unwind=400,
                      renames={"(*go.dedis.ch/kyber/v4/group/mod.Int).Sqrt": "stubSqrt20", "(*go.dedis.ch/kyber/v4/group/edwards25519vartime.curve).data": "stubData20"}, race_entry="RaceVartimeReadOnly",
                      stubs=["math/big.Int as mathematical integer (receiver-writing methods are stores to the receiver); Bytes() of a symbolic value = fresh slice, arbitrary content; fmt/hex formatting = empty bodies"],
                      functions=["edwards25519vartime.(*%s).%s" % (tn, mn)], bound="arbitrary coordinates; one call"))
json.dump(dict(property="C20", harnesses=H), open(os.path.join(os.path.dirname(__file__), "..", "specs", "C20.json"), "w"), indent=1)
print(len(H))
