#!/usr/bin/env python3
import json, os
H = []
ms = ["MarshalBinary", "String", "Data", "Equal", "Clone", "MarshalSize", "operand-of-Add", "operand-of-Neg-Set"]
for t, tn in enumerate(["projPoint", "extPoint"]):
    for k, mn in enumerate(ms):
        H.append(dict(name="vartime.%s.%s" % (tn, mn), pkg="./group/edwards25519vartime", files=["harness/C20/vartime.go"], entry="HarnessVartimeReadOnly", mode="int",
                      params={"p0": t, "p1": k}, globals=["verifPC20", "verifEC20"], big_bytes_havoc=32, unwind=400,
                      renames={"(*go.dedis.ch/kyber/v4/group/mod.Int).Sqrt": "stubSqrt20", "(*go.dedis.ch/kyber/v4/group/edwards25519vartime.curve).data": "stubData20"}, race_entry="RaceVartimeReadOnly",
                      stubs=["math/big.Int as mathematical integer (receiver-writing methods are stores to the receiver); Bytes() of a symbolic value = fresh slice, arbitrary content; fmt/hex formatting = empty bodies"],
                      functions=["edwards25519vartime.(*%s).%s" % (tn, mn)], bound="arbitrary coordinates; one call"))
EP = "go.dedis.ch/kyber/v4/group/edwards25519."
W0 = dict(writes=[0], havoc=True)
ed_contracts = {EP + k: W0 for k in ["feMul", "feSquare", "feSquare2", "feAdd", "feSub", "feNeg", "feCopy", "feCMove", "feFromBytes", "scMul", "scAdd", "scSub", "scMulAdd", "scReduce"]}
ed_contracts[EP + "feToBytes"] = dict(writes=[0, 1], havoc=True)  # feToBytes normalises its INPUT in place as well
ed_stubs = ["field / scalar limb kernels (feMul, feSquare, feSquare2, feAdd, feSub, feNeg, feCopy, feCMove, feToBytes, feFromBytes, scMul, scAdd, scSub, scMulAdd, scReduce) summarised as 'writes only its first parameter, arbitrary value'; each summary is checked on the real body by the ed25519.kernel-effects harnesses",
            "math/big.Int as mathematical integer (receiver-writing methods are stores to the receiver); fmt/hex formatting = empty bodies"]
sm = ["MarshalBinary", "Equal", "Clone", "String", "MarshalSize", "operand-of-Add-Sub", "operand-of-Neg-Set-Mul", "MarshalTo", "operand-of-Div", "IsCanonical"]
pm = ["MarshalBinary", "Equal", "Clone", "String", "MarshalSize-EmbedLen", "Data", "operand-of-Add-Sub", "operand-of-Neg-Set", "HasSmallOrder", "operand-of-Mul", "scalar-of-BaseMul", "MarshalTo"]
for t, (tn, ml) in enumerate([("scalar", sm), ("point", pm)]):
    for k, mn in enumerate(ml):
        H.append(dict(name="ed25519.%s.%s" % (tn, mn), pkg="./group/edwards25519", files=["harness/C20/ed25519.go"], entry="HarnessEdReadOnly", mode="int",
                      params={"p0": t, "p1": k}, globals=["primeOrder", "lMinus2", "weakKeys", "nullPoint", "cofactorScalar", "primeOrderScalar"], big_bytes_havoc=32, unwind=400, contracts=ed_contracts, approx_bitops=True, race_entry="RaceEdReadOnly",
                      stubs=ed_stubs, functions=["edwards25519.(*%s).%s" % (tn, mn)], bound="arbitrary contents (unreduced scalars, any limb values); one call"))
kn = ["feMul", "feSquare", "feSquare2", "feAdd-feSub-feNeg-feCopy", "feCMove", "feToBytes", "feFromBytes", "scMul", "scAdd", "scSub", "scMulAdd", "scReduce"]
for k, n in enumerate(kn):
    H.append(dict(name="ed25519.kernel-effects.%s" % n, pkg="./group/edwards25519", files=["harness/C20/ed25519.go"], entry="HarnessEdKernelEffects", mode="int", params={"p0": k}, no_replay=True, approx_bitops=True,
                  functions=["edwards25519." + n], bound="all inputs within the documented limb bounds; the output parameter is the only memory written",
                  tiers=(["quick", "thorough"] if n in ("feMul", "feCMove", "feToBytes", "scAdd", "feFromBytes") else ["thorough"])))
BP = "go.dedis.ch/kyber/v4/pairing/bn256."
bn_contracts = {BP + k: dict(writes=[0], havoc=True) for k in ["gfpMul", "gfpAdd", "gfpSub", "gfpNeg"]}
for k, mn in enumerate(["MarshalBinary", "Data", "Equal", "Clone", "String", "operand-of-Add-Neg-Set-Sub", "MarshalSize-EmbedLen", "operands-of-Pair", "G2-MarshalBinary-Equal-Clone-Add-Neg"]):
    H.append(dict(name="bn256.G1.%s" % mn, pkg="./pairing/bn256", files=["harness/C04/bn.go"], entry="HarnessBNReadOnlyG1", mode="int", params={"p0": k}, contracts=bn_contracts, approx_bitops=True, unwind=20000, exec_timeout_s=1200,
                  race_entry="RaceBNReadOnlyG1", stubs=["gfpMul/gfpAdd/gfpSub/gfpNeg (assembly) -> writes only its output parameter, arbitrary value", "fmt formatting = empty bodies"],
                  functions=["bn256.(*pointG1).%s" % mn], bound="arbitrary Jacobian coordinates; one call",
                  mutants=[dict(id="C20a", file="pairing/bn256/point.go", old="\tpgtemp := *p.g\n\tpgtemp.MakeAffine()", new="\tpgtemp := p.g\n\tpgtemp.MakeAffine()")] if mn == "Data" else []))
BQ = "go.dedis.ch/kyber/v4/pairing/bn254."
bq_contracts = {BQ + k: dict(writes=[0], havoc=True) for k in ["gfpMul", "gfpAdd", "gfpSub", "gfpNeg"]}
for k, mn in enumerate(["MarshalBinary", "Data", "Equal", "Clone", "String", "operand-of-Add-Neg-Set-Sub", "MarshalSize-EmbedLen", "operands-of-Pair", "G2-MarshalBinary-Equal-Clone-Add-Neg"]):
    if mn in ("Data", "MarshalSize-EmbedLen"):
        continue  # bn254 does not support embedding: Data / EmbedLen panic "unsupported operation" by design
    H.append(dict(name="bn254.G1.%s" % mn, pkg="./pairing/bn254", files=["harness/C04/gen_bn254.go"], entry="HarnessBNReadOnlyG1", mode="int", params={"p0": k}, contracts=bq_contracts, approx_bitops=True, unwind=20000, exec_timeout_s=1200,
                  race_entry="RaceBNReadOnlyG1", stubs=["gfpMul/gfpAdd/gfpSub/gfpNeg (assembly) -> writes only its output parameter, arbitrary value", "fmt formatting = empty bodies"],
                  functions=["bn254.(*pointG1).%s" % mn], bound="arbitrary Jacobian coordinates; one call", tiers=(["quick", "thorough"] if mn in ("MarshalBinary", "Data", "operands-of-Pair") else ["thorough"])))
for n in [1, 3, 9]:
    for pat in sorted({0, (1 << n) - 1, 0b101010101 & ((1 << n) - 1), 1 << (n - 1)}):
        for k, mn in enumerate(["AggregatePublicKeys", "AggregateSignatures", "Clone-then-aggregate", "accessors"]):
            H.append(dict(name="bdn.Mask.%s-n%d-mask%s" % (mn, n, format(pat, "b")), pkg="./sign/bdn", files=["harness/C20/bdn.go"], entry="HarnessBDNMaskReadOnly", mode="bv", params={"p0": n, "p1": k, "p2": pat}, unwind=200,
                          renames={"go.dedis.ch/kyber/v4/sign/bdn.hashPointToR": "efHashPointToR"}, race_entry="RaceBDNMaskReadOnly",
                          stubs=["kyber.Group -> fake whose operations write only their receiver", "bdn.hashPointToR -> arbitrary coefficients"],
                          functions=["bdn.NewMask", "bdn.(*Mask).Clone", "bdn.(*Scheme).AggregatePublicKeys", "bdn.(*Scheme).AggregateSignatures", "bdn.(*Mask).forEachBitEnabled"],
                          bound="roster of %d keys, participation pattern %s, mask built by NewMask and cloned, arbitrary keys and coefficients" % (n, format(pat, "b")), tiers=(["quick", "thorough"] if n <= 3 else ["thorough"])))
json.dump(dict(property="C20", harnesses=H), open(os.path.join(os.path.dirname(__file__), "..", "specs", "C20.json"), "w"), indent=1)
print(len(H))
