#!/usr/bin/env python3
import json, os
Q = "go.dedis.ch/kyber/v4/pairing/bn254."
ren = {"(*" + Q + "curvePoint).Add": "bmAdd", "(*" + Q + "curvePoint).Double": "bmDouble", Q + "gfpMul": "bmMulBeta", "(*" + Q + "lattice).Multi": "bmMulti"}
H = []
for nd in [0, 1, 3, 8, 11]:
    H.append(dict(name="bn254.curvePoint.Mul-digits%d" % nd, pkg="./pairing/bn254", files=["harness/C01/bn254_mul.go"], entry="HarnessBN254Mul", mode="int", params={"p0": nd},
                  renames=ren, math_in=["bmAdd", "bmDouble", "bmMulBeta"], globals_all=True, unwind=400, replay_entry="HarnessBN254MulReplay", timeout_ms=300000,
                  stubs=["G1 Add / Double / SetInfinity and the multiplication of the x-coordinate by the cube root of unity -> their action on pairs (k0, k1) = k0*a + k1*phi(a) (free-group abstraction; the formulas are the C01 BN formula layer)",
                         "lattice.Multi -> contract stub: returns the digit vector chosen by the harness; the scalar is defined from it (sum 2^i (d_i & 1) + lambda sum 2^i (d_i >> 1) mod n)",
                         "math/big.Int as mathematical integers"],
                  functions=["bn254.(*curvePoint).Mul"], bound="all digit vectors of length %d (digits 0..3), the scalar they decompose, arbitrary stale receiver" % nd,
                  tiers=(["quick", "thorough"] if nd <= 11 else ["thorough"])))
json.dump(dict(property="C01", harnesses=H), open(os.path.join(os.path.dirname(__file__), "..", "specs", "C01bnmul.json"), "w"), indent=1)
print(len(H))
