package main

import (
	"bufio"
	"encoding/json"
	"fmt"
	"io"
	"math/big"
	"os"
	"os/exec"
	"path/filepath"
	"sort"
	"strings"
	"sync"
	"time"
)

type solverProc struct {
	name string
	cmd  *exec.Cmd
	in   io.WriteCloser
	out  *bufio.Reader
	dead bool
}

func startSolver(bin string, timeoutMs int) *solverProc {
	var cmd *exec.Cmd
	if strings.Contains(bin, "cvc5") {
		cmd = exec.Command(bin, "--lang", "smt2", "--incremental", "--produce-models", fmt.Sprintf("--tlimit-per=%d", timeoutMs))
	} else {
		cmd = exec.Command(bin, "-in", fmt.Sprintf("-t:%d", timeoutMs))
	}
	in, _ := cmd.StdinPipe()
	out, _ := cmd.StdoutPipe()
	cmd.Stderr = os.Stderr
	if err := cmd.Start(); err != nil {
		panic("cannot start solver " + bin + ": " + err.Error())
	}
	return &solverProc{name: bin, cmd: cmd, in: in, out: bufio.NewReaderSize(out, 1<<20)}
}

func (s *solverProc) close() {
	s.in.Close()
	done := make(chan struct{})
	go func() { s.cmd.Wait(); close(done) }()
	select {
	case <-done:
	case <-time.After(2 * time.Second):
		s.cmd.Process.Kill()
	}
}

// query runs one self-contained script; when sat and syms is non-empty the values of syms are returned.
// Any "(error" line makes the verdict inconclusive.
func (s *solverProc) query(script string, syms []string) (string, map[string]string) {
	io.WriteString(s.in, "(reset)\n(set-option :produce-models true)\n"+script+"\n(check-sat)\n(echo \"@@v\")\n")
	verdict := ""
	for {
		line, err := s.out.ReadString('\n')
		if err != nil {
			s.dead = true
			return "error: solver died", nil
		}
		line = strings.TrimSpace(line)
		if line == "@@v" || line == "\"@@v\"" {
			break
		}
		if strings.HasPrefix(line, "(error") {
			verdict = "error: " + line
		} else if verdict == "" && (line == "sat" || line == "unsat" || line == "unknown" || line == "timeout") {
			verdict = line
		}
	}
	if verdict == "" {
		verdict = "error: no answer"
	}
	if verdict != "sat" || len(syms) == 0 {
		return verdict, nil
	}
	io.WriteString(s.in, "(get-value ("+strings.Join(syms, " ")+"))\n(echo \"@@m\")\n")
	var sb strings.Builder
	for {
		line, err := s.out.ReadString('\n')
		if err != nil {
			s.dead = true
			return verdict, nil
		}
		t := strings.TrimSpace(line)
		if t == "@@m" || t == "\"@@m\"" {
			break
		}
		sb.WriteString(line)
	}
	return verdict, parseValues(sb.String())
}

// parseValues parses ((a #x0f) (b (- 5)) (c 7) (d #b1) (e true))
func parseValues(s string) map[string]string {
	res := map[string]string{}
	toks := tokenize(s)
	// expect ( ( name value ) ... )
	i := 0
	var parseVal func() string
	parseVal = func() string {
		if i >= len(toks) {
			return ""
		}
		if toks[i] == "(" {
			i++
			var parts []string
			for i < len(toks) && toks[i] != ")" {
				parts = append(parts, parseVal())
			}
			i++
			return "(" + strings.Join(parts, " ") + ")"
		}
		t := toks[i]
		i++
		return t
	}
	if len(toks) == 0 || toks[0] != "(" {
		return res
	}
	i = 1
	for i < len(toks) && toks[i] == "(" {
		i++
		name := toks[i]
		i++
		val := parseVal()
		if i < len(toks) && toks[i] == ")" {
			i++
		}
		res[name] = val
	}
	return res
}

func tokenize(s string) []string {
	var toks []string
	cur := ""
	for _, r := range s {
		switch {
		case r == '(' || r == ')':
			if cur != "" {
				toks = append(toks, cur)
				cur = ""
			}
			toks = append(toks, string(r))
		case r == ' ' || r == '\n' || r == '\t' || r == '\r':
			if cur != "" {
				toks = append(toks, cur)
				cur = ""
			}
		default:
			cur += string(r)
		}
	}
	if cur != "" {
		toks = append(toks, cur)
	}
	return toks
}

// smtValueToInt converts a model value to a signed big integer (bit-vectors are returned unsigned).
func smtValueToInt(v string) (*big.Int, bool) {
	v = strings.TrimSpace(v)
	switch {
	case strings.HasPrefix(v, "#x"):
		n, ok := new(big.Int).SetString(v[2:], 16)
		return n, ok
	case strings.HasPrefix(v, "#b"):
		n, ok := new(big.Int).SetString(v[2:], 2)
		return n, ok
	case v == "true":
		return big.NewInt(1), true
	case v == "false":
		return big.NewInt(0), true
	case strings.HasPrefix(v, "(- "):
		n, ok := new(big.Int).SetString(strings.TrimSuffix(strings.TrimPrefix(v, "(- "), ")"), 10)
		if ok {
			n.Neg(n)
		}
		return n, ok
	case strings.HasPrefix(v, "(_ bv"):
		f := strings.Fields(strings.Trim(v, "()"))
		n, ok := new(big.Int).SetString(strings.TrimPrefix(f[1], "bv"), 10)
		return n, ok
	}
	n, ok := new(big.Int).SetString(v, 10)
	return n, ok
}

func (m *Machine) script(o *Obligation, negate bool) (string, int, map[string]bool) {
	p := newPrinter()
	var asserts []string
	for _, d := range sliceDefs(o) {
		asserts = append(asserts, d.smt(p))
	}
	for _, c := range o.pc {
		asserts = append(asserts, c.smt(p))
	}
	var goal string
	if o.claim != nil {
		if negate {
			goal = cNot(o.claim).smt(p)
		} else {
			goal = o.claim.smt(p)
		}
	}
	var sb strings.Builder
	syms := map[string]bool{}
	var walk func(c *Cond)
	seenC := map[*Cond]bool{}
	walk = func(c *Cond) {
		if c == nil || seenC[c] {
			return
		}
		seenC[c] = true
		for _, l := range []*Lin{c.a, c.b} {
			if l != nil {
				for s := range l.k {
					syms[s] = true
				}
			}
		}
		walk(c.x)
		walk(c.y)
	}
	for _, d := range sliceDefs(o) {
		walk(d)
	}
	for _, c := range o.pc {
		walk(c)
	}
	walk(o.claim)
	hasReal := p.usedReal
	hasBV := len(p.vars) > 0 && !p.onlyReal()
	switch {
	case len(syms) > 0 && !hasReal && !hasBV:
		sb.WriteString("(set-logic QF_LIA)\n")
	case hasReal && !hasBV && len(syms) == 0:
		sb.WriteString("(set-logic QF_NRA)\n")
	case hasBV && !hasReal && len(syms) == 0:
		sb.WriteString("(set-logic QF_BV)\n")
	}
	var ss []string
	for s := range syms {
		ss = append(ss, s)
	}
	sort.Strings(ss)
	for _, s := range ss {
		fmt.Fprintf(&sb, "(declare-const %s Int)\n", s)
	}
	if p.ufuns != nil {
		sb.Reset() // uninterpreted terms present: no set-logic restriction
		for _, s := range ss {
			fmt.Fprintf(&sb, "(declare-const %s Int)\n", s)
		}
		sb.WriteString(uDecls(p.ufuns))
	}
	sb.WriteString(p.sb.String())
	for _, a := range asserts {
		sb.WriteString("(assert " + a + ")\n")
	}
	if goal != "" {
		sb.WriteString("(assert " + goal + ")\n")
	}
	for name := range p.vars {
		syms[name] = true
	}
	return sb.String(), len(ss) + len(p.vars), syms
}

func discharge(m *Machine, h HarnessSpec, rep *HarnessReport, overlay map[string][]byte) {
	to := h.TimeoutMs
	if to == 0 {
		to = 120000
		if *tier == "thorough" {
			to = 600000
		}
	}
	// vacuity: every reach marker's path condition must be satisfiable
	var obls []*Obligation
	for i := range m.obls {
		obls = append(obls, &m.obls[i])
	}
	for i := range m.reachObls {
		obls = append(obls, &m.reachObls[i])
	}
	rep.Obligations = len(obls)
	type res struct {
		verdict string
		model   map[string]string
		secs    float64
		bytes   int
		cross   bool
	}
	results := make([]res, len(obls))
	var nondetNames []string
	for _, n := range m.nondets {
		nondetNames = append(nondetNames, n.name)
	}
	t0 := time.Now()
	nw := *jobs
	if nw > len(obls) {
		nw = len(obls)
	}
	var wg sync.WaitGroup
	ch := make(chan int)
	for w := 0; w < nw; w++ {
		wg.Add(1)
		go func() {
			defer wg.Done()
			z := startSolver(solverFor(m), to)
			var z2 *solverProc
			if *solver2 != "" {
				z2 = startSolver(*solver2, to)
			}
			defer func() {
				z.close()
				if z2 != nil {
					z2.close()
				}
			}()
			for i := range ch {
				o := obls[i]
				if o.vacuity && len(o.pc) == 0 {
					// straight-line reachability: no path condition; the definitional constraints are satisfiable by construction
					results[i] = res{verdict: "sat"}
					continue
				}
				sc, _, used := m.script(o, !o.vacuity)
				if *dumpDir != "" {
					os.WriteFile(filepath.Join(*dumpDir, fmt.Sprintf("%s_%04d.smt2", h.Name, i)), []byte(sc+"(check-sat)\n"), 0o644)
				}
				tq := time.Now()
				var want []string
				if !o.vacuity {
					for _, n := range nondetNames {
						if used[n] {
							want = append(want, n) // only symbols declared in this (sliced) script
						}
					}
				}
				v, mod := z.query(sc, want)
				if z.dead {
					z = startSolver(solverBin(), to)
				}
				refined := false
				if v == "sat" && m.intMode && !o.vacuity && len(m.prods) > 0 {
					// refine the product abstraction: the same query with M_x_y = x*y (non-linear integer arithmetic)
					var extra strings.Builder
					n := 0
					for key, ps := range m.prods {
						if !used[ps] {
							continue
						}
						xy := strings.SplitN(key, "*", 2)
						for _, b := range xy {
							if !used[b] {
								used[b] = true
								fmt.Fprintf(&extra, "(declare-const %s Int)\n", b)
								if bd, ok := m.bounds[b]; ok {
									fmt.Fprintf(&extra, "(assert (and (<= %s %s) (<= %s %s)))\n", num(bd[0]), b, b, num(bd[1]))
								}
							}
						}
						fmt.Fprintf(&extra, "(assert (= %s (* %s %s)))\n", ps, xy[0], xy[1])
						n++
					}
					if n > 0 {
						sc2 := strings.Replace(sc, "(set-logic QF_LIA)\n", "", 1) + extra.String()
						want = nil
						for _, nn := range nondetNames {
							if used[nn] {
								want = append(want, nn)
							}
						}
						v2, mod2 := z.query(sc2, want)
						if z.dead {
							z = startSolver(solverBin(), to)
						}
						if v2 == "sat" || v2 == "unsat" {
							refined = true // decided by the non-linear refinement: the abstract script must not be cross-checked against it
						}
						switch v2 {
						case "sat":
							mod = mod2
						case "unsat":
							v = "unsat" // no counterexample with the real products: the abstract model was spurious
							mod = nil
						default:
							if mod != nil {
								mod["@unrefined"] = "product abstraction not refined (" + v2 + ")"
							}
						}
					}
				}
				r := res{verdict: v, model: mod, bytes: len(sc)}
				if z2 != nil && (v == "sat" || v == "unsat") && !refined {
					v2, _ := z2.query(sc, nil)
					if z2.dead {
						z2 = startSolver(*solver2, to)
					}
					if v2 == "sat" || v2 == "unsat" {
						r.cross = true
					}
					if (v2 == "sat" || v2 == "unsat") && v2 != v {
						r.verdict = fmt.Sprintf("error: solvers disagree (%s: %s, %s: %s)", z.name, v, z2.name, v2)
					}
				}
				r.secs = time.Since(tq).Seconds()
				results[i] = r
			}
		}()
	}
	for i := range obls {
		ch <- i
	}
	close(ch)
	wg.Wait()
	// second chance for undecided obligations: one at a time, fresh solver process, three times the budget (a loaded
	// machine or an unlucky heuristic must not turn into an inconclusive run when the query is decidable)
	for i, o := range obls {
		v := results[i].verdict
		if v == "sat" || v == "unsat" || (o.vacuity && len(o.pc) == 0) {
			continue
		}
		sc, _, used := m.script(o, !o.vacuity)
		var want []string
		if !o.vacuity {
			for _, n := range nondetNames {
				if used[n] {
					want = append(want, n)
				}
			}
		}
		z := startSolver(solverFor(m), 3*to)
		tq := time.Now()
		v2, mod2 := z.query(sc, want)
		z.close()
		rep.Retried++
		if v2 == "unsat" || (v2 == "sat" && !(m.intMode && len(m.prods) > 0)) {
			results[i] = res{verdict: v2, model: mod2, secs: results[i].secs + time.Since(tq).Seconds(), bytes: len(sc)}
		}
	}
	rep.SolveS = time.Since(t0).Seconds()
	expectSat := map[string]bool{}
	for _, e := range h.ExpectSat {
		expectSat[e] = true
	}
	var toReplay []int
	oblOf := map[int]*Obligation{} // failure index -> obligation (for model enumeration)
	for i, o := range obls {
		r := results[i]
		if r.cross {
			rep.CrossCheck++
		}
		kind := kindOf(o.what)
		c := rep.ByKind[kind]
		or := OblResult{What: o.what, Pos: o.pos, Verdict: r.verdict, Secs: r.secs, Bytes: r.bytes}
		ok := false
		switch {
		case o.vacuity:
			// reachability witness: must be satisfiable
			if r.verdict == "sat" {
				ok = true
				c[0]++
				rep.Unsat++ // counted as discharged
			} else if r.verdict == "unsat" {
				or.Verdict = "vacuous: path condition unsatisfiable"
				c[1]++
				rep.Sat++
			}
		case expectSat[assertID(o.what)]:
			// vacuity twin: this assertion must be violated
			if r.verdict == "sat" {
				ok = true
				c[0]++
				rep.Unsat++
			} else if r.verdict == "unsat" {
				or.Verdict = "vacuous: assertion expected to be violated was proved"
				c[1]++
				rep.Sat++
			}
		case r.verdict == "unsat":
			ok = true
			c[0]++
			rep.Unsat++
		case r.verdict == "sat":
			c[1]++
			rep.Sat++
			or.Model = r.model
			if or.Model == nil {
				or.Model = map[string]string{} // no symbolic input involved: replay with the defaults
			}
			toReplay = append(toReplay, len(rep.Failures))
			oblOf[len(rep.Failures)] = o
		}
		if r.verdict != "sat" && r.verdict != "unsat" {
			c[2]++
			rep.Unknown++
		}
		rep.ByKind[kind] = c
		if !ok {
			if len(rep.Failures) < 40 {
				rep.Failures = append(rep.Failures, or)
			}
		} else if len(rep.Samples) < 3 || (r.secs > 1 && len(rep.Samples) < 6) {
			rep.Samples = append(rep.Samples, or)
		}
	}
	// replay satisfying assignments against the real code
	var replayable []int
	for _, fi := range toReplay {
		if fi < len(rep.Failures) && rep.Failures[fi].Model != nil {
			replayable = append(replayable, fi)
		}
	}
	if len(replayable) > 0 && h.RaceEntry != "" {
		// effect findings are confirmed with the race detector: two goroutines run the read-only method on a shared value
		out, err := nativeRace(h, overlay)
		for _, fi := range replayable {
			switch {
			case err != nil:
				rep.Failures[fi].Replay = "error: " + err.Error()
			case strings.Contains(out, "DATA RACE"):
				rep.Failures[fi].Replay = "reproduced: go test -race reports a DATA RACE between two concurrent calls"
			default:
				rep.Failures[fi].Replay = "spurious: no race reported natively"
			}
		}
	} else if len(replayable) > 0 {
		if h.NoReplay || (hasHavoc(h) && h.ReplayEntry == "") {
			for _, fi := range replayable {
				rep.Failures[fi].Replay = "not-replayable (abstract mode): candidate only"
			}
		} else {
			if len(replayable) > 8 {
				for _, fi := range replayable[8:] {
					rep.Failures[fi].Replay = "not replayed (more than 8 models)"
				}
				replayable = replayable[:8]
			}
			var inputs [][]string
			for _, fi := range replayable {
				inputs = append(inputs, m.modelInputs(rep.Failures[fi].Model))
			}
			outs, err := nativeRun(h, overlay, inputs)
			for k, fi := range replayable {
				if err != nil {
					rep.Failures[fi].Replay = "error: " + err.Error()
					continue
				}
				id := assertID(rep.Failures[fi].What)
				o := outs[k]
				switch {
				case o.Panic != "" && strings.HasPrefix(kindOf(rep.Failures[fi].What), "panic"):
					rep.Failures[fi].Replay = "reproduced: " + o.Panic
				case o.Panic != "":
					rep.Failures[fi].Replay = "reproduced (panic): " + o.Panic
				case o.Skipped && h.ReplayModels > 1 && oblOf[fi] != nil:
					// the native replay entry constrains its inputs further than the encoding (e.g. "is the encoding of a point");
					// enumerate further models of the same query and replay them until one satisfies the native assumption
					rep.Failures[fi].Replay = enumerateModels(m, h, overlay, oblOf[fi], rep.Failures[fi].Model, nondetNames, to, id)
				case o.Skipped:
					rep.Failures[fi].Replay = "spurious: assumption not satisfied natively"
				case containsStr(o.Failed, id) || (id == "" && len(o.Failed) > 0):
					rep.Failures[fi].Replay = "reproduced"
				case kindOf(rep.Failures[fi].What) != "assert" && h.ReplayEntry != "" && len(o.Failed) > 0:
					// the encoding stopped at a run-time fault it could not look behind (e.g. a value it does not model);
					// the replay entry asks the property's question of the compiled code, and that fails
					rep.Failures[fi].Replay = "reproduced (the native replay entry fails: " + o.Failed[0] + ")"
				case kindOf(rep.Failures[fi].What) == "overflow" && len(o.Failed) > 0:
					// a machine-integer overflow has no native symptom of its own; the inputs that overflow make an
					// assertion of the harness fail on the compiled code
					rep.Failures[fi].Replay = "reproduced (the overflowing input fails natively: " + o.Failed[0] + ")"
				default:
					rep.Failures[fi].Replay = "spurious: native run passes"
				}
				rep.Failures[fi].Model = compactModel(rep.Failures[fi].Model, m)
			}
		}
	}
	// translator validation on concrete inputs
	if h.Validate > 0 && !h.NoReplay && !hasHavoc(h) && len(m.nondets) > 0 {
		validate(m, h, rep, overlay)
	}
}

// enumerateModels asks the solver for up to h.ReplayModels-1 further satisfying assignments of obligation o (each
// blocked on the symbolic inputs of the previous ones) and replays them natively in one batch.
func enumerateModels(m *Machine, h HarnessSpec, overlay map[string][]byte, o *Obligation, first map[string]string, nondetNames []string, to int, id string) string {
	sc, _, used := m.script(o, true)
	var want []string
	for _, n := range nondetNames {
		if used[n] {
			want = append(want, n)
		}
	}
	z := startSolver(solverFor(m), to)
	defer z.close()
	block := func(mod map[string]string) string {
		var b strings.Builder
		b.WriteString("(assert (not (and true")
		for _, n := range want {
			if v, ok := mod[n]; ok {
				fmt.Fprintf(&b, " (= %s %s)", n, v)
			}
		}
		b.WriteString(")))\n")
		return b.String()
	}
	extra := block(first)
	var inputs [][]string
	var models []map[string]string
	for k := 1; k < h.ReplayModels; k++ {
		v, mod := z.query(sc+extra, want)
		if z.dead {
			z = startSolver(solverFor(m), to)
		}
		if v != "sat" || mod == nil {
			break
		}
		models = append(models, mod)
		inputs = append(inputs, m.modelInputs(mod))
		extra += block(mod)
	}
	if len(inputs) == 0 {
		return "spurious: assumption not satisfied natively (no further model)"
	}
	outs, err := nativeRun(h, overlay, inputs)
	if err != nil {
		return "error: " + err.Error()
	}
	skipped := 0
	for k, o := range outs {
		switch {
		case o.Skipped:
			skipped++
		case o.Panic != "":
			return fmt.Sprintf("reproduced (panic, model %d of %d): %s inputs=%v", k+2, len(inputs)+1, o.Panic, inputs[k])
		case containsStr(o.Failed, id) || (id == "" && len(o.Failed) > 0):
			return fmt.Sprintf("reproduced (model %d of %d) inputs=%v", k+2, len(inputs)+1, inputs[k])
		}
	}
	return fmt.Sprintf("spurious: %d further models, %d not satisfying the native assumption, none failing natively", len(inputs), skipped)
}

func hasHavoc(h HarnessSpec) bool {
	for _, c := range h.Cuts {
		if c.Mode == "havoc" {
			return true
		}
	}
	return false
}

func containsStr(l []string, s string) bool {
	for _, x := range l {
		if x == s {
			return true
		}
	}
	return false
}

func compactModel(mod map[string]string, m *Machine) map[string]string {
	if len(mod) <= 80 {
		return mod
	}
	out := map[string]string{}
	for i, n := range m.nondets {
		if i >= 80 {
			break
		}
		out[n.name] = mod[n.name]
	}
	return out
}

func kindOf(what string) string {
	switch {
	case strings.HasPrefix(what, "assert:"):
		return "assert"
	case strings.HasPrefix(what, "overflow"):
		return "overflow"
	case strings.HasPrefix(what, "index"):
		return "panic:index"
	case strings.HasPrefix(what, "reach:"):
		return "vacuity"
	case strings.Contains(what, "OR-as-ADD"):
		return "or-as-add side condition"
	case strings.HasPrefix(what, "effect"):
		return "effect"
	case strings.Contains(what, "unwinding"):
		return "unwinding"
	default:
		return "panic:" + strings.SplitN(what, " ", 2)[0]
	}
}

func assertID(what string) string {
	return strings.TrimPrefix(what, "assert: ")
}

// solverFor picks the solver by arithmetic mode: z3 5.1 decides the integer (limb) queries that 4.8.12 does not finish,
// while 4.8.12 is the faster one on the wide bit-vector queries.
func solverFor(m *Machine) string {
	if v := os.Getenv("E1_SOLVER"); v != "" {
		return v
	}
	if m.intMode {
		return "z3-new"
	}
	return "z3"
}

func solverBin() string {
	if v := os.Getenv("E1_SOLVER"); v != "" {
		return v
	}
	return "z3-new" // z3 5.1.0: decides the limb-arithmetic LIA queries in seconds where 4.8.12 runs out of time
}

// modelInputs lists the values of the nondet symbols in creation order (decimal strings, signed).
func (m *Machine) modelInputs(mod map[string]string) []string {
	var out []string
	for _, n := range m.nondets {
		v, ok := smtValueToInt(mod[n.name])
		if !ok || v == nil {
			v = big.NewInt(0)
			if n.lo != nil && n.lo.Sign() > 0 {
				v = new(big.Int).Set(n.lo)
			}
		}
		if n.signed && n.w > 0 && !m.intMode && v.Bit(n.w-1) == 1 {
			v = new(big.Int).Sub(v, new(big.Int).Lsh(big.NewInt(1), uint(n.w)))
		}
		out = append(out, v.String())
	}
	return out
}

type nativeOut struct {
	Failed  []string          `json:"failed"`
	Passed  []string          `json:"passed"`
	Panic   string            `json:"panic"`
	Skipped bool              `json:"skipped"`
	Obs     map[string]string `json:"obs"`
}

// nativeRun compiles the harness with the native bodies of the intrinsics and runs the entry once per input vector.
func nativeRun(h HarnessSpec, overlay map[string][]byte, inputs [][]string) ([]nativeOut, error) {
	tmp, err := os.MkdirTemp("", "e1replay")
	if err != nil {
		return nil, err
	}
	defer os.RemoveAll(tmp)
	pkgDir := filepath.Join(*repoDir, strings.TrimPrefix(h.Pkg, "./"))
	ov := map[string]string{}
	k := 0
	pkgName := ""
	for p, src := range overlay {
		f := filepath.Join(tmp, fmt.Sprintf("f%d.go", k))
		k++
		os.WriteFile(f, src, 0o644)
		ov[p] = f
		if strings.HasSuffix(p, "zz_verif_support.go") {
			for _, l := range strings.Split(string(src), "\n") {
				if strings.HasPrefix(l, "package ") {
					pkgName = strings.TrimSpace(strings.TrimPrefix(l, "package "))
					break
				}
			}
		}
	}
	// the package's own test files are replaced by empty stubs: their init() code (benchmark set-up that
	// draws random points, ...) must not run - or hang - before the replay does
	if ents, err := os.ReadDir(pkgDir); err == nil {
		for _, e := range ents {
			if !strings.HasSuffix(e.Name(), "_test.go") {
				continue
			}
			orig, err := os.ReadFile(filepath.Join(pkgDir, e.Name()))
			if err != nil {
				continue
			}
			clause := "package " + pkgName
			for _, l := range strings.Split(string(orig), "\n") {
				if strings.HasPrefix(l, "package ") {
					clause = strings.TrimSpace(l)
					break
				}
			}
			f := filepath.Join(tmp, fmt.Sprintf("stub%d.go", k))
			k++
			os.WriteFile(f, []byte(clause+"\n"), 0o644)
			ov[filepath.Join(pkgDir, e.Name())] = f
		}
	}
	var sb strings.Builder
	fmt.Fprintf(&sb, "package %s\n\nimport (\n\t\"encoding/json\"\n\t\"fmt\"\n\t\"testing\"\n)\n\n", pkgName)
	sb.WriteString("func TestVerifReplay(t *testing.T) {\n\tcases := [][]string{\n")
	for _, in := range inputs {
		sb.WriteString("\t\t{")
		for _, v := range in {
			fmt.Fprintf(&sb, "%q,", v)
		}
		sb.WriteString("},\n")
	}
	sb.WriteString("\t}\n\tfor _, c := range cases {\n\t\tverifReset(c)\n\t\tfunc() {\n\t\t\tdefer verifRecover()\n")
	var args []string
	for range h.Params {
		args = append(args, "0")
	}
	// parameters in declaration order are not known here; harness entries with params take them from verifParams
	ent := h.Entry
	if h.ReplayEntry != "" {
		ent = h.ReplayEntry
	}
	fmt.Fprintf(&sb, "\t\t\t%s(%s)\n", ent, entryArgsNative(h))
	sb.WriteString("\t\t}()\n\t\tb, _ := json.Marshal(verifResult())\n\t\tfmt.Println(\"VERIFREPLAY \" + string(b))\n\t}\n}\n")
	_ = args
	tf := filepath.Join(tmp, "replay_test.go")
	os.WriteFile(tf, []byte(sb.String()), 0o644)
	ov[filepath.Join(pkgDir, "zz_verif_replay_test.go")] = tf
	ovj, _ := json.Marshal(map[string]any{"Replace": ov})
	ovf := filepath.Join(tmp, "ov.json")
	os.WriteFile(ovf, ovj, 0o644)
	argv := []string{"test", "-v", "-vet=off", "-count=1", "-overlay", ovf, "-run", "^TestVerifReplay$", "-timeout", "300s"}
	if h.Tags != "" {
		argv = append(argv, "-tags="+h.Tags)
	}
	if raceMode {
		argv = append(argv, "-race")
	}
	argv = append(argv, h.Pkg)
	cmd := exec.Command("go", argv...)
	cmd.Dir = *repoDir
	outb, _ := cmd.CombinedOutput()
	lastNativeOutput = string(outb)
	var outs []nativeOut
	for _, l := range strings.Split(string(outb), "\n") {
		if strings.HasPrefix(l, "VERIFREPLAY ") {
			var o nativeOut
			if err := json.Unmarshal([]byte(strings.TrimPrefix(l, "VERIFREPLAY ")), &o); err == nil {
				outs = append(outs, o)
			}
		}
	}
	if len(outs) != len(inputs) {
		tail := string(outb)
		if len(tail) > 600 {
			tail = tail[len(tail)-600:]
		}
		return nil, fmt.Errorf("native run produced %d/%d results: %s", len(outs), len(inputs), strings.ReplaceAll(tail, "\n", " | "))
	}
	return outs, nil
}

func entryArgsNative(h HarnessSpec) string {
	// entries take only int parameters; their values are fixed by the spec (sorted by name as in the SSA signature order is unknown here,
	// so harness entries with parameters must name them p0, p1, ...)
	var names []string
	for n := range h.Params {
		names = append(names, n)
	}
	sort.Strings(names)
	var vals []string
	for _, n := range names {
		vals = append(vals, fmt.Sprint(h.Params[n]))
	}
	return strings.Join(vals, ", ")
}

// validate pushes concrete inputs through (i) the encoding, by constant folding in the executor, and
// (ii) the native function; assertion outcomes and observed values must coincide.
func validate(m *Machine, h HarnessSpec, rep *HarnessReport, overlay map[string][]byte) {
	rng := newSplit(uint64(*seed)*7919 + uint64(len(h.Name)))
	var inputs [][]string
	for k := 0; k < h.Validate; k++ {
		var in []string
		for _, n := range m.nondets {
			lo, hi := n.lo, n.hi
			if lo == nil {
				if n.signed {
					lo = new(big.Int).Neg(new(big.Int).Lsh(big.NewInt(1), uint(n.w-1)))
					hi = new(big.Int).Sub(new(big.Int).Lsh(big.NewInt(1), uint(n.w-1)), big.NewInt(1))
				} else {
					lo, hi = big.NewInt(0), mask(n.w)
				}
			}
			var v *big.Int
			switch k {
			case 0:
				v = new(big.Int).Set(lo)
			case 1:
				v = new(big.Int).Set(hi)
			case 2:
				v = big.NewInt(0)
				if v.Cmp(lo) < 0 {
					v = new(big.Int).Set(lo)
				}
			default:
				span := new(big.Int).Add(new(big.Int).Sub(hi, lo), big.NewInt(1))
				r := new(big.Int).SetUint64(rng.next())
				r.Lsh(r, 64).Add(r, new(big.Int).SetUint64(rng.next()))
				v = new(big.Int).Add(lo, r.Mod(r, span))
				if rng.next()%5 == 0 { // edge-biased
					if rng.next()%2 == 0 {
						v = new(big.Int).Set(hi)
					} else {
						v = new(big.Int).Set(lo)
					}
				}
			}
			in = append(in, v.String())
		}
		inputs = append(inputs, in)
	}
	native, err := nativeRun(h, overlay, inputs)
	if err != nil {
		rep.ValidateErr = err.Error()
		return
	}
	for k, in := range inputs {
		cm := newMachine(m.prog, h)
		cm.concrete = in
		var perr string
		func() {
			defer func() {
				if r := recover(); r != nil {
					if pe, ok := r.(pathEnd); ok {
						perr = "path end: " + pe.reason
						return
					}
					perr = fmt.Sprint(r)
				}
			}()
			fn := m.entryFn
			cm.entryFn = fn
			cm.call(fn, cm.entryArgs(fn), nil, 0)
		}()
		nat := native[k]
		if strings.Contains(perr, "loop bound assumed") || strings.Contains(perr, "assume false") {
			continue // this input lies outside the stated bound / assumption: nothing to compare
		}
		if perr != "" && !(strings.HasPrefix(perr, "path end") && (nat.Panic != "" || nat.Skipped)) {
			rep.ValidateErr = fmt.Sprintf("input %d: executor %s vs native %+v", k, perr, nat)
			return
		}
		if perr != "" {
			rep.Validated++
			continue
		}
		// assertion outcomes
		for id, v := range cm.concAsserts {
			nv := "pass"
			if containsStr(nat.Failed, id) {
				nv = "fail"
			}
			if v != nv {
				rep.ValidateErr = fmt.Sprintf("input %d (%v): assertion %q folds to %s in the encoding but is %s natively", k, head(in, 8), id, v, nv)
				return
			}
		}
		for id, v := range cm.concObs {
			if nat.Obs[id] != v {
				rep.ValidateErr = fmt.Sprintf("input %d (%v): observation %q = %s in the encoding, %s natively", k, head(in, 8), id, v, nat.Obs[id])
				return
			}
		}
		rep.Validated++
	}
}

func head(s []string, n int) []string {
	if len(s) > n {
		return s[:n]
	}
	return s
}

type split struct{ s uint64 }

func newSplit(seed uint64) *split { return &split{seed} }
func (r *split) next() uint64 {
	r.s += 0x9e3779b97f4a7c15
	z := r.s
	z = (z ^ (z >> 30)) * 0xbf58476d1ce4e5b9
	z = (z ^ (z >> 27)) * 0x94d049bb133111eb
	return z ^ (z >> 31)
}


// sliceDefs keeps the definitional constraints in the cone of influence of the claim and the path
// condition (integer mode). Dropping hypotheses can only turn an unsat answer into sat/unknown, never
// the other way round, so slicing is sound for the "unsat = holds" reading.
func sliceDefs(o *Obligation) []*Cond {
	if o.sliced != nil {
		return o.sliced
	}
	symsOf := func(c *Cond, into map[string]bool) {
		var walk func(c *Cond)
		seenC := map[*Cond]bool{}
		walk = func(c *Cond) {
			if c == nil || seenC[c] {
				return
			}
			seenC[c] = true
			for _, l := range []*Lin{c.a, c.b} {
				if l != nil {
					for s := range l.k {
						into[s] = true
					}
				}
			}
			walk(c.x)
			walk(c.y)
		}
		walk(c)
	}
	live := map[string]bool{}
	symsOf(o.claim, live)
	for _, c := range o.pc {
		symsOf(c, live)
	}
	if len(live) == 0 {
		o.sliced = o.defs
		return o.defs
	}
	type dinfo struct {
		c    *Cond
		syms map[string]bool
		in   bool
	}
	ds := make([]*dinfo, len(o.defs))
	for i, d := range o.defs {
		ds[i] = &dinfo{c: d, syms: map[string]bool{}}
		symsOf(d, ds[i].syms)
	}
	changed := true
	for changed {
		changed = false
		for s := range live {
			if f, ok := prodFactors.Load(s); ok {
				for _, x := range f.([2]string) {
					if !live[x] {
						live[x] = true
						changed = true
					}
				}
			}
		}
		for _, d := range ds {
			if d.in {
				continue
			}
			if len(d.syms) == 0 {
				d.in = true
				continue
			}
			hit := false
			for s := range d.syms {
				if live[s] {
					hit = true
					break
				}
			}
			if hit {
				d.in = true
				changed = true
				for s := range d.syms {
					live[s] = true
				}
			}
		}
	}
	var out []*Cond
	for _, d := range ds {
		if d.in {
			out = append(out, d.c)
		}
	}
	o.sliced = out
	return out
}


// nativeRace runs h.RaceEntry (a function of the harness file that shares one value between two goroutines)
// under the race detector.
func nativeRace(h HarnessSpec, overlay map[string][]byte) (string, error) {
	hh := h
	hh.ReplayEntry = h.RaceEntry
	hh.Validate = 0
	raceMode = true
	defer func() { raceMode = false }()
	_, err := nativeRun(hh, overlay, [][]string{{}})
	out := lastNativeOutput
	if err != nil && !strings.Contains(out, "DATA RACE") {
		return out, err
	}
	return out, nil
}

var raceMode bool
var lastNativeOutput string
