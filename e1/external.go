package main

import (
	"fmt"
	"math/big"
	"go/types"
	"regexp"
	"sort"
	"strings"

	"golang.org/x/tools/go/ssa"
)

// External libraries (kilic, gnark-crypto, circl, crypto/elliptic, ...) are not encoded. Their functions are
// uninterpreted: a call reads all its arguments, writes the pointees listed in its contract with a term
// f_w<k>(args...) over an uninterpreted sort, and returns a term / the written argument. Contracts are part of the
// claim and are listed in the evidence. Equality of opaque values is decided by the solver in QF_UF.

type UVal struct{ term string }

type Contract struct {
	Writes  []int  `json:"writes"`            // indices of pointer arguments whose pointee is overwritten
	Returns string `json:"returns,omitempty"` // "arg<k>" | "new" | "" (automatic)
	Reads   []int  `json:"reads,omitempty"`   // default: all arguments
	Copy    bool   `json:"copy,omitempty"`    // the written pointee becomes exactly the value of the (single) read argument
	Havoc   bool   `json:"havoc,omitempty"`   // the written pointee becomes an arbitrary value of its type (fresh symbols); results likewise
}

var sanitizeRe = regexp.MustCompile(`[^A-Za-z0-9_]`)

func sanitize(s string) string { return sanitizeRe.ReplaceAllString(s, "_") }

func (m *Machine) isExternalType(t types.Type) bool {
	n, ok := t.(*types.Named)
	if !ok || n.Obj().Pkg() == nil {
		return false
	}
	if _, isStruct := n.Underlying().(*types.Struct); !isStruct {
		if _, isArr := n.Underlying().(*types.Array); !isArr {
			return false
		}
	}
	return m.isExternalPkg(n.Obj().Pkg().Path())
}

func (m *Machine) isExternalPkg(path string) bool {
	for _, p := range m.externalPkgs {
		if path == p || strings.HasPrefix(path, p+"/") {
			return true
		}
	}
	return false
}

// token renders a value as a term of the uninterpreted theory.
func (m *Machine) token(v Value, depth int) string {
	if depth > 6 {
		return "deep"
	}
	switch x := v.(type) {
	case UVal:
		return x.term
	case VInt:
		if k, ok := concreteBig(x); ok {
			return "c" + sanitize(k.String())
		}
		if x.bv != nil {
			return fmt.Sprintf("bvterm%d", x.bv.id)
		}
		return "lin_" + sanitize(x.lin.smt())
	case VBool:
		if b, ok := x.c.isConst(); ok {
			return fmt.Sprintf("b%v", b)
		}
		return "boolterm"
	case BigV:
		x = m.bigOf(x)
		if x.c != nil {
			return "big" + sanitize(x.c.String())
		}
		return "big_" + sanitize(x.lin.smt())
	case StrV:
		return "s_" + sanitize(x.s)
	case Ptr:
		if x.obj == nil && len(x.alts) == 0 {
			return "nil"
		}
		if len(x.alts) > 0 {
			return "ptrchoice"
		}
		return m.token(m.load(x), depth+1)
	case StructV:
		var parts []string
		for _, f := range x.fields {
			parts = append(parts, m.token(f, depth+1))
		}
		return "(tuple" + fmt.Sprint(len(parts)) + " " + strings.Join(parts, " ") + ")"
	case ArrayV:
		var parts []string
		for _, f := range x.elems {
			parts = append(parts, m.token(f, depth+1))
		}
		if len(parts) == 0 {
			return "empty"
		}
		return "(arr" + fmt.Sprint(len(parts)) + " " + strings.Join(parts, " ") + ")"
	case SliceV:
		var parts []string
		for i := 0; i < x.len; i++ {
			parts = append(parts, m.token(m.load(elemPtr(x, i)), depth+1))
		}
		if len(parts) == 0 {
			return "empty"
		}
		return "(arr" + fmt.Sprint(len(parts)) + " " + strings.Join(parts, " ") + ")"
	case IfaceV:
		if x.typ == nil {
			return "nil"
		}
		return m.token(x.v, depth+1)
	case nil:
		return "nil"
	}
	return "opaque"
}

func (m *Machine) externalCall(fn *ssa.Function, args []Value) Value {
	name := fn.String()
	m.stats["external:"+name]++
	c, ok := m.contracts[name]
	sig := fn.Signature
	if !ok {
		// default: a method writes its pointer receiver; a plain function writes nothing
		if sig.Recv() != nil {
			if _, isPtr := sig.Recv().Type().(*types.Pointer); isPtr {
				c.Writes = []int{0}
			}
		}
	}
	var toks []string
	if c.Reads != nil {
		for _, k := range c.Reads {
			toks = append(toks, m.token(args[k], 0))
		}
	} else {
		for _, a := range args {
			toks = append(toks, m.token(a, 0))
		}
	}
	fname := sanitize(name)
	argTerm := strings.Join(toks, " ")
	mk := func(suffix string) string {
		if len(toks) == 0 {
			return fname + suffix
		}
		return "(" + fname + suffix + " " + argTerm + ")"
	}
	for _, k := range c.Writes {
		p, ok := args[k].(Ptr)
		if !ok {
			continue
		}
		var et types.Type
		if k < len(fn.Params) {
			if pt, ok := fn.Params[k].Type().Underlying().(*types.Pointer); ok {
				et = pt.Elem()
			}
		}
		if c.Copy && len(c.Reads) == 1 {
			src := args[c.Reads[0]]
			if sp, ok := src.(Ptr); ok {
				m.store(p, copyVal(m.load(sp)))
			} else {
				m.store(p, src)
			}
			continue
		}
		if c.Havoc {
			m.store(p, m.havocLike(m.load(p), et))
			continue
		}
		m.store(p, m.expandU(et, mk(fmt.Sprintf("_w%d", k))))
	}
	if c.Havoc {
		for _, k := range c.Writes {
			if sl, isSlice := args[k].(SliceV); isSlice {
				for i := 0; i < sl.len; i++ {
					ep := elemPtr(sl, i)
					m.store(ep, m.havocLike(m.load(ep), nil))
				}
			}
		}
	}
	res := sig.Results()
	mkRet := func(t types.Type, idx int) Value {
		if strings.HasPrefix(c.Returns, "arg") {
			var k int
			fmt.Sscanf(c.Returns, "arg%d", &k)
			return args[k]
		}
		if pt, ok := t.(*types.Pointer); ok {
			if c.Returns != "new" {
				for _, k := range c.Writes {
					if k < len(fn.Params) && types.Identical(fn.Params[k].Type(), pt) {
						return args[k] // fluent API: returns the object it wrote
					}
				}
			}
			return Ptr{obj: m.newObj(m.expandU(pt.Elem(), mk(fmt.Sprintf("_r%d", idx))), "ext:"+fn.Name())}
		}
		if b, ok := t.Underlying().(*types.Basic); ok {
			if c.Havoc {
				return m.havocLike(m.zero(t), t)
			}
			if b.Info()&types.IsBoolean != 0 {
				return VBool{&Cond{kind: "ubool", uterm: mk(fmt.Sprintf("_b%d", idx))}}
			}
			if w, _, ok := intInfo(t); ok {
				if m.intMode {
					return VInt{lin: linSym(m.fresh("ext"))}
				}
				return VInt{bv: bvVar("ext_"+sanitize(mk(fmt.Sprintf("_i%d", idx))), w)}
			}
		}
		if types.IsInterface(t) && t.String() == "error" {
			return IfaceV{} // external calls are assumed not to fail unless the contract says otherwise
		}
		if _, isStruct := t.Underlying().(*types.Struct); isStruct || m.isExternalType(t) {
			return m.expandU(t, mk(fmt.Sprintf("_r%d", idx)))
		}
		if _, ok := t.Underlying().(*types.Slice); ok {
			// opaque byte string of unknown content: modelled as an empty slice carrying no information
			return SliceV{}
		}
		return m.zero(t)
	}
	switch res.Len() {
	case 0:
		return nil
	case 1:
		return mkRet(res.At(0).Type(), 0)
	}
	t := TupleV{}
	for i := 0; i < res.Len(); i++ {
		t.vs = append(t.vs, mkRet(res.At(i).Type(), i))
	}
	return t
}

// havocLike returns an arbitrary value shaped like old (fresh symbols for every integer / boolean leaf).
func (m *Machine) havocLike(old Value, t types.Type) Value {
	switch x := old.(type) {
	case VInt:
		w, signed := 64, true
		if x.bv != nil {
			w = x.bv.w
			signed = false
		} else if t != nil {
			if ww, sg, ok := intInfo(t); ok {
				w, signed = ww, sg
			}
		}
		return m.nondet("hv", w, signed, nil, nil)
	case VBool:
		b := m.nondet("hvb", 8, false, big.NewInt(0), big.NewInt(1)).(VInt)
		if k, ok := concreteBig(b); ok {
			return VBool{m.cbool(k.Sign() != 0)}
		}
		if m.intMode {
			return VBool{cCmp("=", b.lin, linConstI(1))}
		}
		return VBool{&Cond{bv: bvCmp("=", b.bv, bvConstI(1, 8))}}
	case ArrayV:
		out := ArrayV{elems: make([]Value, len(x.elems))}
		var et types.Type
		if t != nil {
			if at, ok := t.Underlying().(*types.Array); ok {
				et = at.Elem()
			}
		}
		for i, e := range x.elems {
			out.elems[i] = m.havocLike(e, et)
		}
		return out
	case StructV:
		out := StructV{fields: make([]Value, len(x.fields))}
		var st *types.Struct
		if t != nil {
			st, _ = t.Underlying().(*types.Struct)
		}
		for i, f := range x.fields {
			var ft types.Type
			if st != nil && i < st.NumFields() {
				ft = st.Field(i).Type()
			}
			out.fields[i] = m.havocLike(f, ft)
		}
		return out
	}
	return old
}

// sameValue builds the condition "a and b hold the same value" (deep, through pointers).
func (m *Machine) sameValue(a, b Value, depth int) *Cond {
	if depth > 8 {
		return m.cbool(true)
	}
	switch x := a.(type) {
	case UVal:
		y, ok := b.(UVal)
		if !ok {
			return m.cbool(false)
		}
		if x.term == y.term {
			return m.cbool(true)
		}
		return &Cond{kind: "ueq", uterm: x.term, uterm2: y.term}
	case Ptr:
		y, ok := b.(Ptr)
		if !ok {
			return m.cbool(false)
		}
		xn, yn := x.obj == nil && len(x.alts) == 0, y.obj == nil && len(y.alts) == 0
		if xn || yn {
			return m.cbool(xn && yn)
		}
		return m.sameValue(m.load(x), m.load(y), depth+1)
	case StructV:
		y, ok := b.(StructV)
		if !ok || len(x.fields) != len(y.fields) {
			return m.cbool(false)
		}
		c := m.cbool(true)
		for i := range x.fields {
			c = cAnd(c, m.sameValue(x.fields[i], y.fields[i], depth+1))
		}
		return c
	case ArrayV:
		y, ok := b.(ArrayV)
		if !ok || len(x.elems) != len(y.elems) {
			return m.cbool(false)
		}
		c := m.cbool(true)
		for i := range x.elems {
			c = cAnd(c, m.sameValue(x.elems[i], y.elems[i], depth+1))
		}
		return c
	case SliceV:
		y, ok := b.(SliceV)
		if !ok || x.len != y.len {
			return m.cbool(false)
		}
		c := m.cbool(true)
		for i := 0; i < x.len; i++ {
			c = cAnd(c, m.sameValue(m.load(elemPtr(x, i)), m.load(elemPtr(y, i)), depth+1))
		}
		return c
	case BigV:
		yy, ok := b.(BigV)
		if !ok {
			return m.cbool(false)
		}
		x, y := m.bigOf(x), m.bigOf(yy)
		if x.c != nil && y.c != nil {
			return m.cbool(x.c.Cmp(y.c) == 0)
		}
		return cCmp("=", m.bigLin(x), m.bigLin(y))
	case VInt:
		y, ok := b.(VInt)
		if !ok {
			return m.cbool(false)
		}
		if x.bv != nil && y.bv != nil {
			return &Cond{bv: bvCmp("=", x.bv, y.bv)}
		}
		if x.lin != nil && y.lin != nil {
			return cCmp("=", x.lin, y.lin)
		}
	case VBool:
		y, ok := b.(VBool)
		if ok {
			return cNot(m.cxor(x.c, y.c))
		}
	case IfaceV:
		y, ok := b.(IfaceV)
		if !ok {
			return m.cbool(false)
		}
		if x.typ == nil || y.typ == nil {
			return m.cbool(x.typ == nil && y.typ == nil)
		}
		return m.sameValue(x.v, y.v, depth+1)
	case VField:
		y, ok := b.(VField)
		if ok {
			return &Cond{kind: "req", ra: x.r, rb: y.r}
		}
	case StrV:
		y, ok := b.(StrV)
		return m.cbool(ok && x.s == y.s)
	case nil:
		return m.cbool(b == nil)
	}
	return m.cbool(identical(a, b))
}

// ---- printing of uninterpreted terms
type uPrinter struct {
	funs map[string]int
}

func uCollect(term string, funs map[string]int) {
	// walk the s-expression, recording symbol arities
	toks := tokenize(term)
	var walk func(i int) int
	walk = func(i int) int {
		if toks[i] != "(" {
			if _, ok := funs[toks[i]]; !ok {
				funs[toks[i]] = 0
			}
			return i + 1
		}
		sym := toks[i+1]
		j := i + 2
		n := 0
		for toks[j] != ")" {
			j = walk(j)
			n++
		}
		funs[sym] = n
		return j + 1
	}
	if len(toks) > 0 {
		walk(0)
	}
}

func uDecls(funs map[string]int) string {
	var names []string
	for n := range funs {
		names = append(names, n)
	}
	sort.Strings(names)
	var sb strings.Builder
	sb.WriteString("(declare-sort U 0)\n")
	for _, n := range names {
		sb.WriteString("(declare-fun " + n + " (")
		for i := 0; i < funs[n]; i++ {
			sb.WriteString("U ")
		}
		sb.WriteString(") U)\n")
	}
	return sb.String()
}


// expandU spreads an opaque term over the fields of a struct type (adapters read and write single fields of
// library structs); leaves (arrays, basic types, nested opaque values) carry the projected term.
func (m *Machine) expandU(t types.Type, term string) Value {
	if t == nil {
		return UVal{term: term}
	}
	if isBigIntType(t) {
		return UVal{term: term}
	}
	if st, ok := t.Underlying().(*types.Struct); ok {
		s := StructV{fields: make([]Value, st.NumFields())}
		for i := range s.fields {
			s.fields[i] = m.expandU(st.Field(i).Type(), fmt.Sprintf("(fld%d %s)", i, term))
		}
		return s
	}
	return UVal{term: term}
}
