package main

import (
	"time"
	"crypto/sha256"
	"sync"
	"fmt"
	"go/constant"
	"go/token"
	"go/types"
	"math/big"
	"strings"

	"golang.org/x/tools/go/ssa"
)

// ---------- conditions ----------
type Cond struct {
	bv   *Expr  // bv mode (Bool expr)
	kind string // int mode: "const","cmp","cong","not","and"
	op   string
	a, b *Lin
	mod  *big.Int
	x, y *Cond
	val  bool
	ra, rb *RExpr
	uterm, uterm2 string // uninterpreted terms ("ueq": equality, "ubool": boolean-valued application)
	hs   string // memoised structural digest (int-mode composite nodes)
}

var condSeq int64

// digest: structural key of a condition, linear in the size of the DAG (shared sub-conditions are hashed once).
func (c *Cond) digest() string {
	if c.hs != "" {
		return c.hs
	}
	var s string
	switch {
	case c.bv != nil:
		s = fmt.Sprintf("bv%d", c.bv.id)
	case c.kind == "not" || c.kind == "and" || c.kind == "imp":
		t := c.kind + "(" + c.x.digest()
		if c.y != nil {
			t += "," + c.y.digest()
		}
		t += ")"
		if len(t) > 64 {
			h := sha256.Sum256([]byte(t))
			t = fmt.Sprintf("#%x", h[:12])
		}
		s = t
	default:
		s = c.smt(newPrinter())
	}
	c.hs = s
	return s
}

func cConst(b bool) *Cond { return &Cond{kind: "const", val: b} }
func (c *Cond) isConst() (bool, bool) {
	if c.bv != nil {
		if c.bv.isConst() {
			return c.bv.c.Sign() != 0, true
		}
		return false, false
	}
	if c.kind == "const" {
		return c.val, true
	}
	return false, false
}
func cNot(c *Cond) *Cond {
	if c.bv != nil {
		return &Cond{bv: bNot(c.bv)}
	}
	if v, ok := c.isConst(); ok {
		return cConst(!v)
	}
	if c.kind == "not" {
		return c.x
	}
	return &Cond{kind: "not", x: c}
}
func cAnd(a, b *Cond) *Cond {
	if a.bv != nil && b.bv != nil {
		return &Cond{bv: bAnd(a.bv, b.bv)}
	}
	if v, ok := a.isConst(); ok {
		if v {
			return b
		}
		return a
	}
	if v, ok := b.isConst(); ok {
		if v {
			return a
		}
		return b
	}
	return &Cond{kind: "and", x: a, y: b}
}
func cOr(a, b *Cond) *Cond { return cNot(cAnd(cNot(a), cNot(b))) }
func cImp(a, b *Cond) *Cond {
	if v, ok := a.isConst(); ok {
		if v {
			return b
		}
		return cConst(true)
	}
	return &Cond{kind: "imp", x: a, y: b}
}
func cCmp(op string, a, b *Lin) *Cond {
	d := a.add(b, -1)
	if d.isConst() {
		s := d.c.Sign()
		var r bool
		switch op {
		case "=":
			r = s == 0
		case "<":
			r = s < 0
		case "<=":
			r = s <= 0
		}
		return cConst(r)
	}
	return &Cond{kind: "cmp", op: op, a: a, b: b}
}
func (c *Cond) smt(p *printer) string {
	if c.bv != nil {
		return p.ref(c.bv)
	}
	switch c.kind {
	case "const":
		if c.val {
			return "true"
		}
		return "false"
	case "cmp":
		return "(" + c.op + " " + c.a.smt() + " " + c.b.smt() + ")"
	case "cong":
		return "(= (mod " + c.a.smt() + " " + c.mod.String() + ") 0)"
	case "not", "and", "imp":
		if n, ok := p.cname[c]; ok {
			return n
		}
		var t string
		switch c.kind {
		case "not":
			t = "(not " + c.x.smt(p) + ")"
		case "and":
			t = "(and " + c.x.smt(p) + " " + c.y.smt(p) + ")"
		default:
			t = "(=> " + c.x.smt(p) + " " + c.y.smt(p) + ")"
		}
		if len(t) > 160 {
			// shared sub-conditions are named once: the script stays linear in the size of the DAG
			if p.cname == nil {
				p.cname = map[*Cond]string{}
			}
			n := fmt.Sprintf("k!%d", len(p.cname))
			fmt.Fprintf(&p.sb, "(define-fun %s () Bool %s)\n", n, t)
			p.cname[c] = n
			return n
		}
		return t
	case "req":
		return "(= " + p.rref(c.ra) + " " + p.rref(c.rb) + ")"
	case "ueq":
		p.uterm(c.uterm)
		p.uterm(c.uterm2)
		return "(= " + c.uterm + " " + c.uterm2 + ")"
	case "ubool":
		p.uterm(c.uterm)
		return "(= " + c.uterm + " utrue)"
	}
	panic("cond")
}

// ---------- values ----------
type Value interface{}
type VInt struct {
	bv  *Expr
	lin *Lin
}
type VBool struct{ c *Cond }
type Obj struct {
	id    int
	fresh bool
	name  string
}

// State is what forks at a symbolic branch: memory (immutable values, functional updates) and path condition.
type State struct {
	mem map[int]Value
	pc  []*Cond
}

func (s *State) clone() *State {
	n := &State{mem: make(map[int]Value, len(s.mem)), pc: append([]*Cond{}, s.pc...)}
	for k, v := range s.mem {
		n.mem[k] = v
	}
	return n
}
type PathElem struct {
	k   int
	sym *Expr // symbolic index (bv mode), n = length
	n   int
}
type Ptr struct {
	obj  *Obj
	path []PathElem
	alts []PtrAlt // non-empty: a guarded choice of concrete pointers (result of merging paths); guards are disjoint and exhaustive
}

type PtrAlt struct {
	g *Cond
	p Ptr
}
type ArrayV struct{ elems []Value }
type StructV struct{ fields []Value }
type SliceV struct {
	arr           *Obj
	off, len, cap int
	base          []PathElem // path of the backing array inside arr (arrays nested in structs)
}

// elemPtr is the address of element i of a slice.
func elemPtr(s SliceV, i int) Ptr {
	return Ptr{obj: s.arr, path: append(append([]PathElem{}, s.base...), PathElem{k: s.off + i})}
}
type StrV struct{ s string }
type IfaceV struct {
	typ  types.Type
	v    Value
	nilc *Cond // when non-nil: the condition under which this interface value is nil (merged nil / non-nil)
}
type FuncV struct {
	fn   *ssa.Function
	free []Value
}
type TupleV struct{ vs []Value }
type OpaqueV struct{ what string } // non-nil opaque (errors etc.)

// ---------- machine ----------
// prodFactors: product-abstraction symbol -> its two factor symbols (the slicer keeps the factors' definitions alive)
var prodFactors sync.Map

type Obligation struct {
	pc      []*Cond
	defs    []*Cond
	claim   *Cond
	what    string
	pos     string
	vacuity bool // reachability witness: the script (pc only) must be satisfiable
	sliced  []*Cond
}

type nondetInfo struct {
	name   string
	w      int
	signed bool
	lo, hi *big.Int
}
type pathEnd struct{ reason string }

type Machine struct {
	prog      *ssa.Program
	intMode   bool
	decisions []bool
	pos       int
	cur       *State
	defs      []*Cond // definitional side constraints (quotients, product intervals, input ranges)
	obls      []Obligation
	nfresh    int
	nobj      int
	bounds    map[string][2]*big.Int
	prods     map[string]string
	dm        map[string][2]*Lin
	pdcache   map[*ssa.Function]map[*ssa.BasicBlock]*ssa.BasicBlock
	globalInit map[int]Value
	fieldTypes []string
	summaries map[string]string
	renames   map[string]string
	params    map[string]int
	nondets   []nondetInfo
	reachObls []Obligation
	oblSeen   map[string]bool
	effects   []string
	effectsOn bool
	mathIn    map[string]bool
	mathDepth int
	wrapConv  bool
	prune     bool
	deadline  time.Time
	steps     int
	pruneZ    *solverProc
	approxBits bool
	concrete  []string // concrete mode: values of the nondet symbols in creation order
	concPos   int
	concAsserts map[string]string
	concObs   map[string]string
	entryFn   *ssa.Function
	dump      map[string]any
	loopAssume map[string]int
	bigShared bool
	bigBytesHavoc int
	bigBytesLen      int  // >= 0: assumed byte length of the first big.Int.Bytes() result whose length is value-dependent
	bigBytesLenUsed  bool
	externalPkgs []string
	contracts map[string]Contract
	invDefs   []invDef
	preexistBelow int
	cuts      []cutSpec
	cutVals   map[string]Value
	paths     int
	unwind    int
	globals   map[*ssa.Global]*Obj
	oracle    map[string][]byte
	stats     map[string]int
}

func (m *Machine) fresh(prefix string) string { m.nfresh++; return fmt.Sprintf("%s_%d", prefix, m.nfresh) }
func (m *Machine) newObj(v Value, name string) *Obj {
	m.nobj++
	o := &Obj{id: m.nobj, name: name, fresh: true}
	m.cur.mem[o.id] = v
	return o
}

func intInfo(t types.Type) (w int, signed bool, ok bool) {
	b, isB := t.Underlying().(*types.Basic)
	if !isB {
		return 0, false, false
	}
	switch b.Kind() {
	case types.Int8:
		return 8, true, true
	case types.Int16:
		return 16, true, true
	case types.Int32:
		return 32, true, true
	case types.Int64, types.Int:
		return 64, true, true
	case types.Uint8:
		return 8, false, true
	case types.Uint16:
		return 16, false, true
	case types.Uint32:
		return 32, false, true
	case types.Uint64, types.Uint, types.Uintptr:
		return 64, false, true
	case types.UntypedInt:
		return 64, true, true
	}
	return 0, false, false
}

func (m *Machine) constInt(v *big.Int, t types.Type) Value {
	if m.intMode {
		return VInt{lin: linConst(v)}
	}
	w, _, _ := intInfo(t)
	return VInt{bv: bvConst(v, w)}
}

func (m *Machine) zero(t types.Type) Value {
	if isBigIntType(t) {
		if m.bigShared {
			return BigV{cell: m.newObj(BigV{c: new(big.Int)}, "bigcell")}
		}
		return BigV{c: new(big.Int)}
	}

	if m.isFieldType(t) {
		return VField{mkR("const", nil, nil, "0.0")}
	}
	switch u := t.Underlying().(type) {
	case *types.Basic:
		if u.Info()&types.IsBoolean != 0 {
			return VBool{m.cbool(false)}
		}
		if u.Info()&types.IsString != 0 {
			return StrV{""}
		}
		if _, _, ok := intInfo(t); ok {
			return m.constInt(big.NewInt(0), t)
		}
	case *types.Array:
		a := ArrayV{elems: make([]Value, u.Len())}
		for i := range a.elems {
			a.elems[i] = m.zero(u.Elem())
		}
		return a
	case *types.Struct:
		s := StructV{fields: make([]Value, u.NumFields())}
		for i := range s.fields {
			s.fields[i] = m.zero(u.Field(i).Type())
		}
		return s
	case *types.Pointer:
		return Ptr{}
	case *types.Slice:
		return SliceV{}
	case *types.Interface:
		return IfaceV{}
	case *types.Signature:
		return FuncV{}
	}
	panic("zero: unsupported type " + t.String())
}

func (m *Machine) cbool(b bool) *Cond {
	if m.intMode {
		return cConst(b)
	}
	return &Cond{bv: boolConst(b)}
}

func copyVal(v Value) Value {
	switch x := v.(type) {
	case ArrayV:
		n := ArrayV{elems: make([]Value, len(x.elems))}
		for i, e := range x.elems {
			n.elems[i] = copyVal(e)
		}
		return n
	case StructV:
		n := StructV{fields: make([]Value, len(x.fields))}
		for i, e := range x.fields {
			n.fields[i] = copyVal(e)
		}
		return n
	}
	return v
}

func (m *Machine) fail(reason string) { panic(pathEnd{reason}) }

func (m *Machine) oblige(claim *Cond, what, pos string) {
	if v, ok := claim.isConst(); ok && v {
		return
	}
	if m.concrete != nil {
		// concrete (translator validation) run: obligations fold to constants and are compared natively
		return
	}
	// de-duplicate by (site, claim, path condition)
	p := newPrinter()
	var sb strings.Builder
	_ = p
	sb.WriteString(what + "|" + pos + "|" + claim.digest())
	for _, c := range m.cur.pc {
		sb.WriteString("|" + c.digest())
	}
	k := sb.String()
	if m.oblSeen[k] {
		return
	}
	m.oblSeen[k] = true
	m.obls = append(m.obls, Obligation{pc: append([]*Cond{}, m.cur.pc...), defs: append([]*Cond{}, m.defs...), claim: claim, what: what, pos: pos})
}

// ---------- memory ----------
func (m *Machine) loadPath(v Value, path []PathElem) Value {
	if len(path) == 0 {
		return v
	}
	pe := path[0]
	switch x := v.(type) {
	case ArrayV:
		if pe.sym != nil {
			if len(path) != 1 {
				panic("symbolic index must be last")
			}
			var r *Expr
			for i := len(x.elems) - 1; i >= 0; i-- {
				e := x.elems[i].(VInt).bv
				if r == nil {
					r = e
				} else {
					r = ite(bvCmp("=", pe.sym, bvConstI(int64(i), pe.sym.w)), e, r)
				}
			}
			return VInt{bv: r}
		}
		return m.loadPath(x.elems[pe.k], path[1:])
	case StructV:
		return m.loadPath(x.fields[pe.k], path[1:])
	}
	panic(fmt.Sprintf("loadPath on %T", v))
}
func (m *Machine) storePath(v Value, path []PathElem, nv Value) Value {
	if len(path) == 0 {
		return nv
	}
	pe := path[0]
	switch x := v.(type) {
	case ArrayV:
		n := ArrayV{elems: append([]Value{}, x.elems...)}
		if pe.sym != nil {
			for i := range n.elems {
				old := n.elems[i].(VInt).bv
				n.elems[i] = VInt{bv: ite(bvCmp("=", pe.sym, bvConstI(int64(i), pe.sym.w)), nv.(VInt).bv, old)}
			}
			return n
		}
		n.elems[pe.k] = m.storePath(n.elems[pe.k], path[1:], nv)
		return n
	case StructV:
		n := StructV{fields: append([]Value{}, x.fields...)}
		n.fields[pe.k] = m.storePath(n.fields[pe.k], path[1:], nv)
		return n
	}
	panic(fmt.Sprintf("storePath on %T", v))
}
func (m *Machine) load(p Ptr) Value {
	if len(p.alts) > 0 {
		var gs []*Cond
		var vals []Value
		for _, a := range p.alts {
			if a.p.obj == nil && len(a.p.alts) == 0 {
				m.oblige(cNot(a.g), "nil pointer dereference", "")
				continue
			}
			gs = append(gs, a.g)
			vals = append(vals, m.load(a.p))
		}
		if len(vals) == 0 {
			m.fail("nil deref")
		}
		return m.mergeVals(gs, vals)
	}
	if p.obj == nil {
		m.oblige(m.cbool(false), "nil pointer dereference", "")
		m.fail("nil deref")
	}
	return m.loadPath(m.cur.mem[p.obj.id], p.path)
}
func (m *Machine) store(p Ptr, v Value) {
	if len(p.alts) > 0 {
		for _, a := range p.alts {
			if a.p.obj == nil && len(a.p.alts) == 0 {
				m.oblige(cNot(a.g), "nil pointer dereference", "")
				continue
			}
			old := m.load(a.p)
			m.store(a.p, m.mergeVals([]*Cond{a.g, cNot(a.g)}, []Value{v, old}))
		}
		return
	}
	if p.obj == nil {
		m.oblige(m.cbool(false), "nil pointer dereference", "")
		m.fail("nil deref")
	}
	if m.effectsOn && (p.obj.id <= m.preexistBelow || !p.obj.fresh) { // package-level variables (materialised lazily) always pre-exist
		m.noteEffect(p)
		m.oblige(m.cbool(false), "effect: store to memory that existed before the call: "+p.obj.name+pathString(p.path), "")
	}
	m.cur.mem[p.obj.id] = m.storePath(m.cur.mem[p.obj.id], p.path, v)
}

// ptrExtend appends a path element to a (possibly guarded) pointer.
func ptrExtend(p Ptr, pe PathElem) Ptr {
	if len(p.alts) > 0 {
		n := Ptr{}
		for _, a := range p.alts {
			if a.p.obj == nil && len(a.p.alts) == 0 {
				n.alts = append(n.alts, a)
				continue
			}
			n.alts = append(n.alts, PtrAlt{g: a.g, p: ptrExtend(a.p, pe)})
		}
		return n
	}
	return Ptr{obj: p.obj, path: append(append([]PathElem{}, p.path...), pe)}
}

// ---------- ints ----------
func (m *Machine) rangeObl(l *Lin, t types.Type, what string, pos token.Pos) {
	if l.isConst() || m.approxBits || m.mathDepth > 0 {
		return // effect harnesses approximate values: arithmetic claims belong to the functional harnesses (C01, C02)
	}
	w, signed, ok := intInfo(t)
	if !ok {
		return
	}
	var lo, hi *big.Int
	if signed {
		lo = new(big.Int).Neg(new(big.Int).Lsh(big.NewInt(1), uint(w-1)))
		hi = new(big.Int).Sub(new(big.Int).Lsh(big.NewInt(1), uint(w-1)), big.NewInt(1))
	} else {
		lo = big.NewInt(0)
		hi = mask(w)
	}
	if il, ih := m.interval(l); il != nil && il.Cmp(lo) >= 0 && ih.Cmp(hi) <= 0 {
		m.stats["range_by_interval"]++
		return // inside the type's range by interval arithmetic over the symbols' bounds
	}
	c := cAnd(cCmp("<=", linConst(lo), l), cCmp("<=", l, linConst(hi)))
	m.oblige(c, "overflow: "+what+" "+t.String(), m.prog.Fset.Position(pos).String())
}

// interval of a linear form from symbol bounds (nil if some symbol is unbounded)
func (m *Machine) interval(a *Lin) (*big.Int, *big.Int) {
	lo, hi := new(big.Int).Set(a.c), new(big.Int).Set(a.c)
	for s, c := range a.k {
		b, ok := m.bounds[s]
		if !ok {
			return nil, nil
		}
		x, y := new(big.Int).Mul(c, b[0]), new(big.Int).Mul(c, b[1])
		if x.Cmp(y) > 0 {
			x, y = y, x
		}
		lo.Add(lo, x)
		hi.Add(hi, y)
	}
	return lo, hi
}

// divmod returns memoised symbols q, r with a = k*q + r, 0 <= r < k (Euclidean), registering bounds.
func (m *Machine) divmod(a *Lin, k *big.Int) (*Lin, *Lin) {
	key := a.smt() + "/" + k.String()
	if qr, ok := m.dm[key]; ok {
		return qr[0], qr[1]
	}
	qn, rn := m.fresh("q"), m.fresh("r")
	q, r := linSym(qn), linSym(rn)
	m.defs = append(m.defs, cAnd(cCmp("=", a, q.scale(k).add(r, 1)), cAnd(cCmp("<=", linConstI(0), r), cCmp("<", r, linConst(k)))))
	m.bounds[rn] = [2]*big.Int{big.NewInt(0), new(big.Int).Sub(k, big.NewInt(1))}
	if lo, hi := m.interval(a); lo != nil {
		fl := func(x *big.Int) *big.Int { return new(big.Int).Div(x, k) } // Euclidean == floor for k>0
		m.bounds[qn] = [2]*big.Int{fl(lo), fl(hi)}
		// redundant lemma (implied by the defining equation and the bounds of a's symbols): helps the LIA solver
		m.defs = append(m.defs, cAnd(cCmp("<=", linConst(fl(lo)), q), cCmp("<=", q, linConst(fl(hi)))))
	}
	m.dm[key] = [2]*Lin{q, r}
	return q, r
}

func (m *Machine) linMul(a, b *Lin) *Lin {
	if a.isConst() {
		return b.scale(a.c)
	}
	if b.isConst() {
		return a.scale(b.c)
	}
	// distribute; every symbol pair must be base symbols
	av := a.add(linConst(a.c), -1) // variable part of a
	bv := b.add(linConst(b.c), -1)
	r := linConst(new(big.Int).Mul(a.c, b.c)).add(av.scale(b.c), 1).add(bv.scale(a.c), 1)
	for sa, ca := range a.k {
		for sb, cb := range b.k {
			ba, oka := m.bounds[sa]
			bb, okb := m.bounds[sb]
			if !oka || !okb {
				panic(fmt.Sprintf("int mode: product of non-base symbols %s * %s", sa, sb))
			}
			x, y := sa, sb
			if x > y {
				x, y = y, x
			}
			key := x + "*" + y
			ps, ok := m.prods[key]
			if !ok {
				ps = "M_" + x + "_" + y
				m.prods[key] = ps
				prodFactors.Store(ps, [2]string{x, y})
				// interval axiom
				cands := []*big.Int{new(big.Int).Mul(ba[0], bb[0]), new(big.Int).Mul(ba[0], bb[1]), new(big.Int).Mul(ba[1], bb[0]), new(big.Int).Mul(ba[1], bb[1])}
				lo, hi := cands[0], cands[0]
				for _, c := range cands {
					if c.Cmp(lo) < 0 {
						lo = c
					}
					if c.Cmp(hi) > 0 {
						hi = c
					}
				}
				m.defs = append(m.defs, cAnd(cCmp("<=", linConst(lo), linSym(ps)), cCmp("<=", linSym(ps), linConst(hi))))
			}
			r = r.add(linSym(ps).scale(new(big.Int).Mul(ca, cb)), 1)
		}
	}
	return r
}

func (m *Machine) binop(op token.Token, x, y Value, t types.Type, xt types.Type, pos token.Pos) Value {
	switch a := x.(type) {
	case VBool:
		b := y.(VBool)
		switch op {
		case token.EQL:
			return VBool{cNot(m.cxor(a.c, b.c))}
		case token.NEQ:
			return VBool{m.cxor(a.c, b.c)}
		}
	case VInt:
		b := y.(VInt)
		if m.intMode {
			return m.binopInt(op, a.lin, b.lin, t, pos)
		}
		return m.binopBV(op, a.bv, b.bv, t, xt)
	case StrV:
		b := y.(StrV)
		switch op {
		case token.ADD:
			return StrV{a.s + b.s}
		case token.EQL:
			return VBool{m.cbool(a.s == b.s)}
		case token.NEQ:
			return VBool{m.cbool(a.s != b.s)}
		}
	case Ptr:
		b := y.(Ptr)
		var c *Cond
		if len(a.alts) > 0 || len(b.alts) > 0 {
			if len(b.alts) > 0 {
				a, b = b, a
			}
			// guarded pointer against a plain one
			c = m.cbool(false)
			for _, al := range a.alts {
				same := al.p.obj == b.obj && fmt.Sprint(al.p.path) == fmt.Sprint(b.path) && len(al.p.alts) == 0 && len(b.alts) == 0
				if same {
					c = m.cor(c, al.g)
				}
			}
		} else {
			c = m.cbool(a.obj == b.obj && fmt.Sprint(a.path) == fmt.Sprint(b.path))
		}
		if op == token.NEQ {
			c = cNot(c)
		}
		return VBool{c}
	case IfaceV:
		b := y.(IfaceV)
		isNil := func(v IfaceV) (*Cond, bool) { // (condition, known)
			if v.typ == nil {
				return m.cbool(true), true
			}
			if v.nilc != nil {
				return v.nilc, true
			}
			return m.cbool(false), true
		}
		var c *Cond
		switch {
		case a.typ == nil || b.typ == nil:
			// comparison with nil
			o := a
			if a.typ == nil {
				o = b
			}
			c, _ = isNil(o)
		default:
			if !types.Identical(a.typ, b.typ) {
				c = m.cbool(false)
			} else if pa, ok := a.v.(Ptr); ok {
				c = m.binop(token.EQL, pa, b.v, types.Typ[types.Bool], nil, pos).(VBool).c
			} else {
				c = m.cbool(fmt.Sprint(a.v) == fmt.Sprint(b.v))
			}
			if a.nilc != nil || b.nilc != nil {
				na, _ := isNil(a)
				nb, _ := isNil(b)
				c = m.cor(cAnd(na, nb), cAnd(cAnd(cNot(na), cNot(nb)), c))
			}
		}
		if op == token.NEQ {
			c = cNot(c)
		}
		return VBool{c}
	case StructV:
		b := y.(StructV)
		c := m.cbool(true)
		for i := range a.fields {
			c = cAnd(c, m.binop(token.EQL, a.fields[i], b.fields[i], types.Typ[types.Bool], nil, pos).(VBool).c)
		}
		if op == token.NEQ {
			c = cNot(c)
		}
		return VBool{c}
	case ArrayV:
		b := y.(ArrayV)
		c := m.cbool(true)
		for i := range a.elems {
			c = cAnd(c, m.binop(token.EQL, a.elems[i], b.elems[i], types.Typ[types.Bool], nil, pos).(VBool).c)
		}
		if op == token.NEQ {
			c = cNot(c)
		}
		return VBool{c}
	case SliceV:
		b := y.(SliceV)
		eq := a.arr == nil && b.arr == nil
		if op == token.EQL {
			return VBool{m.cbool(eq)}
		}
		return VBool{m.cbool(!eq)}
	}
	panic(fmt.Sprintf("binop %s on %T", op, x))
}
// approxInt: over-approximation of an integer operation the integer encoding cannot express exactly - an arbitrary
// value of the result type. Only enabled for effect harnesses (approx_bitops), where values matter only through branches.
func (m *Machine) approxInt(t types.Type) Value {
	w, signed, ok := intInfo(t)
	if !ok {
		w, signed = 64, true
	}
	m.stats["approx_bitops"]++
	return m.nondet("apx", w, signed, nil, nil)
}

func (m *Machine) cxor(a, b *Cond) *Cond {
	return cNot(cAnd(cNot(cAnd(a, cNot(b))), cNot(cAnd(cNot(a), b))))
}

func (m *Machine) binopInt(op token.Token, a, b *Lin, t types.Type, pos token.Pos) Value {
	var r *Lin
	switch op {
	case token.ADD:
		r = a.add(b, 1)
	case token.SUB:
		r = a.add(b, -1)
	case token.MUL:
		r = m.linMul(a, b)
	case token.SHL:
		if !b.isConst() {
			if m.approxBits {
				return m.approxInt(t)
			}
			panic("int mode: symbolic shift")
		}
		r = a.scale(new(big.Int).Lsh(big.NewInt(1), uint(b.c.Int64())))
	case token.SHR:
		if !b.isConst() {
			if m.approxBits {
				return m.approxInt(t)
			}
			panic("int mode: symbolic shift")
		}
		k := new(big.Int).Lsh(big.NewInt(1), uint(b.c.Int64()))
		if a.isConst() {
			q := new(big.Int).Div(a.c, k) // Euclidean = floor for positive k
			return VInt{lin: linConst(q)}
		}
		q, _ := m.divmod(a, k)
		return VInt{lin: q}
	case token.AND:
		if !b.isConst() {
			a, b = b, a
		}
		if !b.isConst() {
			if m.approxBits {
				return m.approxInt(t)
			}
			panic("int mode: AND of two symbolic operands")
		}
		if a.isConst() {
			w, signed, _ := intInfo(t)
			x, y := new(big.Int).And(a.c, mask(w)), new(big.Int).And(b.c, mask(w))
			rr := new(big.Int).And(x, y)
			if signed && rr.Bit(w-1) == 1 {
				rr.Sub(rr, new(big.Int).Lsh(big.NewInt(1), uint(w)))
			}
			return VInt{lin: linConst(rr)}
		}
		return VInt{lin: m.andConst(a, b.c, t)}
	case token.XOR, token.AND_NOT:
		if op == token.XOR && a.isConst() && a.c.Sign() == 0 {
			return VInt{lin: b}
		}
		if b.isConst() && b.c.Sign() == 0 {
			return VInt{lin: a}
		}
		if op == token.AND_NOT && b.isConst() && !a.isConst() {
			// a &^ c = a - (a & c)
			return VInt{lin: a.add(m.andConst(a, b.c, t), -1)}
		}
		if !a.isConst() || !b.isConst() {
			if m.approxBits {
				return m.approxInt(t)
			}
			panic("int mode: symbolic " + op.String())
		}
		w, _, _ := intInfo(t)
		mk := mask(w)
		x, y := new(big.Int).And(a.c, mk), new(big.Int).And(b.c, mk)
		var rr *big.Int
		if op == token.XOR {
			rr = new(big.Int).Xor(x, y)
		} else {
			rr = new(big.Int).AndNot(x, y)
		}
		if _, signed, _ := intInfo(t); signed && rr.Bit(w-1) == 1 {
			rr.Sub(rr, new(big.Int).Lsh(big.NewInt(1), uint(w)))
		}
		return VInt{lin: linConst(rr)}
	case token.QUO, token.REM:
		if !a.isConst() && b.isConst() && b.c.Sign() > 0 {
			// symbolic dividend, constant positive divisor: Go truncates towards zero, the memoised pair is Euclidean;
			// they coincide for dividends >= 0, which is an obligation
			if il, _ := m.interval(a); il == nil || il.Sign() < 0 {
				m.oblige(cCmp("<=", linConstI(0), a), "division: dividend of a constant divisor is non-negative (truncated = Euclidean)", m.prog.Fset.Position(pos).String())
			}
			q, r0 := m.divmod(a, b.c)
			if op == token.QUO {
				return VInt{lin: q}
			}
			return VInt{lin: r0}
		}
		if !a.isConst() || !b.isConst() {
			if m.approxBits {
				return m.approxInt(t)
			}
			panic("int mode: symbolic division")
		}
		q, r0 := new(big.Int).QuoRem(a.c, b.c, new(big.Int))
		if op == token.QUO {
			return VInt{lin: linConst(q)}
		}
		return VInt{lin: linConst(r0)}
	case token.OR:
		if a.isConst() && a.c.Sign() == 0 {
			return VInt{lin: b}
		}
		if b.isConst() && b.c.Sign() == 0 {
			return VInt{lin: a}
		}
		if a.isConst() != b.isConst() {
			// x | c = x + c - (x & c), exact
			x, c := a, b
			if a.isConst() {
				x, c = b, a
			}
			r = x.add(c, 1).add(m.andConst(x, c.c, t), -1)
			m.rangeObl(r, t, op.String(), pos)
			return VInt{lin: r}
		}
		if m.approxBits {
			return m.approxInt(t) // effect harnesses: the value of an OR of two symbolic operands is not needed exactly
		}
		tz := func(l *Lin) uint { // largest k with 2^k dividing every coefficient
			k := uint(1 << 20)
			upd := func(v *big.Int) {
				if v.Sign() != 0 && v.TrailingZeroBits() < k {
					k = v.TrailingZeroBits()
				}
			}
			upd(l.c)
			for _, c := range l.k {
				upd(c)
			}
			return k
		}
		hiop, loop := b, a
		if tz(a) > tz(b) {
			hiop, loop = a, b
		}
		k := tz(hiop)
		if k == 0 || k >= 1<<20 {
			if m.approxBits {
				return m.approxInt(t)
			}
			panic("int mode: OR of operands not provably disjoint")
		}
		lim := new(big.Int).Lsh(big.NewInt(1), k)
		m.oblige(cAnd(cCmp("<=", linConstI(0), loop), cCmp("<", loop, linConst(lim))), "disjoint-bits side condition of OR-as-ADD", m.prog.Fset.Position(pos).String())
		m.oblige(cCmp("<=", linConstI(0), hiop), "non-negative high operand of OR-as-ADD", m.prog.Fset.Position(pos).String())
		r = loop.add(hiop, 1)
	case token.EQL:
		return VBool{cCmp("=", a, b)}
	case token.NEQ:
		return VBool{cNot(cCmp("=", a, b))}
	case token.LSS:
		return VBool{cCmp("<", a, b)}
	case token.LEQ:
		return VBool{cCmp("<=", a, b)}
	case token.GTR:
		return VBool{cCmp("<", b, a)}
	case token.GEQ:
		return VBool{cCmp("<=", b, a)}
	default:
		if m.approxBits {
				return m.approxInt(t)
			}
			panic("int mode: unsupported op " + op.String())
	}
	// unsigned arithmetic wraps by definition (mod 2^w); signed overflow is an obligation
	if w, signed, ok := intInfo(t); ok && !signed {
		mod := new(big.Int).Lsh(big.NewInt(1), uint(w))
		if r.isConst() {
			return VInt{lin: linConst(new(big.Int).Mod(r.c, mod))}
		}
		if lo, hi := m.interval(r); lo != nil && lo.Sign() >= 0 && hi.Cmp(mod) < 0 {
			return VInt{lin: r}
		}
		_, rem := m.divmod(r, mod)
		return VInt{lin: rem}
	}
	m.rangeObl(r, t, op.String(), pos)
	return VInt{lin: r}
}

func (m *Machine) binopBV(op token.Token, a, b *Expr, t types.Type, xt types.Type) Value {
	_, signed, _ := intInfo(t)
	if xt != nil {
		_, signed, _ = intInfo(xt)
	}
	if op == token.SHL || op == token.SHR {
		// shift count may have different width
		if b.w != a.w {
			if b.w < a.w {
				b = ext(b, a.w, false)
			} else {
				// saturate: if any high bit set, shift >= width
				hi := extract(b, b.w-1, a.w)
				lo := extract(b, a.w-1, 0)
				b = ite(bvCmp("=", hi, bvConstI(0, hi.w)), lo, bvConstI(int64(a.w), a.w))
			}
		}
	}
	switch op {
	case token.ADD:
		return VInt{bv: bvBin("bvadd", a, b)}
	case token.SUB:
		return VInt{bv: bvBin("bvsub", a, b)}
	case token.MUL:
		return VInt{bv: bvBin("bvmul", a, b)}
	case token.AND:
		return VInt{bv: bvBin("bvand", a, b)}
	case token.OR:
		return VInt{bv: bvBin("bvor", a, b)}
	case token.XOR:
		return VInt{bv: bvBin("bvxor", a, b)}
	case token.AND_NOT:
		return VInt{bv: bvBin("bvand", a, bvNot(b))}
	case token.SHL:
		return VInt{bv: bvBin("bvshl", a, b)}
	case token.SHR:
		if signed {
			return VInt{bv: bvBin("bvashr", a, b)}
		}
		return VInt{bv: bvBin("bvlshr", a, b)}
	case token.QUO:
		if signed {
			return VInt{bv: bvBin("bvsdiv", a, b)}
		}
		return VInt{bv: bvBin("bvudiv", a, b)}
	case token.REM:
		if signed {
			return VInt{bv: bvBin("bvsrem", a, b)}
		}
		return VInt{bv: bvBin("bvurem", a, b)}
	case token.EQL:
		return VBool{&Cond{bv: bvCmp("=", a, b)}}
	case token.NEQ:
		return VBool{&Cond{bv: bNot(bvCmp("=", a, b))}}
	case token.LSS:
		if signed {
			return VBool{&Cond{bv: bvCmp("bvslt", a, b)}}
		}
		return VBool{&Cond{bv: bvCmp("bvult", a, b)}}
	case token.LEQ:
		if signed {
			return VBool{&Cond{bv: bvCmp("bvsle", a, b)}}
		}
		return VBool{&Cond{bv: bvCmp("bvule", a, b)}}
	case token.GTR:
		if signed {
			return VBool{&Cond{bv: bvCmp("bvslt", b, a)}}
		}
		return VBool{&Cond{bv: bvCmp("bvult", b, a)}}
	case token.GEQ:
		if signed {
			return VBool{&Cond{bv: bvCmp("bvsle", b, a)}}
		}
		return VBool{&Cond{bv: bvCmp("bvule", b, a)}}
	}
	panic("bv: unsupported op " + op.String())
}

func (m *Machine) convert(v Value, from, to types.Type, pos token.Pos) Value {
	if iv, ok := v.(VInt); ok {
		tw, _, tok := intInfo(to)
		fw, fs, _ := intInfo(from)
		if !tok {
			panic("convert int to " + to.String())
		}
		if m.intMode {
			_, ts, _ := intInfo(to)
			if !ts && tw < fw {
				_, r := m.divmod(iv.lin, new(big.Int).Lsh(big.NewInt(1), uint(tw)))
				if iv.lin.isConst() {
					return VInt{lin: linConst(new(big.Int).Mod(iv.lin.c, new(big.Int).Lsh(big.NewInt(1), uint(tw))))}
				}
				return VInt{lin: r}
			}
			if m.wrapConv && ts && (tw < fw || (tw == fw && !fs)) && !iv.lin.isConst() {
				// Go's conversion to a narrower signed type wraps: exact model ((v + 2^(w-1)) mod 2^w) - 2^(w-1)
				half := new(big.Int).Lsh(big.NewInt(1), uint(tw-1))
				_, r := m.divmod(iv.lin.add(linConst(half), 1), new(big.Int).Lsh(big.NewInt(1), uint(tw)))
				return VInt{lin: r.add(linConst(half), -1)}
			}
			m.rangeObl(iv.lin, to, "conversion", pos)
			return iv
		}
		return VInt{bv: ext(iv.bv, tw, fs)}
	}
	if sv, ok := v.(StrV); ok {
		if _, isSlice := to.Underlying().(*types.Slice); isSlice {
			arr := ArrayV{elems: make([]Value, len(sv.s))}
			for i := range arr.elems {
				arr.elems[i] = m.constInt(big.NewInt(int64(sv.s[i])), types.Typ[types.Uint8])
			}
			o := m.newObj(arr, "strbytes")
			return SliceV{arr: o, len: len(sv.s), cap: len(sv.s)}
		}
	}
	if _, ok := v.(SliceV); ok {
		return v
	}
	panic(fmt.Sprintf("convert %T %s -> %s", v, from, to))
}

func (m *Machine) constVal(c *ssa.Const) Value {
	if c.Value == nil {
		return m.zero(c.Type())
	}
	switch c.Value.Kind() {
	case constant.Bool:
		return VBool{m.cbool(constant.BoolVal(c.Value))}
	case constant.String:
		return StrV{constant.StringVal(c.Value)}
	case constant.Int:
		bi, _ := new(big.Int).SetString(c.Value.ExactString(), 10)
		return m.constInt(bi, c.Type())
	}
	panic("const kind " + c.Value.Kind().String())
}

func concreteInt(v Value) (int, bool) {
	iv := v.(VInt)
	if iv.lin != nil {
		if iv.lin.isConst() {
			return int(iv.lin.c.Int64()), true
		}
		return 0, false
	}
	if iv.bv.isConst() {
		return int(iv.bv.signedVal().Int64()), true
	}
	return 0, false
}

var _ = strings.Join


// andConst computes a & c for a constant c as a sum over the runs of one-bits of c:
// ((a >> lo) mod 2^len) << lo, with floor division and Euclidean remainder (exact for two's complement).
func (m *Machine) andConst(a *Lin, c *big.Int, t types.Type) *Lin {
	w, _, _ := intInfo(t)
	cc := new(big.Int).And(c, mask(w))
	res := linConstI(0)
	i := 0
	for i < w {
		if cc.Bit(i) == 0 {
			i++
			continue
		}
		j := i
		for j < w && cc.Bit(j) == 1 {
			j++
		}
		sh := a
		if i > 0 {
			sh, _ = m.divmod(a, new(big.Int).Lsh(big.NewInt(1), uint(i)))
		}
		var part *Lin
		if j >= w {
			// run reaches the top bit: for a non-negative value this is just the quotient
			part = sh
		} else {
			_, part = m.divmod(sh, new(big.Int).Lsh(big.NewInt(1), uint(j-i)))
		}
		res = res.add(part.scale(new(big.Int).Lsh(big.NewInt(1), uint(i))), 1)
		i = j
	}
	return res
}
