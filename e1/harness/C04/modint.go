package mod

import (
	"go.dedis.ch/kyber/v4"
	"go.dedis.ch/kyber/v4/compatible/compatiblemod"
)

// C04/C03 — mod.Int.UnmarshalBinary over a concrete modulus p0, byte order p1 (0 big, 1 little endian),
// input length p2, arbitrary content: accepted iff the length is MarshalSize and the value is < modulus.
func HarnessModIntUnmarshal(p0, p1, p2 int) {
	m := compatiblemod.NewInt(int64(p0))
	i := NewInt64(0, m)
	if p1 == 1 {
		i.BO = kyber.LittleEndian
	}
	buf := make([]byte, p2)
	for k := range buf {
		buf[k] = nondetU8()
	}
	orig := make([]byte, p2)
	copy(orig, buf)
	size := i.MarshalSize()
	err := i.UnmarshalBinary(buf)
	vreach("returned")
	// oracle: the value of the buffer in the declared byte order
	var v int64
	for k := 0; k < p2; k++ {
		if p1 == 1 {
			v = v<<8 | int64(orig[p2-1-k])
		} else {
			v = v<<8 | int64(orig[k])
		}
	}
	if p2 != size {
		vassert(err != nil, "mod.Int.UnmarshalBinary: wrong length refused")
		return
	}
	vassert((err == nil) == (v < int64(p0)), "mod.Int.UnmarshalBinary: accepted iff value < modulus")
	if err == nil {
		vassert(i.V.Int.Int64() == v, "mod.Int.UnmarshalBinary: decoded value is the integer of the buffer in the declared byte order")
	}
	for k := range buf {
		vassert(buf[k] == orig[k], "mod.Int.UnmarshalBinary: the caller's buffer is not modified")
	}
}

// C03 — mod.Int.MarshalBinary: exactly MarshalSize bytes, the value in the declared byte order with zero padding,
// whatever the number of leading zero bytes of the value; decoding the result gives the value back and re-encoding is
// byte-identical. p0 = modulus, p1 = byte order (0 big, 1 little endian), p2 = byte length of the value (0..size).
func HarnessModIntMarshal(p0, p1, p2 int) {
	m := compatiblemod.NewInt(int64(p0))
	i := NewInt64(0, m)
	if p1 == 1 {
		i.BO = kyber.LittleEndian
	}
	size := i.MarshalSize()
	// a value with exactly p2 significant bytes, below the modulus
	var digits [8]int64
	var v int64
	for k := 0; k < p2; k++ {
		if k == 0 {
			digits[k] = int64(nondetU8Range(1, 255))
		} else {
			digits[k] = int64(nondetU8())
		}
		v = v*256 + digits[k]
	}
	vassume(v < int64(p0))
	i.V.Int.SetInt64(v)
	out, err := i.MarshalBinary()
	vreach("returned")
	vassert(err == nil && len(out) == size, "mod.Int.MarshalBinary: exactly MarshalSize bytes")
	var got int64
	for k := 0; k < len(out) && k < size; k++ {
		if p1 == 1 {
			got = got*256 + int64(out[size-1-k])
		} else {
			got = got*256 + int64(out[k])
		}
	}
	vassert(got == v, "mod.Int.MarshalBinary: the bytes are the value in the declared byte order, zero padded")
	j := NewInt64(1, m)
	j.BO = i.BO
	vassert(j.UnmarshalBinary(out) == nil && j.V.Int.Int64() == v, "mod.Int: decoding the encoding gives the value back")
	vassert(i.V.Int.Int64() == v, "mod.Int.MarshalBinary does not change the value encoded")
}
