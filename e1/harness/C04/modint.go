package mod

import (
	"go.dedis.ch/kyber/v4"
	"go.dedis.ch/kyber/v4/compatible/compatiblemod"
)

// C04/C03 — mod.Int.UnmarshalBinary over a concrete modulus p0, byte order p1 (0 big, 1 little endian),
// input length p2, arbitrary content: accepted iff the length is MarshalSize and the value is < modulus.
func HarnessModIntUnmarshal(p0, p1, p2 int) {
	m := compatiblemod.NewInt(int64(p0))
	i := NewInt64(0, m)
	if p1 == 1 {
		i.BO = kyber.LittleEndian
	}
	buf := make([]byte, p2)
	for k := range buf {
		buf[k] = nondetU8()
	}
	orig := make([]byte, p2)
	copy(orig, buf)
	size := i.MarshalSize()
	err := i.UnmarshalBinary(buf)
	vreach("returned")
	// oracle: the value of the buffer in the declared byte order
	var v int64
	for k := 0; k < p2; k++ {
		if p1 == 1 {
			v = v<<8 | int64(orig[p2-1-k])
		} else {
			v = v<<8 | int64(orig[k])
		}
	}
	if p2 != size {
		vassert(err != nil, "mod.Int.UnmarshalBinary: wrong length refused")
		return
	}
	vassert((err == nil) == (v < int64(p0)), "mod.Int.UnmarshalBinary: accepted iff value < modulus")
	if err == nil {
		vassert(i.V.Int.Int64() == v, "mod.Int.UnmarshalBinary: decoded value is the integer of the buffer in the declared byte order")
	}
	for k := range buf {
		vassert(buf[k] == orig[k], "mod.Int.UnmarshalBinary: the caller's buffer is not modified")
	}
}
