package p256

import (
	"crypto/elliptic"
	"math/big"
)

// C04 — P-256 point decoding admits only points that passed the curve-membership predicate.
// crypto/elliptic is external: the curve is a stub whose IsOnCurve returns an arbitrary answer and
// records its arguments, so the query is "is there an accepting path that did not pass through it
// (with the decoded coordinates, answering true)".
type stubCurve struct {
	calls int
	x, y  *big.Int
	ret   bool
}

func (c *stubCurve) Params() *elliptic.CurveParams { return &elliptic.CurveParams{BitSize: 256, Name: "stub"} }
func (c *stubCurve) IsOnCurve(x, y *big.Int) bool {
	c.calls++
	c.x, c.y = x, y
	c.ret = nondetBool()
	return c.ret
}
func (c *stubCurve) Add(x1, y1, x2, y2 *big.Int) (*big.Int, *big.Int)  { panic("stub") }
func (c *stubCurve) Double(x1, y1 *big.Int) (*big.Int, *big.Int)       { panic("stub") }
func (c *stubCurve) ScalarMult(x1, y1 *big.Int, k []byte) (*big.Int, *big.Int) { panic("stub") }
func (c *stubCurve) ScalarBaseMult(k []byte) (*big.Int, *big.Int)      { panic("stub") }

func HarnessP256Unmarshal(p0 int) {
	buf := make([]byte, p0)
	for i := range buf {
		buf[i] = nondetU8()
	}
	sc := &stubCurve{}
	P := &curvePoint{c: &curve{Curve: sc}}
	err := P.UnmarshalBinary(buf)
	vreach("returned")
	if p0 != 65 {
		vassert(err != nil, "UnmarshalBinary: wrong length refused")
		return
	}
	if err == nil {
		vassert(buf[0] == 4, "UnmarshalBinary: only the uncompressed format is accepted")
		x := new(big.Int).SetBytes(buf[1:33])
		y := new(big.Int).SetBytes(buf[33:65])
		vassert(P.x.Cmp(x) == 0 && P.y.Cmp(y) == 0, "UnmarshalBinary: coordinates are the big-endian halves")
		inf := x.Sign() == 0 && y.Sign() == 0
		member := sc.calls >= 1 && sc.ret && sc.x.Cmp(x) == 0 && sc.y.Cmp(y) == 0
		vassert(member || inf, "UnmarshalBinary: an accepted point passed IsOnCurve (or is the point at infinity)")
	}
}
