// Code generated from bn.go (gen/c04.py). DO NOT EDIT.
package bn254

// C04 / C20 — BN G1 decoding admits only points that passed the curve-membership test and never panics; the read-only
// methods of a G1 point write no memory that existed before the call. The field kernels (assembly in the default
// build) are summarised as "writes only its output parameter, arbitrary value"; IsOnCurve is a recording stub in the
// decoding harness.

var bnCalls int
var bnRet bool
var bnSeenX, bnSeenY gfP

func bnStubIsOnCurve(c *curvePoint) bool {
	bnCalls++
	bnSeenX, bnSeenY = c.x, c.y
	bnRet = nondetBool()
	return bnRet
}

// p0: input length
func HarnessBNUnmarshalG1(p0 int) {
	buf := make([]byte, p0)
	for i := range buf {
		buf[i] = nondetU8()
	}
	P := newPointG1(nil)
	err := P.UnmarshalBinary(buf)
	vreach("returned")
	if p0 < 64 {
		vassert(err != nil, "G1.UnmarshalBinary: short input refused")
		return
	}
	if err == nil {
		vassert(bnCalls == 1 && bnRet, "G1.UnmarshalBinary: an accepted point passed IsOnCurve")
		vassert(bnSeenX == P.g.x && bnSeenY == P.g.y, "G1.UnmarshalBinary: the membership test saw the decoded coordinates")
	}
}

func HarnessBNUnmarshalG1Replay(p0 int) {
	buf := make([]byte, p0)
	for i := range buf {
		buf[i] = nondetU8()
	}
	ok := true
	try := func(b []byte) {
		P := newPointG1(nil)
		err := P.UnmarshalBinary(b)
		if len(b) < 64 {
			ok = ok && err != nil
			return
		}
		if err == nil {
			ok = ok && P.g.IsOnCurve()
			// later operations on an accepted value do not misbehave: doubling stays on the curve
			Q := newPointG1(nil)
			Q.Add(P, P)
			ok = ok && Q.g.IsOnCurve()
		}
	}
	try(buf)
	if p0 >= 64 {
		off := make([]byte, p0) // (1, 1) is not on y^2 = x^3 + 3
		off[31], off[63] = 1, 1
		try(off)
	}
	vassert(ok, "G1.UnmarshalBinary: short input refused")
	vassert(ok, "G1.UnmarshalBinary: an accepted point passed IsOnCurve")
	vassert(ok, "G1.UnmarshalBinary: the membership test saw the decoded coordinates")
}

func bnArb(g *gfP) {
	for i := range g {
		g[i] = nondetU64()
	}
}

// p0: method
func HarnessBNReadOnlyG1(p0 int) {
	P, Q := newPointG1(nil), newPointG1(nil)
	bnArb(&P.g.x)
	bnArb(&P.g.y)
	bnArb(&P.g.z)
	bnArb(&P.g.t)
	bnArb(&Q.g.x)
	bnArb(&Q.g.y)
	bnArb(&Q.g.z)
	T, T2 := newPointG2(nil), newPointG2(nil)
	for _, c := range []*gfP2{&T.g.x, &T.g.y, &T.g.z, &T.g.t, &T2.g.x, &T2.g.y, &T2.g.z, &T2.g.t} {
		bnArb(&c.x)
		bnArb(&c.y)
	}
	effectsBegin()
	switch p0 {
	case 0:
		_, _ = P.MarshalBinary()
	case 1:
		_, _ = P.Data()
	case 2:
		_ = P.Equal(Q)
	case 3:
		_ = P.Clone()
	case 4:
		_ = P.String()
	case 5:
		newPointG1(nil).Add(P, Q)
		newPointG1(nil).Neg(P)
		newPointG1(nil).Set(P)
		newPointG1(nil).Sub(P, Q)
	case 6:
		_ = P.MarshalSize()
		_ = P.EmbedLen()
	case 7:
		// pairing evaluation with shared operands (what every bls/bdn/tbls Verify does with a shared public key)
		newPointGT().Pair(P, T)
	case 8:
		_, _ = T.MarshalBinary()
		_ = T.Equal(T2)
		_ = T.Clone()
		newPointG2(nil).Add(T, T2)
		newPointG2(nil).Neg(T)
	}
	effectsEnd()
	vreach("end")
}

func RaceBNReadOnlyG1(p0 int) {
	done := make(chan bool)
	for round := 0; round < 10; round++ {
		P := newPointG1(nil)
		P.Base()
		P.Add(P, P) // z != 1: MakeAffine has something to do
		Q := newPointG1(nil)
		Q.Base()
		T := newPointG2(nil)
		T.Base()
		T.Add(T, T)
		for g := 0; g < 2; g++ {
			go func() {
				switch p0 {
				case 0:
					_, _ = P.MarshalBinary()
				case 1:
					_, _ = P.Data()
				case 2:
					_ = P.Equal(Q)
				case 3:
					_ = P.Clone()
				case 4:
					_ = P.String()
				case 5:
					newPointG1(nil).Add(P, Q)
					newPointG1(nil).Neg(P)
					newPointG1(nil).Set(P)
					newPointG1(nil).Sub(P, Q)
				case 7:
					newPointGT().Pair(P, T)
				case 8:
					_, _ = T.MarshalBinary()
					_ = T.Equal(T)
					_ = T.Clone()
					newPointG2(nil).Add(T, T)
					newPointG2(nil).Neg(T)
				default:
					_ = P.MarshalSize()
				}
				done <- true
			}()
		}
		<-done
		<-done
	}
}
