package edwards25519

// C04 — Ed25519 point decoding refuses every input whose length is not 32 (no panic, value refused), for arbitrary
// content. The field kernels are summarised (arbitrary results): only the length guard and the control flow matter.

func HarnessEdUnmarshalLen(p0 int) {
	buf := make([]byte, p0)
	for i := range buf {
		buf[i] = nondetU8()
	}
	var P point
	err := P.UnmarshalBinary(buf)
	vreach("returned")
	vassert(err != nil, "point.UnmarshalBinary: an input of length != 32 is refused")
}

func HarnessEdUnmarshalLenReplay(p0 int) {
	var B point
	B.Base()
	enc, _ := B.MarshalBinary()
	buf := make([]byte, p0)
	copy(buf, enc) // a valid encoding, truncated or followed by zero bytes
	var P point
	err := P.UnmarshalBinary(buf)
	vassert(err != nil, "point.UnmarshalBinary: an input of length != 32 is refused")
}
