package p256

import "math/big"

// C04 — the residue group admits exactly the elements of its prime-order subgroup: for a DSA-style group with cofactor
// R > 2 (P = 31, Q = 5, R = 6) and every input length in the bound, UnmarshalBinary accepts x iff 0 < x < P and
// x^Q = 1 (mod P); never panics. math/big as mathematical integers, Exp by square-and-multiply in the encoding.

func c04Residue() *ResidueGroup {
	g := &ResidueGroup{}
	g.P = big.NewInt(31)
	g.Q = big.NewInt(5)
	g.R = big.NewInt(6)
	g.G = big.NewInt(2)
	return g
}

// p0: input length
func HarnessResidueUnmarshal(p0 int) {
	g := c04Residue()
	buf := make([]byte, p0)
	var x int64
	for i := range buf {
		buf[i] = nondetU8()
		x = x*256 + int64(buf[i])
	}
	P := &residuePoint{g: g}
	err := P.UnmarshalBinary(buf)
	vreach("returned")
	member := false
	if x > 0 && x < 31 {
		// x^5 mod 31 by square-and-multiply over the bits 101 of the exponent
		b := x % 31
		acc := int64(1)
		acc = acc * acc % 31
		acc = acc * b % 31
		acc = acc * acc % 31
		acc = acc * acc % 31
		acc = acc * b % 31
		member = acc%31 == 1
	}
	vassert((err == nil) == member, "residue UnmarshalBinary accepts exactly the elements of the order-Q subgroup")
}

// native replay: every value of the small group
func HarnessResidueUnmarshalReplay(p0 int) {
	g := c04Residue()
	ok := true
	for x := 0; x < 256; x++ {
		P := &residuePoint{g: g}
		err := P.UnmarshalBinary([]byte{byte(x)})
		member := x > 0 && x < 31 && new(big.Int).Exp(big.NewInt(int64(x)), g.Q, g.P).Cmp(big.NewInt(1)) == 0
		ok = ok && (err == nil) == member
	}
	vassert(ok, "residue UnmarshalBinary accepts exactly the elements of the order-Q subgroup")
}

// C17 — Pick / Embed(nil) on the residue group returns only members of the order-Q subgroup (cofactor 6 here).
type c04Stream struct{ n int }

func (s *c04Stream) XORKeyStream(dst, src []byte) {
	s.n++
	for i := range src {
		dst[i] = src[i] ^ nondetU8()
	}
}

func HarnessResiduePick() {
	g := c04Residue()
	P := &residuePoint{g: g}
	P.Pick(&c04Stream{})
	vreach("returned")
	// Valid() is the membership predicate (HarnessResidueUnmarshal shows: Valid <=> 0 < x < P and x^Q = 1): whatever test
	// Embed used to accept its candidate, the returned point must satisfy it
	vassert(P.Valid(), "residue Pick returns an element of the order-Q subgroup")
}

type c04Ctr struct{ k byte }

func (s *c04Ctr) XORKeyStream(dst, src []byte) {
	for i := range src {
		s.k = s.k*37 + 11
		dst[i] = src[i] ^ s.k
	}
}

func HarnessResiduePickReplay() {
	g := c04Residue()
	ok := true
	for seed := 0; seed < 64; seed++ {
		P := &residuePoint{g: g}
		P.Pick(&c04Ctr{k: byte(seed)})
		ok = ok && P.Sign() > 0 && P.Cmp(g.P) < 0 && new(big.Int).Exp(&P.Int, g.Q, g.P).Cmp(big.NewInt(1)) == 0
	}
	vassert(ok, "residue Pick returns an element of the order-Q subgroup")
}
