package edwards25519vartime

import (
	"go.dedis.ch/kyber/v4/group/mod"
)

// C04 — decoding untrusted bytes as a point of the variable-time Edwards curve never panics.
// The curve object (parameters, modulus, constants) is dumped natively from an initialised instance.
var verifCurve = func() *curve {
	c := new(ProjectiveCurve)
	c.Init(ParamEd25519(), false)
	return &c.curve
}()

// stub for (*mod.Int).Sqrt: an arbitrary answer (square root extraction is math/big's ModSqrt)
func stubSqrt(i *mod.Int, as *mod.Int) bool {
	return nondetBool()
}

// HarnessDecodePoint: one run per input length p0, arbitrary content.
func HarnessDecodePoint(p0 int) {
	bb := make([]byte, p0)
	for i := range bb {
		bb[i] = nondetU8()
	}
	var x, y mod.Int
	err := verifCurve.decodePoint(bb, &x, &y)
	vreach("returned")
	if p0 != verifCurve.PointLen() {
		vassert(err != nil, "decodePoint: an input whose length is not PointLen is refused")
	}
}
