package eddsa

import (
	"bytes"
	"crypto/cipher"
	"crypto/ed25519"
	"hash"
	"io"

	"go.dedis.ch/kyber/v4"
	"go.dedis.ch/kyber/v4/compatible/compatiblemod"
	"go.dedis.ch/kyber/v4/group/edwards25519"
)

// C08 (E1 part) — the wiring of EdDSA.Sign is that of RFC 8032 (hence of crypto/ed25519, given the same SHA-512): the
// nonce is H(prefix || msg), the commitment R = r*B, the challenge H(enc(R) || enc(A) || msg), the response
// s = r + h*a, the signature enc(R) || enc(s) - for every message of the stated length, every key, prefix and digest.
// The group is a fake in which a scalar is a 32-bit value (arithmetic modulo 2^32), a point its discrete logarithm, an
// encoding the 4 value bytes followed by zeros; SHA-512 records what it absorbs and returns arbitrary digests.

type sgScalar struct{ v uint32 }
type sgPoint struct{ k uint32 }

func sgEnc(v uint32) []byte {
	b := make([]byte, 32)
	b[0], b[1], b[2], b[3] = byte(v), byte(v>>8), byte(v>>16), byte(v>>24)
	return b
}
func sgDec(b []byte) uint32 {
	return uint32(b[0]) | uint32(b[1])<<8 | uint32(b[2])<<16 | uint32(b[3])<<24
}

func (p *sgPoint) MarshalBinary() ([]byte, error)          { return sgEnc(p.k), nil }
func (p *sgPoint) UnmarshalBinary(b []byte) error          { p.k = sgDec(b); return nil }
func (p *sgPoint) MarshalSize() int                        { return 32 }
func (p *sgPoint) String() string                          { return "" }
func (p *sgPoint) MarshalTo(w io.Writer) (int, error)      { return 0, nil }
func (p *sgPoint) UnmarshalFrom(r io.Reader) (int, error)  { return 0, nil }
func (p *sgPoint) Equal(q kyber.Point) bool                { return p.k == q.(*sgPoint).k }
func (p *sgPoint) Null() kyber.Point                       { p.k = 0; return p }
func (p *sgPoint) Base() kyber.Point                       { p.k = 1; return p }
func (p *sgPoint) Pick(cipher.Stream) kyber.Point          { return p }
func (p *sgPoint) Set(a kyber.Point) kyber.Point           { p.k = a.(*sgPoint).k; return p }
func (p *sgPoint) Clone() kyber.Point                      { return &sgPoint{k: p.k} }
func (p *sgPoint) EmbedLen() int                           { return 0 }
func (p *sgPoint) Embed([]byte, cipher.Stream) kyber.Point { return p }
func (p *sgPoint) Data() ([]byte, error)                   { return nil, nil }
func (p *sgPoint) Add(a, b kyber.Point) kyber.Point        { p.k = a.(*sgPoint).k + b.(*sgPoint).k; return p }
func (p *sgPoint) Sub(a, b kyber.Point) kyber.Point        { p.k = a.(*sgPoint).k - b.(*sgPoint).k; return p }
func (p *sgPoint) Neg(a kyber.Point) kyber.Point           { p.k = -a.(*sgPoint).k; return p }
func (p *sgPoint) Mul(s kyber.Scalar, q kyber.Point) kyber.Point {
	if q == nil {
		p.k = s.(*sgScalar).v
	} else {
		p.k = s.(*sgScalar).v * q.(*sgPoint).k
	}
	return p
}

var sgDigestOf [2]uint32 // value of the scalar derived from the 1st / 2nd digest
var sgSetBytesCalls int
var sgDigests [2][64]byte

func (s *sgScalar) MarshalBinary() ([]byte, error)         { return sgEnc(s.v), nil }
func (s *sgScalar) UnmarshalBinary(b []byte) error         { s.v = sgDec(b); return nil }
func (s *sgScalar) MarshalSize() int                       { return 32 }
func (s *sgScalar) String() string                         { return "" }
func (s *sgScalar) MarshalTo(w io.Writer) (int, error)     { return 0, nil }
func (s *sgScalar) UnmarshalFrom(r io.Reader) (int, error) { return 0, nil }
func (s *sgScalar) Equal(o kyber.Scalar) bool              { return s.v == o.(*sgScalar).v }
func (s *sgScalar) Set(a kyber.Scalar) kyber.Scalar        { s.v = a.(*sgScalar).v; return s }
func (s *sgScalar) Clone() kyber.Scalar                    { return &sgScalar{v: s.v} }
func (s *sgScalar) SetInt64(v int64) kyber.Scalar          { s.v = uint32(v); return s }
func (s *sgScalar) Zero() kyber.Scalar                     { s.v = 0; return s }
func (s *sgScalar) One() kyber.Scalar                      { s.v = 1; return s }
func (s *sgScalar) Add(a, b kyber.Scalar) kyber.Scalar     { s.v = a.(*sgScalar).v + b.(*sgScalar).v; return s }
func (s *sgScalar) Sub(a, b kyber.Scalar) kyber.Scalar     { s.v = a.(*sgScalar).v - b.(*sgScalar).v; return s }
func (s *sgScalar) Neg(a kyber.Scalar) kyber.Scalar        { s.v = -a.(*sgScalar).v; return s }
func (s *sgScalar) Mul(a, b kyber.Scalar) kyber.Scalar     { s.v = a.(*sgScalar).v * b.(*sgScalar).v; return s }
func (s *sgScalar) Div(a, b kyber.Scalar) kyber.Scalar     { return s }
func (s *sgScalar) Inv(a kyber.Scalar) kyber.Scalar        { return s }
func (s *sgScalar) Pick(cipher.Stream) kyber.Scalar        { return s }
func (s *sgScalar) ByteOrder() kyber.ByteOrder             { return kyber.LittleEndian }
func (s *sgScalar) GroupOrder() *compatiblemod.Mod         { return nil }

// the scalar derived from a digest: an arbitrary value, remembered together with the digest it was derived from
func (s *sgScalar) SetBytes(b []byte) kyber.Scalar {
	s.v = nondetU32()
	if sgSetBytesCalls < 2 && len(b) == 64 {
		sgDigestOf[sgSetBytesCalls] = s.v
		copy(sgDigests[sgSetBytesCalls][:], b)
	}
	sgSetBytesCalls++
	return s
}

func sgNewScalar(c *edwards25519.Curve) kyber.Scalar { return &sgScalar{} }
func sgNewPoint(c *edwards25519.Curve) kyber.Point   { return &sgPoint{} }

// SHA-512 stand-in: records what it absorbs since the last Reset, returns an arbitrary digest per Sum
type sgDigest struct {
	buf  [128]byte
	n    int
	sums int
	seen [2][128]byte // what had been absorbed when the 1st / 2nd digest was taken
	lens [2]int
	out  [2][64]byte
}

func (d *sgDigest) Write(b []byte) (int, error) {
	for i := range b {
		if d.n < len(d.buf) {
			d.buf[d.n] = b[i]
		}
		d.n++
	}
	return len(b), nil
}
func (d *sgDigest) Sum(b []byte) []byte {
	out := make([]byte, 64)
	for i := range out {
		out[i] = nondetU8()
	}
	if d.sums < 2 {
		d.seen[d.sums] = d.buf
		d.lens[d.sums] = d.n
		copy(d.out[d.sums][:], out)
	}
	d.sums++
	return append(b, out...)
}
func (d *sgDigest) Reset()         { d.n = 0; d.buf = [128]byte{} }
func (d *sgDigest) Size() int      { return 64 }
func (d *sgDigest) BlockSize() int { return 128 }

var sgTheDigest *sgDigest

func sgSha512() hash.Hash {
	sgTheDigest = &sgDigest{}
	return sgTheDigest
}

// p0: message length
func HarnessEdDSASignWiring(p0 int) {
	msg := make([]byte, p0)
	for i := range msg {
		msg[i] = nondetU8()
	}
	prefix := make([]byte, 32)
	for i := range prefix {
		prefix[i] = nondetU8()
	}
	a := &sgScalar{v: nondetU32()}
	A := &sgPoint{k: a.v}
	e := &EdDSA{Secret: a, Public: A, prefix: prefix}
	msg0 := append([]byte{}, msg...)
	sig, err := e.Sign(msg)
	vreach("end")
	vassert(err == nil && len(sig) == 64, "Sign returns a 64-byte signature")
	d := sgTheDigest
	vassert(d != nil && d.sums == 2 && sgSetBytesCalls == 2, "exactly two digests are taken and turned into scalars")
	// first digest: prefix || msg   (one assertion per byte: no accumulated conjunctions)
	vassert(d.lens[0] == 32+p0, "the nonce digest absorbs exactly prefix || msg (length)")
	for i := 0; i < 32; i++ {
		vassert(d.seen[0][i] == prefix[i], "the nonce digest absorbs prefix || msg")
	}
	for i := 0; i < p0; i++ {
		vassert(d.seen[0][32+i] == msg0[i], "the nonce digest absorbs prefix || msg")
	}
	r, h := sgDigestOf[0], sgDigestOf[1]
	vassert(sgDigests[0] == d.out[0] && sgDigests[1] == d.out[1], "nonce and challenge are derived from the first and the second digest")
	// second digest: enc(R) || enc(A) || msg with R = r*B
	vassert(d.lens[1] == 64+p0, "the challenge digest absorbs exactly enc(r*B) || enc(A) || msg (length)")
	encR, encA := sgEnc(r), sgEnc(a.v)
	for i := 0; i < 32; i++ {
		vassert(d.seen[1][i] == encR[i], "the challenge digest absorbs enc(r*B) || enc(A) || msg")
		vassert(d.seen[1][32+i] == encA[i], "the challenge digest absorbs enc(r*B) || enc(A) || msg")
	}
	for i := 0; i < p0; i++ {
		vassert(d.seen[1][64+i] == msg0[i], "the challenge digest absorbs enc(r*B) || enc(A) || msg")
	}
	// signature: enc(R) || enc(r + h*a)
	encS := sgEnc(r + h*a.v)
	for i := 0; i < 32; i++ {
		vassert(sig[i] == encR[i], "the signature is enc(r*B) || enc(r + h*a)")
		vassert(sig[32+i] == encS[i], "the signature is enc(r*B) || enc(r + h*a)")
	}
	for i := range msg {
		vassert(msg[i] == msg0[i], "the message is left unchanged")
	}
	vassert(a.v == A.k, "the key is left unchanged")
}

// native replay: the real Sign against crypto/ed25519 on the same key (RFC 8032 determinism), several messages
func HarnessEdDSASignReplay(p0 int) {
	ok := true
	g := edwards25519.NewBlakeSHA256Ed25519()
	e := NewEdDSA(g.RandomStream())
	kb, _ := e.MarshalBinary()
	priv := ed25519.PrivateKey(kb)
	for _, msg := range [][]byte{{}, {1}, []byte("hello"), make([]byte, 33), make([]byte, 200)} {
		sig, err := e.Sign(msg)
		ok = ok && err == nil && bytes.Equal(sig, ed25519.Sign(priv, msg)) && Verify(e.Public, msg, sig) == nil
	}
	for _, id := range []string{"Sign returns a 64-byte signature", "exactly two digests are taken and turned into scalars", "the nonce digest absorbs exactly prefix || msg (length)", "the nonce digest absorbs prefix || msg",
		"nonce and challenge are derived from the first and the second digest", "the challenge digest absorbs exactly enc(r*B) || enc(A) || msg (length)", "the challenge digest absorbs enc(r*B) || enc(A) || msg",
		"the signature is enc(r*B) || enc(r + h*a)", "the message is left unchanged", "the key is left unchanged"} {
		vassert(ok, id)
	}
}
