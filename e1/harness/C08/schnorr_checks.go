package schnorr

import (
	"crypto/cipher"
	"io"

	"go.dedis.ch/kyber/v4"
	"go.dedis.ch/kyber/v4/compatible/compatiblemod"
	"go.dedis.ch/kyber/v4/group/edwards25519"
)

// C08 (E1 part) — VerifyWithChecks accepts a signature only if EVERY check it advertises was made on the right object
// and came out right: R decoded from the first half, canonical, not of small order; the response scalar canonical; the
// public key decoded from pub, canonical, not of small order; the verification equation holds. The group is a
// recording fake whose predicates return arbitrary verdicts (symbolic booleans): the query is "is there an accepting
// path on which one of these verdicts was not obtained, or was obtained for another object".

type fkPoint struct {
	id          int
	enc         [32]byte
	decoded     bool
	canonCalls  int
	canonRet    bool
	canonArg    [32]byte
	smallCalls  int
	smallRet    bool
	eqRet       bool
	eqCalls     int
}

var fkPoints [8]*fkPoint
var fkNPoints int
var fkEqCalls int
var fkEqRet bool
var fkScalarCanon, fkScalarCanonCalls int
var fkScalarArg [32]byte
var fkDecA, fkDecB *fkPoint // first and second point that was decoded
var fkNDecodes int

func (p *fkPoint) MarshalBinary() ([]byte, error) { return append([]byte{}, p.enc[:]...), nil }
func (p *fkPoint) UnmarshalBinary(b []byte) error {
	if len(b) != 32 {
		return io.ErrUnexpectedEOF
	}
	copy(p.enc[:], b)
	p.decoded = true
	if fkNDecodes == 0 {
		fkDecA = p
	} else if fkNDecodes == 1 {
		fkDecB = p
	}
	fkNDecodes++
	return nil
}
func (p *fkPoint) IsCanonical(b []byte) bool {
	p.canonCalls++
	if len(b) == 32 {
		copy(p.canonArg[:], b)
	}
	p.canonRet = nondetBool()
	return p.canonRet
}
func (p *fkPoint) HasSmallOrder() bool {
	p.smallCalls++
	p.smallRet = nondetBool()
	return p.smallRet
}
func (p *fkPoint) MarshalSize() int                                 { return 32 }
func (p *fkPoint) String() string                                   { return "" }
func (p *fkPoint) MarshalTo(w io.Writer) (int, error)               { return w.Write(p.enc[:]) }
func (p *fkPoint) UnmarshalFrom(r io.Reader) (int, error)           { return 0, nil }
func (p *fkPoint) Equal(q kyber.Point) bool                         { fkEqCalls++; fkEqRet = nondetBool(); return fkEqRet }
func (p *fkPoint) Null() kyber.Point                                { return p }
func (p *fkPoint) Base() kyber.Point                                { return p }
func (p *fkPoint) Pick(cipher.Stream) kyber.Point                   { return p }
func (p *fkPoint) Set(kyber.Point) kyber.Point                      { return p }
func (p *fkPoint) Clone() kyber.Point                               { return p }
func (p *fkPoint) EmbedLen() int                                    { return 0 }
func (p *fkPoint) Embed([]byte, cipher.Stream) kyber.Point          { return p }
func (p *fkPoint) Data() ([]byte, error)                            { return nil, nil }
func (p *fkPoint) Add(a, b kyber.Point) kyber.Point                 { return p }
func (p *fkPoint) Sub(a, b kyber.Point) kyber.Point                 { return p }
func (p *fkPoint) Neg(a kyber.Point) kyber.Point                    { return p }
func (p *fkPoint) Mul(s kyber.Scalar, q kyber.Point) kyber.Point    { return p }

type fkScalar struct{ enc [32]byte }

func (s *fkScalar) IsCanonical(b []byte) bool {
	fkScalarCanonCalls++
	if len(b) == 32 {
		copy(fkScalarArg[:], b)
	}
	if nondetBool() {
		fkScalarCanon = 1
		return true
	}
	fkScalarCanon = 0
	return false
}
func (s *fkScalar) MarshalBinary() ([]byte, error)          { return append([]byte{}, s.enc[:]...), nil }
func (s *fkScalar) UnmarshalBinary(b []byte) error          { copy(s.enc[:], b); return nil }
func (s *fkScalar) MarshalSize() int                        { return 32 }
func (s *fkScalar) String() string                          { return "" }
func (s *fkScalar) MarshalTo(w io.Writer) (int, error)      { return w.Write(s.enc[:]) }
func (s *fkScalar) UnmarshalFrom(r io.Reader) (int, error)  { return 0, nil }
func (s *fkScalar) Equal(kyber.Scalar) bool                 { return false }
func (s *fkScalar) Set(kyber.Scalar) kyber.Scalar           { return s }
func (s *fkScalar) Clone() kyber.Scalar                     { return s }
func (s *fkScalar) SetInt64(int64) kyber.Scalar             { return s }
func (s *fkScalar) Zero() kyber.Scalar                      { return s }
func (s *fkScalar) Add(a, b kyber.Scalar) kyber.Scalar      { return s }
func (s *fkScalar) Sub(a, b kyber.Scalar) kyber.Scalar      { return s }
func (s *fkScalar) Neg(a kyber.Scalar) kyber.Scalar         { return s }
func (s *fkScalar) One() kyber.Scalar                       { return s }
func (s *fkScalar) Mul(a, b kyber.Scalar) kyber.Scalar      { return s }
func (s *fkScalar) Div(a, b kyber.Scalar) kyber.Scalar      { return s }
func (s *fkScalar) Inv(a kyber.Scalar) kyber.Scalar         { return s }
func (s *fkScalar) Pick(cipher.Stream) kyber.Scalar         { return s }
func (s *fkScalar) SetBytes([]byte) kyber.Scalar            { return s }
func (s *fkScalar) ByteOrder() kyber.ByteOrder              { return kyber.LittleEndian }
func (s *fkScalar) GroupOrder() *compatiblemod.Mod          { return nil }

type fkGroup struct{}

func (fkGroup) String() string       { return "fake" }
func (fkGroup) ScalarLen() int       { return 32 }
func (fkGroup) PointLen() int        { return 32 }
func (fkGroup) Scalar() kyber.Scalar { return &fkScalar{} }
func (fkGroup) Point() kyber.Point {
	p := &fkPoint{id: fkNPoints}
	if fkNPoints < len(fkPoints) {
		fkPoints[fkNPoints] = p
	}
	fkNPoints++
	return p
}

// the hash is not the subject: a stub returning a scalar
func fkHash(g kyber.Group, public, r kyber.Point, msg []byte) (kyber.Scalar, error) {
	return g.Scalar(), nil
}

func same32(a *[32]byte, b []byte) bool {
	ok := len(b) == 32
	for i := 0; ok && i < 32; i++ {
		ok = a[i] == b[i]
	}
	return ok
}

func HarnessVerifyWithChecks() {
	var pub [32]byte
	var sig [64]byte
	for i := range pub {
		pub[i] = nondetU8()
	}
	for i := range sig {
		sig[i] = nondetU8()
	}
	err := VerifyWithChecks(fkGroup{}, pub[:], []byte("m"), sig[:])
	vreach("returned")
	if err != nil {
		return
	}
	vassert(fkNDecodes == 2, "accepted: exactly R and the public key were decoded")
	R, A := fkDecA, fkDecB
	vassert(same32(&R.enc, sig[:32]) && same32(&A.enc, pub[:]), "accepted: R is decoded from the first half of the signature, the key from pub")
	vassert(R.canonCalls >= 1 && R.canonRet && same32(&R.canonArg, sig[:32]), "accepted: the encoding of R was found canonical")
	vassert(R.smallCalls >= 1 && !R.smallRet, "accepted: R was tested for small order and is not")
	vassert(fkScalarCanonCalls >= 1 && fkScalarCanon == 1 && same32(&fkScalarArg, sig[32:]), "accepted: the response scalar was found canonical")
	vassert(A.canonCalls >= 1 && A.canonRet && same32(&A.canonArg, pub[:]), "accepted: the encoding of the public key was found canonical")
	vassert(A.smallCalls >= 1 && !A.smallRet, "accepted: the public key was tested for small order and is not")
	vassert(fkEqCalls >= 1 && fkEqRet, "accepted: the verification equation was evaluated and held")
}

// native replay: on the real Ed25519 group no signature is accepted under a small-order key or with a small-order or
// non-canonical R (key-less forgeries R = rB, s = r succeed with probability >= 1/8 per message when the key check is missing)
func HarnessVerifyWithChecksReplay() {
	g := edwards25519.NewBlakeSHA256Ed25519()
	t8 := [][]byte{
		append([]byte{0x01}, make([]byte, 31)...),
		{0xec, 0xff, 0xff, 0xff, 0xff, 0xff, 0xff, 0xff, 0xff, 0xff, 0xff, 0xff, 0xff, 0xff, 0xff, 0xff, 0xff, 0xff, 0xff, 0xff, 0xff, 0xff, 0xff, 0xff, 0xff, 0xff, 0xff, 0xff, 0xff, 0xff, 0xff, 0x7f},
		make([]byte, 32),
		append(make([]byte, 31), 0x80),
		{0x26, 0xe8, 0x95, 0x8f, 0xc2, 0xb2, 0x27, 0xb0, 0x45, 0xc3, 0xf4, 0x89, 0xf2, 0xef, 0x98, 0xf0, 0xd5, 0xdf, 0xac, 0x05, 0xd3, 0xc6, 0x33, 0x39, 0xb1, 0x38, 0x02, 0x88, 0x6d, 0x53, 0xfc, 0x05},
		{0x26, 0xe8, 0x95, 0x8f, 0xc2, 0xb2, 0x27, 0xb0, 0x45, 0xc3, 0xf4, 0x89, 0xf2, 0xef, 0x98, 0xf0, 0xd5, 0xdf, 0xac, 0x05, 0xd3, 0xc6, 0x33, 0x39, 0xb1, 0x38, 0x02, 0x88, 0x6d, 0x53, 0xfc, 0x85},
		{0xc7, 0x17, 0x6a, 0x70, 0x3d, 0x4d, 0xd8, 0x4f, 0xba, 0x3c, 0x0b, 0x76, 0x0d, 0x10, 0x67, 0x0f, 0x2a, 0x20, 0x53, 0xfa, 0x2c, 0x39, 0xcc, 0xc6, 0x4e, 0xc7, 0xfd, 0x77, 0x92, 0xac, 0x03, 0x7a},
		{0xc7, 0x17, 0x6a, 0x70, 0x3d, 0x4d, 0xd8, 0x4f, 0xba, 0x3c, 0x0b, 0x76, 0x0d, 0x10, 0x67, 0x0f, 0x2a, 0x20, 0x53, 0xfa, 0x2c, 0x39, 0xcc, 0xc6, 0x4e, 0xc7, 0xfd, 0x77, 0x92, 0xac, 0x03, 0xfa},
	}
	ok := true
	for _, key := range t8 {
		for m := 0; m < 64; m++ {
			r := g.Scalar().SetInt64(int64(1000 + m))
			Rb, _ := g.Point().Mul(r, nil).MarshalBinary()
			sb, _ := r.MarshalBinary()
			if VerifyWithChecks(g, key, []byte{byte(m)}, append(append([]byte{}, Rb...), sb...)) == nil {
				ok = false // a signature without any private key was accepted under a small-order key
			}
		}
	}
	// small-order R with an honest key: s = x*h makes the equation hold iff R is the neutral element's coset... simply require rejection
	x := g.Scalar().SetInt64(7)
	X, _ := g.Point().Mul(x, nil).MarshalBinary()
	for _, Rb := range t8 {
		for m := 0; m < 16; m++ {
			msg := []byte{byte(m)}
			R := g.Point()
			if R.UnmarshalBinary(Rb) != nil {
				continue
			}
			pubP := g.Point().Mul(x, nil)
			h, _ := hash(g, pubP, R, msg)
			sb, _ := g.Scalar().Mul(x, h).MarshalBinary()
			if VerifyWithChecks(g, X, msg, append(append([]byte{}, Rb...), sb...)) == nil {
				ok = false
			}
		}
	}
	for _, id := range []string{"accepted: exactly R and the public key were decoded", "accepted: R is decoded from the first half of the signature, the key from pub", "accepted: the encoding of R was found canonical",
		"accepted: R was tested for small order and is not", "accepted: the response scalar was found canonical", "accepted: the encoding of the public key was found canonical",
		"accepted: the public key was tested for small order and is not", "accepted: the verification equation was evaluated and held"} {
		vassert(ok, id)
	}
}
