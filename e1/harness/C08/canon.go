package edwards25519

// C08 (E1 part) — canonicity and small-order predicates of Ed25519 encodings, bit-vector mode,
// all 2^256 inputs.

// little-endian comparison a < b, branch-free borrow chain (written independently of the implementation)
func canonLess(a []byte, b []byte) bool {
	var borrow uint16
	for i := 0; i < 32; i++ {
		d := uint16(a[i]) - uint16(b[i]) - borrow
		borrow = (d >> 8) & 1
	}
	return borrow == 1
}

func HarnessScalarIsCanonical() {
	var sb [32]byte
	for i := range sb {
		sb[i] = nondetU8()
	}
	L := primeOrder.Bytes()
	for i, j := 0, 31; i < j; i, j = i+1, j-1 {
		L[i], L[j] = L[j], L[i]
	}
	var s scalar
	got := s.IsCanonical(sb[:])
	vreach("end")
	vassert(got == canonLess(sb[:], L), "scalar.IsCanonical(sb) <=> LE(sb) < l")
	vassert(!s.IsCanonical(sb[:31]), "scalar.IsCanonical: 31 bytes rejected")
	var long [33]byte
	vassert(!s.IsCanonical(long[:]), "scalar.IsCanonical: 33 bytes rejected")
	vassert(!s.IsCanonical(nil), "scalar.IsCanonical: nil rejected")
}

func HarnessPointIsCanonical() {
	var sb [32]byte
	for i := range sb {
		sb[i] = nondetU8()
	}
	var P point
	got := P.IsCanonical(sb[:])
	vreach("end")
	// p = 2^255-19 : LE bytes ed ff .. ff 7f ; compare with the sign bit masked
	var pb [32]byte
	pb[0] = 0xed
	for i := 1; i < 31; i++ {
		pb[i] = 0xff
	}
	pb[31] = 0x7f
	var t [32]byte
	copy(t[:], sb[:])
	t[31] &= 0x7f
	vassert(got == canonLess(t[:], pb[:]), "point.IsCanonical(s) <=> LE(s with bit 255 cleared) < p")
	vassert(!P.IsCanonical(sb[:31]), "point.IsCanonical: 31 bytes rejected")
	vassert(!P.IsCanonical(nil), "point.IsCanonical: nil rejected")
}

// HasSmallOrder on an arbitrary encoding: MarshalBinary is a stub that returns the 32 symbolic bytes
var canonStubBytes [32]byte

func canonStubMarshal(P *point) ([]byte, error) {
	b := make([]byte, 32)
	copy(b, canonStubBytes[:])
	return b, nil
}

func HarnessHasSmallOrder() {
	for i := range canonStubBytes {
		canonStubBytes[i] = nondetU8()
	}
	var P point
	got := P.HasSmallOrder()
	vreach("end")
	want := false
	for k := 0; k < len(weakKeys); k++ {
		eq := true
		for j := 0; j < 31; j++ {
			eq = eq && canonStubBytes[j] == weakKeys[k][j]
		}
		eq = eq && (canonStubBytes[31]&0x7f) == weakKeys[k][31]
		want = want || eq
	}
	vassert(got == want, "HasSmallOrder() <=> encoding (sign bit masked) is one of the listed small-order encodings")
	vassert(len(weakKeys) == 5, "five small-order encodings listed")
}
