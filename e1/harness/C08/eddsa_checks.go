package eddsa

import (
	"crypto/cipher"
	"crypto/sha512"
	"hash"
	"io"

	"go.dedis.ch/kyber/v4"
	"go.dedis.ch/kyber/v4/compatible/compatiblemod"
	"go.dedis.ch/kyber/v4/group/edwards25519"
)

// C08 (E1 part) — eddsa.VerifyWithChecks over a recording fake of the Ed25519 group that keeps, for every point, its
// component in the 8-torsion subgroup (the curve group is Z_l x Z_8; the verdict on the Z_l component is arbitrary):
// an accepted signature passed every advertised check on the right object AND satisfies the COFACTORLESS equation
// s*B = R + h*A also on the torsion component - which is what crypto/ed25519 checks, so that everything this verifier
// accepts crypto/ed25519 accepts too. Scalars carry their value modulo 8. SHA-512 is a stub (arbitrary digest).

var fkS, fkH *fkScalar // the response scalar decoded from the signature, the challenge derived from the digest

type fkPoint struct {
	t           uint8 // component in the 8-torsion subgroup Z_8 (the group is Z_l x Z_8)
	id          int
	enc         [32]byte
	decoded     bool
	canonCalls  int
	canonRet    bool
	canonArg    [32]byte
	smallCalls  int
	smallRet    bool
	eqRet       bool
	eqCalls     int
}

var fkPoints [8]*fkPoint
var fkNPoints int
var fkEqCalls int
var fkEqRet bool
var fkScalarCanon, fkScalarCanonCalls int
var fkScalarArg [32]byte
var fkDecA, fkDecB *fkPoint // first and second point that was decoded
var fkNDecodes int

func (p *fkPoint) MarshalBinary() ([]byte, error) { return append([]byte{}, p.enc[:]...), nil }
func (p *fkPoint) UnmarshalBinary(b []byte) error {
	if len(b) != 32 {
		return io.ErrUnexpectedEOF
	}
	copy(p.enc[:], b)
	p.decoded = true
	p.t = nondetU8Range(0, 7)
	if fkNDecodes == 0 {
		fkDecA = p
	} else if fkNDecodes == 1 {
		fkDecB = p
	}
	fkNDecodes++
	return nil
}
func (p *fkPoint) IsCanonical(b []byte) bool {
	p.canonCalls++
	if len(b) == 32 {
		copy(p.canonArg[:], b)
	}
	p.canonRet = nondetBool()
	return p.canonRet
}
func (p *fkPoint) HasSmallOrder() bool {
	p.smallCalls++
	p.smallRet = nondetBool()
	return p.smallRet
}
func (p *fkPoint) MarshalSize() int                                 { return 32 }
func (p *fkPoint) String() string                                   { return "" }
func (p *fkPoint) MarshalTo(w io.Writer) (int, error)               { return w.Write(p.enc[:]) }
func (p *fkPoint) UnmarshalFrom(r io.Reader) (int, error)           { return 0, nil }
func (p *fkPoint) Equal(q kyber.Point) bool {
	fkEqCalls++
	// the verdict on the prime-order component is arbitrary; the torsion components are compared exactly
	fkEqRet = nondetBool() && p.t == q.(*fkPoint).t
	return fkEqRet
}
func (p *fkPoint) Null() kyber.Point                                { p.t = 0; return p }
func (p *fkPoint) Base() kyber.Point                                { p.t = 0; return p }
func (p *fkPoint) Pick(cipher.Stream) kyber.Point                   { return p }
func (p *fkPoint) Set(a kyber.Point) kyber.Point                    { p.t = a.(*fkPoint).t; return p }
func (p *fkPoint) Clone() kyber.Point                               { return &fkPoint{t: p.t, id: p.id} }
func (p *fkPoint) EmbedLen() int                                    { return 0 }
func (p *fkPoint) Embed([]byte, cipher.Stream) kyber.Point          { return p }
func (p *fkPoint) Data() ([]byte, error)                            { return nil, nil }
func (p *fkPoint) Add(a, b kyber.Point) kyber.Point                 { p.t = (a.(*fkPoint).t + b.(*fkPoint).t) & 7; return p }
func (p *fkPoint) Sub(a, b kyber.Point) kyber.Point                 { p.t = (a.(*fkPoint).t + 8 - b.(*fkPoint).t) & 7; return p }
func (p *fkPoint) Neg(a kyber.Point) kyber.Point                    { p.t = (8 - a.(*fkPoint).t) & 7; return p }
func (p *fkPoint) Mul(s kyber.Scalar, q kyber.Point) kyber.Point {
	k := fkMod8(s)
	if q == nil {
		p.t = 0 // the base point generates the prime-order subgroup
	} else {
		p.t = (k * q.(*fkPoint).t) & 7
	}
	return p
}

// the value of a scalar modulo 8: fakes carry it; a real scalar (e.g. a package-level constant) is read from its encoding
func fkMod8(s kyber.Scalar) uint8 {
	if f, ok := s.(*fkScalar); ok {
		return f.v8
	}
	b, _ := s.MarshalBinary()
	return b[0] & 7
}

type fkScalar struct {
	enc [32]byte
	v8  uint8 // the value modulo 8
}

func (s *fkScalar) IsCanonical(b []byte) bool {
	fkScalarCanonCalls++
	if len(b) == 32 {
		copy(fkScalarArg[:], b)
	}
	if nondetBool() {
		fkScalarCanon = 1
		return true
	}
	fkScalarCanon = 0
	return false
}
func (s *fkScalar) MarshalBinary() ([]byte, error)          { return append([]byte{}, s.enc[:]...), nil }
func (s *fkScalar) UnmarshalBinary(b []byte) error          { copy(s.enc[:], b); s.v8 = nondetU8Range(0, 7); fkS = s; return nil }
func (s *fkScalar) MarshalSize() int                        { return 32 }
func (s *fkScalar) String() string                          { return "" }
func (s *fkScalar) MarshalTo(w io.Writer) (int, error)      { return w.Write(s.enc[:]) }
func (s *fkScalar) UnmarshalFrom(r io.Reader) (int, error)  { return 0, nil }
func (s *fkScalar) Equal(kyber.Scalar) bool                 { return false }
func (s *fkScalar) Set(kyber.Scalar) kyber.Scalar           { return s }
func (s *fkScalar) Clone() kyber.Scalar                     { return s }
func (s *fkScalar) SetInt64(v int64) kyber.Scalar           { s.v8 = uint8(v & 7); return s }
func (s *fkScalar) Zero() kyber.Scalar                      { return s }
func (s *fkScalar) Add(a, b kyber.Scalar) kyber.Scalar      { s.v8 = (fkMod8(a) + fkMod8(b)) & 7; return s }
func (s *fkScalar) Sub(a, b kyber.Scalar) kyber.Scalar      { return s }
func (s *fkScalar) Neg(a kyber.Scalar) kyber.Scalar         { return s }
func (s *fkScalar) One() kyber.Scalar                       { return s }
func (s *fkScalar) Mul(a, b kyber.Scalar) kyber.Scalar      { s.v8 = (fkMod8(a) * fkMod8(b)) & 7; return s }
func (s *fkScalar) Div(a, b kyber.Scalar) kyber.Scalar      { return s }
func (s *fkScalar) Inv(a kyber.Scalar) kyber.Scalar         { return s }
func (s *fkScalar) Pick(cipher.Stream) kyber.Scalar         { return s }
func (s *fkScalar) SetBytes([]byte) kyber.Scalar            { s.v8 = nondetU8Range(0, 7); fkH = s; return s }
func (s *fkScalar) ByteOrder() kyber.ByteOrder              { return kyber.LittleEndian }
func (s *fkScalar) GroupOrder() *compatiblemod.Mod          { return nil }


func fkNewScalar(c *edwards25519.Curve) kyber.Scalar { return &fkScalar{} }
func fkNewPoint(c *edwards25519.Curve) kyber.Point {
	p := &fkPoint{id: fkNPoints}
	if fkNPoints < len(fkPoints) {
		fkPoints[fkNPoints] = p
	}
	fkNPoints++
	return p
}

type fkDigest struct{ n int }

func (d *fkDigest) Write(b []byte) (int, error) { d.n += len(b); return len(b), nil }
func (d *fkDigest) Sum(b []byte) []byte {
	out := make([]byte, 64)
	for i := range out {
		out[i] = nondetU8()
	}
	return append(b, out...)
}
func (d *fkDigest) Reset()         {}
func (d *fkDigest) Size() int      { return 64 }
func (d *fkDigest) BlockSize() int { return 128 }
func fkSha512() hash.Hash          { return &fkDigest{} }

func same32(a *[32]byte, b []byte) bool {
	ok := len(b) == 32
	for i := 0; ok && i < 32; i++ {
		ok = a[i] == b[i]
	}
	return ok
}

func HarnessEdDSAVerifyWithChecks() {
	var pub [32]byte
	var sig [64]byte
	for i := range pub {
		pub[i] = nondetU8()
	}
	for i := range sig {
		sig[i] = nondetU8()
	}
	err := VerifyWithChecks(pub[:], []byte("m"), sig[:])
	vreach("returned")
	if err != nil {
		return
	}
	vassert(fkNDecodes == 2, "accepted: exactly R and the public key were decoded")
	R, A := fkDecA, fkDecB
	vassert(same32(&R.enc, sig[:32]) && same32(&A.enc, pub[:]), "accepted: R is decoded from the first half of the signature, the key from pub")
	vassert(R.canonCalls >= 1 && R.canonRet && same32(&R.canonArg, sig[:32]), "accepted: the encoding of R was found canonical")
	vassert(R.smallCalls >= 1 && !R.smallRet, "accepted: R was tested for small order and is not")
	vassert(fkScalarCanonCalls >= 1 && fkScalarCanon == 1 && same32(&fkScalarArg, sig[32:]), "accepted: the response scalar was found canonical")
	vassert(A.canonCalls >= 1 && A.canonRet && same32(&A.canonArg, pub[:]), "accepted: the encoding of the public key was found canonical")
	vassert(A.smallCalls >= 1 && !A.smallRet, "accepted: the public key was tested for small order and is not")
	vassert(fkEqCalls >= 1 && fkEqRet, "accepted: the verification equation was evaluated and held")
	vassert(fkS != nil && fkH != nil && same32(&fkS.enc, sig[32:]), "accepted: the response is decoded from the second half, the challenge from the digest")
	if fkH != nil {
		vassert((R.t+fkH.v8*A.t)&7 == 0, "accepted: the cofactorless equation s*B = R + h*A holds on the 8-torsion component too (no torsion-shifted R or key)")
	}
}

// native replay on the real group: signatures whose commitment is shifted by a point of order 2, 4 or 8 (crafted with
// the private key: R' = r*B + T, s = r + H(R',A,m)*a) are refused, exactly as crypto/ed25519 refuses them; honest
// signatures are accepted
func HarnessEdDSAVerifyWithChecksReplay() {
	g := edwards25519.NewBlakeSHA256Ed25519()
	tors := [][]byte{
		{0xec, 0xff, 0xff, 0xff, 0xff, 0xff, 0xff, 0xff, 0xff, 0xff, 0xff, 0xff, 0xff, 0xff, 0xff, 0xff, 0xff, 0xff, 0xff, 0xff, 0xff, 0xff, 0xff, 0xff, 0xff, 0xff, 0xff, 0xff, 0xff, 0xff, 0xff, 0x7f},
		make([]byte, 32),
		{0x26, 0xe8, 0x95, 0x8f, 0xc2, 0xb2, 0x27, 0xb0, 0x45, 0xc3, 0xf4, 0x89, 0xf2, 0xef, 0x98, 0xf0, 0xd5, 0xdf, 0xac, 0x05, 0xd3, 0xc6, 0x33, 0x39, 0xb1, 0x38, 0x02, 0x88, 0x6d, 0x53, 0xfc, 0x05},
		{0xc7, 0x17, 0x6a, 0x70, 0x3d, 0x4d, 0xd8, 0x4f, 0xba, 0x3c, 0x0b, 0x76, 0x0d, 0x10, 0x67, 0x0f, 0x2a, 0x20, 0x53, 0xfa, 0x2c, 0x39, 0xcc, 0xc6, 0x4e, 0xc7, 0xfd, 0x77, 0x92, 0xac, 0x03, 0x7a},
	}
	ok := true
	e := NewEdDSA(g.RandomStream())
	pubB, _ := e.Public.MarshalBinary()
	for m := 0; m < 8; m++ {
		msg := []byte{byte(m), 1, 2}
		good, err := e.Sign(msg)
		ok = ok && err == nil && VerifyWithChecks(pubB, msg, good) == nil
		for _, tb := range tors {
			T := g.Point()
			if T.UnmarshalBinary(tb) != nil {
				ok = false
				continue
			}
			r := g.Scalar().SetInt64(int64(4242 + m))
			Rp := g.Point().Add(g.Point().Mul(r, nil), T)
			Rb, _ := Rp.MarshalBinary()
			hh := sha512.New()
			hh.Write(Rb)
			hh.Write(pubB)
			hh.Write(msg)
			h := g.Scalar().SetBytes(hh.Sum(nil))
			s := g.Scalar().Add(r, g.Scalar().Mul(h, e.Secret))
			sb, _ := s.MarshalBinary()
			if VerifyWithChecks(pubB, msg, append(append([]byte{}, Rb...), sb...)) == nil {
				ok = false // a torsion-shifted commitment was accepted
			}
		}
	}
	for _, id := range []string{"accepted: exactly R and the public key were decoded", "accepted: R is decoded from the first half of the signature, the key from pub", "accepted: the encoding of R was found canonical",
		"accepted: R was tested for small order and is not", "accepted: the response scalar was found canonical", "accepted: the encoding of the public key was found canonical",
		"accepted: the public key was tested for small order and is not", "accepted: the verification equation was evaluated and held",
		"accepted: the response is decoded from the second half, the challenge from the digest",
		"accepted: the cofactorless equation s*B = R + h*A holds on the 8-torsion component too (no torsion-shifted R or key)"} {
		vassert(ok, id)
	}
}
