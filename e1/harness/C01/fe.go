package edwards25519

// C01 kernel layer / C03 — field-element kernels of fe.go: each is a ring operation on the represented
// value (mod p = 2^255-19), free of int32/int64 overflow, with the documented output limb bounds,
// under exactly the input limb bounds written in the source comments.

const fePStr = "57896044618658097711785492504343953926634992332820282019728792003956564819949"
const fePm1Str = "57896044618658097711785492504343953926634992332820282019728792003956564819948"

// 1.1*2^26, 1.1*2^25, 1.1*2^24 (floor)
const feB26, feB25, feB24 = 73819750, 36909875, 18454937

func feExp(i int) int {
	e := [10]int{0, 26, 51, 77, 102, 128, 153, 179, 204, 230}
	return e[i]
}

func feVal(h *fieldElement) Z {
	v := zI64(0)
	for i := 0; i < 10; i++ {
		v = zAdd(v, zShl(zI64(int64(h[i])), feExp(i)))
	}
	return v
}

func feIn(f *fieldElement, even, odd int) {
	for i := 0; i < 10; i++ {
		if i%2 == 0 {
			f[i] = nondetI32Range(-even, even)
		} else {
			f[i] = nondetI32Range(-odd, odd)
		}
	}
}

func feOutBound(h *fieldElement, even, odd int64, what string) {
	for i := 0; i < 10; i++ {
		v := int64(h[i])
		if i%2 == 0 {
			vassert(v <= even && v >= -even, what+": even limb bound")
		} else {
			vassert(v <= odd && v >= -odd, what+": odd limb bound")
		}
	}
}

func HarnessFeMul() {
	var f, g, h fieldElement
	feIn(&f, feB26, feB25)
	feIn(&g, feB26, feB25)
	feMul(&h, &f, &g)
	vreach("end")
	vassert(zCongruent(feVal(&h), zMul(feVal(&f), feVal(&g)), fePStr), "feMul: value(h) == value(f)*value(g) mod p")
	feOutBound(&h, feB25, feB24, "feMul")
}

func HarnessFeSquare() {
	var f, h fieldElement
	feIn(&f, feB26, feB25)
	feSquare(&h, &f)
	vreach("end")
	vassert(zCongruent(feVal(&h), zMul(feVal(&f), feVal(&f)), fePStr), "feSquare: value(h) == value(f)^2 mod p")
	feOutBound(&h, feB25, feB24, "feSquare")
}

// 1.65*2^26 = 110729625 ; 1.65*2^25 = 55364812 ; output 1.01*2^25 = 33889976, 1.01*2^24 = 16944988
func HarnessFeSquare2() {
	var f, h fieldElement
	feIn(&f, 110729625, 55364812)
	feSquare2(&h, &f)
	vreach("end")
	vassert(zCongruent(feVal(&h), zMul(zI64(2), zMul(feVal(&f), feVal(&f))), fePStr), "feSquare2: value(h) == 2*value(f)^2 mod p")
	feOutBound(&h, 33889976, 16944988, "feSquare2")
}

func HarnessFeAdd() {
	var f, g, h fieldElement
	feIn(&f, feB25, feB24)
	feIn(&g, feB25, feB24)
	feAdd(&h, &f, &g)
	vreach("end")
	vassert(zEq(feVal(&h), zAdd(feVal(&f), feVal(&g))), "feAdd: value(h) == value(f)+value(g)")
	feOutBound(&h, feB26, feB25, "feAdd")
}

func HarnessFeSub() {
	var f, g, h fieldElement
	feIn(&f, feB25, feB24)
	feIn(&g, feB25, feB24)
	feSub(&h, &f, &g)
	vreach("end")
	vassert(zEq(feVal(&h), zSub(feVal(&f), feVal(&g))), "feSub: value(h) == value(f)-value(g)")
	feOutBound(&h, feB26, feB25, "feSub")
}

func HarnessFeNeg() {
	var f, h fieldElement
	feIn(&f, feB25, feB24)
	feNeg(&h, &f)
	vreach("end")
	vassert(zEq(feVal(&h), zSub(zI64(0), feVal(&f))), "feNeg: value(h) == -value(f)")
	feOutBound(&h, feB25, feB24, "feNeg")
}

func HarnessFeCopyZeroOne() {
	var f, h, z, o fieldElement
	feIn(&f, feB26, feB25)
	feIn(&z, feB26, feB25)
	feIn(&o, feB26, feB25)
	feCopy(&h, &f)
	feZero(&z)
	feOne(&o)
	vreach("end")
	vassert(zEq(feVal(&h), feVal(&f)), "feCopy: same value")
	for i := 0; i < 10; i++ {
		vassert(h[i] == f[i], "feCopy: same limbs")
		vassert(z[i] == 0, "feZero: all limbs zero")
	}
	vassert(zEq(feVal(&o), zI64(1)), "feOne: value 1")
	vassert(zEq(feVal(&z), zI64(0)), "feZero: value 0")
}

// bit-vector: constant-time conditional move for every int32 limb vector and b in {0,1}
func HarnessFeCMove() {
	var f, g, f0 fieldElement
	for i := 0; i < 10; i++ {
		f[i] = nondetI32()
		g[i] = nondetI32()
		f0[i] = f[i]
	}
	b := nondetI32Range(0, 1)
	feCMove(&f, &g, b)
	vreach("end")
	for i := 0; i < 10; i++ {
		if b == 1 {
			vassert(f[i] == g[i], "feCMove(b=1): f == g")
		} else {
			vassert(f[i] == f0[i], "feCMove(b=0): f unchanged")
		}
	}
}

// ---- feToBytes: limbs -> canonical limbs (int) -> bytes (bv)
func feCutVal() Z {
	n := [10]string{"h0", "h1", "h2", "h3", "h4", "h5", "h6", "h7", "h8", "h9"}
	v := zI64(0)
	for i := 0; i < 10; i++ {
		v = zAdd(v, zShl(zCut(n[i]), feExp(i)))
	}
	return v
}
func HarnessFeToBytesCore() {
	var h fieldElement
	feIn(&h, feB25, feB24)
	in := feVal(&h)
	var s [32]byte
	feToBytes(&s, &h)
	vreach("before stores")
	out := feCutVal()
	vassert(zCongruent(out, in, fePStr), "feToBytes: canonical limbs represent the same value mod p")
	vassert(zGeConst(out, "0"), "feToBytes: canonical value >= 0")
	vassert(zLeConst(out, fePm1Str), "feToBytes: canonical value <= p-1")
	n := [10]string{"h0", "h1", "h2", "h3", "h4", "h5", "h6", "h7", "h8", "h9"}
	for i := 0; i < 10; i++ {
		v := cutI64(n[i])
		vassert(v >= 0, "feToBytes: canonical limb >= 0")
		if i%2 == 0 {
			vassert(v < 1<<26, "feToBytes: canonical even limb < 2^26")
		} else {
			vassert(v < 1<<25, "feToBytes: canonical odd limb < 2^25")
		}
	}
}
func ReplayFeToBytes() {
	var h fieldElement
	feIn(&h, feB25, feB24)
	in := feVal(&h)
	var s [32]byte
	feToBytes(&s, &h)
	out := feLE(s[:])
	vassert(zCongruent(out, in, fePStr), "feToBytes: canonical limbs represent the same value mod p")
	vassert(zLeConst(out, fePm1Str), "feToBytes: canonical value <= p-1")
}
func feLE(b []byte) Z {
	v := zI64(0)
	for i := range b {
		v = zAdd(v, zShl(zU8(b[i]), 8*i))
	}
	return v
}
func HarnessFeToBytesPack() {
	var h fieldElement
	var s [32]byte
	feToBytes(&s, &h)
	vreach("after stores")
	vassert(zEq(feLE(s[:]), feCutVal()), "feToBytes: LE(bytes) == sum(h_i 2^e_i) for canonical limbs")
}

// ---- feFromBytes: every 32-byte string (bit 255 ignored)
func HarnessFeFromBytes() {
	var src [32]byte
	for i := range src {
		src[i] = nondetU8()
	}
	var h fieldElement
	feFromBytes(&h, src[:])
	vreach("end")
	// value of the low 255 bits
	v := zI64(0)
	for i := 0; i < 31; i++ {
		v = zAdd(v, zShl(zU8(src[i]), 8*i))
	}
	v = zAdd(v, zShl(zU8(src[31]&127), 248))
	vassert(zCongruent(feVal(&h), v, fePStr), "feFromBytes: value(h) == LE(src mod 2^255) mod p")
	feOutBound(&h, feB25, feB24, "feFromBytes")
}
