package edwards25519vartime

import (
	"go.dedis.ch/kyber/v4/compatible/compatiblemod"
	"go.dedis.ch/kyber/v4/group/mod"
)

// C01 (formula layer, variable-time Edwards points) — Add, Sub, Neg, double and the neutral element of the projective
// (proj.go) and extended (ext.go) representations implement the twisted Edwards addition law
//     x3 = (x1 y2 + y1 x2) / (1 + d x1 x2 y1 y2),   y3 = (y1 y2 - a x1 x2) / (1 - d x1 x2 y1 y2)
// of the curve a x^2 + y^2 = 1 + d x^2 y^2, for all pairs of curve points and all non-zero projective scalings, over a
// small prime field (p0) with a a square and d a non-square (the law is then complete, as on Ed25519 and the other
// curves of the package). mod.Int runs on its real code; math/big is the mathematical-integer model.

func vfCoord(i *mod.Int, m *compatiblemod.Mod, v int64) { i.Init64(v, m) }

func vfOnCurve(x, y, a, d, M int64) bool {
	xx, yy := x*x%M, y*y%M
	return (a*xx+yy)%M == (1+d*(xx*yy%M))%M
}

// numerators and denominators of the affine law, reduced
func vfLaw(x1, y1, x2, y2, a, d, M int64) (nx, dx, ny, dy int64) {
	k := d * (x1 * x2 % M * (y1 * y2 % M) % M) % M
	nx = (x1*y2 + y1*x2) % M
	dx = (1 + k) % M
	ny = (y1*y2%M + (M-a)*(x1*x2%M)) % M
	dy = (1 + M - k) % M
	return
}

func vfIs(X, Y, Z *mod.Int, nx, dx, ny, dy, M int64) bool {
	x, y, z := X.V.Int.Int64(), Y.V.Int.Int64(), Z.V.Int.Int64()
	return z != 0 && x*dx%M == nx*z%M && y*dy%M == ny*z%M
}

// p0: field size; p1: curve parameter a; p2: curve parameter d; p3: 0 projPoint, 1 extPoint; p4: formula
func HarnessVartimeFormula(p0, p1, p2, p3, p4 int) {
	M, a, d := int64(p0), int64(p1), int64(p2)
	m := compatiblemod.NewInt(M)
	x1, y1 := int64(nondetIntRange(0, p0-1)), int64(nondetIntRange(0, p0-1))
	x2, y2 := int64(nondetIntRange(0, p0-1)), int64(nondetIntRange(0, p0-1))
	z1, z2 := int64(nondetIntRange(1, p0-1)), int64(nondetIntRange(1, p0-1))
	vassume(vfOnCurve(x1, y1, a, d, M))
	vassume(vfOnCurve(x2, y2, a, d, M))
	if p3 == 0 {
		c := &ProjectiveCurve{}
		vfCoord(&c.a, m, a)
		vfCoord(&c.d, m, d)
		c.null.c = c
		vfCoord(&c.null.X, m, 0)
		vfCoord(&c.null.Y, m, 1)
		vfCoord(&c.null.Z, m, 1)
		P, Q, R := &projPoint{c: c}, &projPoint{c: c}, &projPoint{c: c}
		vfCoord(&P.X, m, x1*z1%M)
		vfCoord(&P.Y, m, y1*z1%M)
		vfCoord(&P.Z, m, z1)
		vfCoord(&Q.X, m, x2*z2%M)
		vfCoord(&Q.Y, m, y2*z2%M)
		vfCoord(&Q.Z, m, z2)
		switch p4 {
		case 0:
			R.Add(P, Q)
			vreach("end")
			nx, dx, ny, dy := vfLaw(x1, y1, x2, y2, a, d, M)
			vassert(dx != 0 && dy != 0, "the addition law is complete on this curve (denominators never vanish)")
			vassert(vfIs(&R.X, &R.Y, &R.Z, nx, dx, ny, dy, M), "projPoint.Add is the Edwards addition law")
		case 1:
			R.Sub(P, Q)
			vreach("end")
			nx, dx, ny, dy := vfLaw(x1, y1, (M-x2)%M, y2, a, d, M)
			vassert(vfIs(&R.X, &R.Y, &R.Z, nx, dx, ny, dy, M), "projPoint.Sub adds the negative")
		case 2:
			R.Set(P)
			R.double()
			vreach("end")
			nx, dx, ny, dy := vfLaw(x1, y1, x1, y1, a, d, M)
			vassert(vfIs(&R.X, &R.Y, &R.Z, nx, dx, ny, dy, M), "projPoint.double is the addition law with both operands equal")
		case 3:
			R.Null()
			S := &projPoint{c: c}
			S.Add(P, R)
			vreach("end")
			vassert(vfIs(&S.X, &S.Y, &S.Z, x1, 1, y1, 1, M), "P + O = P")
			S.Add(R, P)
			vassert(vfIs(&S.X, &S.Y, &S.Z, x1, 1, y1, 1, M), "O + P = P")
			N := &projPoint{c: c}
			N.Neg(P)
			S.Add(N, P)
			vassert(vfIs(&S.X, &S.Y, &S.Z, 0, 1, 1, 1, M), "(-P) + P = O")
			S.Sub(P, P)
			vassert(vfIs(&S.X, &S.Y, &S.Z, 0, 1, 1, 1, M), "P - P = O")
			R.double()
			vassert(vfIs(&R.X, &R.Y, &R.Z, 0, 1, 1, 1, M), "2 O = O")
		}
		return
	}
	c := &ExtendedCurve{}
	vfCoord(&c.a, m, a)
	vfCoord(&c.d, m, d)
	c.null.c = c
	vfCoord(&c.null.X, m, 0)
	vfCoord(&c.null.Y, m, 1)
	vfCoord(&c.null.Z, m, 1)
	vfCoord(&c.null.T, m, 0)
	P, Q, R := &extPoint{c: c}, &extPoint{c: c}, &extPoint{c: c}
	vfCoord(&P.X, m, x1*z1%M)
	vfCoord(&P.Y, m, y1*z1%M)
	vfCoord(&P.Z, m, z1)
	vfCoord(&P.T, m, x1*y1%M*z1%M)
	vfCoord(&Q.X, m, x2*z2%M)
	vfCoord(&Q.Y, m, y2*z2%M)
	vfCoord(&Q.Z, m, z2)
	vfCoord(&Q.T, m, x2*y2%M*z2%M)
	tOK := func(E *extPoint) bool {
		return E.T.V.Int.Int64()*E.Z.V.Int.Int64()%M == E.X.V.Int.Int64()*E.Y.V.Int.Int64()%M
	}
	switch p4 {
	case 0:
		R.Add(P, Q)
		vreach("end")
		nx, dx, ny, dy := vfLaw(x1, y1, x2, y2, a, d, M)
		vassert(vfIs(&R.X, &R.Y, &R.Z, nx, dx, ny, dy, M), "extPoint.Add is the Edwards addition law")
		vassert(tOK(R), "extPoint.Add keeps the invariant T Z = X Y")
	case 1:
		R.Sub(P, Q)
		vreach("end")
		nx, dx, ny, dy := vfLaw(x1, y1, (M-x2)%M, y2, a, d, M)
		vassert(vfIs(&R.X, &R.Y, &R.Z, nx, dx, ny, dy, M), "extPoint.Sub adds the negative")
		vassert(tOK(R), "extPoint.Sub keeps the invariant T Z = X Y")
	case 2:
		R.Set(P)
		R.double()
		vreach("end")
		nx, dx, ny, dy := vfLaw(x1, y1, x1, y1, a, d, M)
		vassert(vfIs(&R.X, &R.Y, &R.Z, nx, dx, ny, dy, M), "extPoint.double is the addition law with both operands equal")
		vassert(tOK(R), "extPoint.double keeps the invariant T Z = X Y")
	case 3:
		R.Null()
		S := &extPoint{c: c}
		S.Add(P, R)
		vreach("end")
		vassert(vfIs(&S.X, &S.Y, &S.Z, x1, 1, y1, 1, M) && tOK(S), "P + O = P")
		S.Add(R, P)
		vassert(vfIs(&S.X, &S.Y, &S.Z, x1, 1, y1, 1, M) && tOK(S), "O + P = P")
		N := &extPoint{c: c}
		N.Neg(P)
		vassert(tOK(N), "extPoint.Neg keeps the invariant T Z = X Y")
		S.Add(N, P)
		vassert(vfIs(&S.X, &S.Y, &S.Z, 0, 1, 1, 1, M) && tOK(S), "(-P) + P = O")
		S.Sub(P, P)
		vassert(vfIs(&S.X, &S.Y, &S.Z, 0, 1, 1, 1, M) && tOK(S), "P - P = O")
		R.double()
		vassert(vfIs(&R.X, &R.Y, &R.Z, 0, 1, 1, 1, M) && tOK(R), "2 O = O")
	}
}
