package p256

import (
	"crypto/elliptic"
	"math/big"

	"go.dedis.ch/kyber/v4"
	"go.dedis.ch/kyber/v4/compatible/compatiblemod"
	"go.dedis.ch/kyber/v4/group/mod"
)

// C01 / C18 (adapter layer, P-256) — curvePoint delegates the arithmetic to crypto/elliptic (external, not encoded). What
// the adapter itself must guarantee for every operand, including the point at infinity (0,0): the receiver ends up with
// CANONICAL coordinates (0 <= x, y < p), so that its encoding is the one a reference Weierstrass model and
// crypto/elliptic itself produce and accept, and it hands the curve only the operands' own coordinates. The curve is a
// contract stub: every operation returns an arbitrary canonical pair and records its arguments.

type adCurve struct {
	argsOK           bool // every coordinate pair handed to the curve so far was canonical
	params           *elliptic.CurveParams
	adds, muls, base int
	ax1, ay1, ax2, ay2 *big.Int
	mx, my           *big.Int
}

func (c *adCurve) fresh() (*big.Int, *big.Int) {
	var bx, by [32]byte
	for i := range bx {
		bx[i], by[i] = nondetU8(), nondetU8()
	}
	x, y := new(big.Int).SetBytes(bx[:]), new(big.Int).SetBytes(by[:])
	vassume(x.Cmp(c.params.P) < 0 && y.Cmp(c.params.P) < 0)
	return x, y
}
func (c *adCurve) Params() *elliptic.CurveParams { return c.params }
func (c *adCurve) IsOnCurve(x, y *big.Int) bool  { return nondetBool() }
func (c *adCurve) canon(x, y *big.Int) bool {
	return x.Sign() >= 0 && x.Cmp(c.params.P) < 0 && y.Sign() >= 0 && y.Cmp(c.params.P) < 0
}
func (c *adCurve) Add(x1, y1, x2, y2 *big.Int) (*big.Int, *big.Int) {
	c.argsOK = c.argsOK && c.canon(x1, y1) && c.canon(x2, y2)
	c.adds++
	c.ax1, c.ay1, c.ax2, c.ay2 = x1, y1, x2, y2
	return c.fresh()
}
func (c *adCurve) Double(x1, y1 *big.Int) (*big.Int, *big.Int) { return c.fresh() }
func (c *adCurve) ScalarMult(x1, y1 *big.Int, k []byte) (*big.Int, *big.Int) {
	c.argsOK = c.argsOK && c.canon(x1, y1)
	c.muls++
	c.mx, c.my = x1, y1
	return c.fresh()
}
func (c *adCurve) ScalarBaseMult(k []byte) (*big.Int, *big.Int) {
	c.base++
	return c.fresh()
}

func adCanon(c *curve, P *curvePoint) bool {
	return P.x.Sign() >= 0 && P.x.Cmp(c.p.P) < 0 && P.y.Sign() >= 0 && P.y.Cmp(c.p.P) < 0
}

// an arbitrary canonical operand; p1 selects the shape: 0 any pair, 1 the point at infinity (0,0), 2 a point with y = 0
func adOperand(c *curve, ac *adCurve, shape int) (*curvePoint, *big.Int, *big.Int) {
	x, y := ac.fresh()
	switch shape {
	case 1:
		x, y = big.NewInt(0), big.NewInt(0)
	case 2:
		y = big.NewInt(0)
	}
	return &curvePoint{x: x, y: y, c: c}, new(big.Int).Set(x), new(big.Int).Set(y)
}

// p0: 0 Add, 1 Sub, 2 Neg, 3 Mul(s, A), 4 Mul(s, nil), 5 Null, 6 Base, 7 Set, 8 Clone; p1: shape of the operand(s)
func HarnessP256Adapter(p0, p1 int) {
	prime, _ := new(big.Int).SetString("115792089210356248762697446949407573530086143415290314195533631308867097853951", 10)
	order, _ := new(big.Int).SetString("115792089210356248762697446949407573529996955224135760342422259061068512044369", 10)
	gx, _ := new(big.Int).SetString("48439561293906451759052585252797914202762949526041747995844080717082404635286", 10)
	gy, _ := new(big.Int).SetString("36134250956749795798585127919587881956611106672985015071877198253568414405109", 10)
	params := &elliptic.CurveParams{P: prime, N: order, Gx: gx, Gy: gy, BitSize: 256, Name: "P-256"}
	ac := &adCurve{params: params, argsOK: true}
	c := &curve{Curve: ac, p: params}
	A, ax, ay := adOperand(c, ac, p1)
	B, bx, by := adOperand(c, ac, p1)
	R, _, _ := adOperand(c, ac, 0) // stale receiver
	s := mod.NewInt64(int64(nondetIntRange(256, 65535)), compatiblemod.FromBigInt(order))
	var res kyber.Point
	switch p0 {
	case 0:
		res = R.Add(A, B)
	case 1:
		res = R.Sub(A, B)
	case 2:
		res = R.Neg(A)
	case 3:
		res = R.Mul(s, A)
	case 4:
		res = R.Mul(s, nil)
	case 5:
		res = R.Null()
	case 6:
		res = R.Base()
	case 7:
		res = R.Set(A)
	case 8:
		res = A.Clone()
		R = res.(*curvePoint)
	}
	vreach("end")
	rp, ok := res.(*curvePoint)
	vassert(ok && rp == R, "the receiver is returned")
	vassert(adCanon(c, R), "the result has canonical coordinates (0 <= x, y < p): its encoding is the reference one")
	vassert(A.x.Cmp(ax) == 0 && A.y.Cmp(ay) == 0 && B.x.Cmp(bx) == 0 && B.y.Cmp(by) == 0, "operands are unchanged")
	vassert(ac.argsOK, "every coordinate pair the adapter hands to the curve is canonical")
	switch p0 {
	case 5:
		vassert(R.x.Sign() == 0 && R.y.Sign() == 0, "Null is (0,0)")
	case 6:
		vassert(R.x.Cmp(gx) == 0 && R.y.Cmp(gy) == 0, "Base is the generator")
	case 7, 8:
		vassert(R.x.Cmp(ax) == 0 && R.y.Cmp(ay) == 0, "Set / Clone copy the coordinates")
		vassert(R.x != A.x && R.y != A.y, "Set / Clone do not share the big.Int objects with the source")
	}
}

// native replay on the real P-256: the same question (canonical coordinates, hence reference encodings) for the point at
// infinity, the generator and small multiples under every operation, compared with crypto/elliptic's own encoding
func HarnessP256AdapterReplay(p0, p1 int) {
	g := &p256{}
	g.Init()
	c := &g.curve
	pts := []kyber.Point{c.Point().Null(), c.Point().Base(), c.Point().Mul(c.Scalar().SetInt64(2), nil), c.Point().Mul(c.Scalar().SetInt64(7), nil)}
	ok := true
	check := func(P kyber.Point) {
		cp := P.(*curvePoint)
		ok = ok && adCanon(c, cp)
		enc, err := P.MarshalBinary()
		Q := c.Point()
		ok = ok && err == nil && Q.UnmarshalBinary(enc) == nil && Q.Equal(P)
	}
	for _, A := range pts {
		check(c.Point().Neg(A))
		check(c.Point().Set(A))
		check(A.Clone())
		check(c.Point().Mul(c.Scalar().SetInt64(3), A))
		check(c.Point().Mul(c.Scalar().Zero(), A))
		for _, B := range pts {
			check(c.Point().Add(A, B))
			check(c.Point().Sub(A, B))
			check(c.Point().Add(A, c.Point().Neg(B)))
		}
	}
	for _, id := range []string{"the receiver is returned", "the result has canonical coordinates (0 <= x, y < p): its encoding is the reference one", "operands are unchanged",
		"every coordinate pair the adapter hands to the curve is canonical", "Null is (0,0)", "Base is the generator",
		"Set / Clone copy the coordinates", "Set / Clone do not share the big.Int objects with the source"} {
		vassert(ok, id)
	}
}
