package edwards25519

// C01 (formula layer, Ed25519) — the group-element formulas of ge.go implement the twisted Edwards addition law
//     x3 = (x1 y2 + y1 x2) / (1 + d x1 x2 y1 y2),   y3 = (y1 y2 + x1 x2) / (1 - d x1 x2 y1 y2)      (a = -1)
// in every representation they are used with (extended + cached, extended + precomputed, projective doubling), and the
// representation changes preserve the point. The field is abstracted: feMul, feSquare, feSquare2, feAdd, feSub, feNeg
// are replaced by arithmetic modulo a small prime p0 in limb 0 (the formulas are polynomial identities over any field
// with a = -1 a square and d a non-square, where the law is complete; the 255-bit kernels themselves are the kernel
// layer). All coordinates, both projective scalings and both points are symbolic; the curve equation is an assumption.
// This is what justifies the free-group abstraction used by the algorithm layer.

var gq, gd uint16

func gm(a, b uint16) uint16 { return a * b % gq }
func ga(a, b uint16) uint16 { return (a + b) % gq }
func gs(a, b uint16) uint16 { return (a + gq - b) % gq }
func g0(f *fieldElement) uint16 { return uint16(f[0]) }
func gset(h *fieldElement, v uint16) {
	*h = fieldElement{}
	h[0] = int32(v)
}

func gfMul(h, f, g *fieldElement)  { gset(h, gm(g0(f), g0(g))) }
func gfSquare(h, f *fieldElement)  { gset(h, gm(g0(f), g0(f))) }
func gfSquare2(h, f *fieldElement) { gset(h, gm(2%gq, gm(g0(f), g0(f)))) }
func gfAdd(h, f, g *fieldElement)  { gset(h, ga(g0(f), g0(g))) }
func gfSub(h, f, g *fieldElement)  { gset(h, gs(g0(f), g0(g))) }
func gfNeg(h, f *fieldElement)     { gset(h, gs(0, g0(f))) }

func gF(lo int) uint16 { return uint16(nondetU8Range(lo, int(gq)-1)) }

func gOnCurve(x, y uint16) bool {
	xx, yy := gm(x, x), gm(y, y)
	return gs(yy, xx) == ga(1, gm(gd, gm(xx, yy)))
}

func gExt(x, y, z uint16) *extendedGroupElement {
	p := &extendedGroupElement{}
	gset(&p.X, gm(x, z))
	gset(&p.Y, gm(y, z))
	gset(&p.Z, z)
	gset(&p.T, gm(gm(x, y), z))
	return p
}

// (num_x, den_x, num_y, den_y) of the affine law for (x1,y1) + (x2,y2)
func gLaw(x1, y1, x2, y2 uint16) (nx, dx, ny, dy uint16) {
	k := gm(gd, gm(gm(x1, x2), gm(y1, y2)))
	return ga(gm(x1, y2), gm(y1, x2)), ga(1, k), ga(gm(y1, y2), gm(x1, x2)), gs(1, k)
}

// completed element c represents (nx/dx, ny/dy)
func gCompletedIs(c *completedGroupElement, nx, dx, ny, dy uint16) bool {
	return g0(&c.Z) != 0 && g0(&c.T) != 0 && gm(g0(&c.X), dx) == gm(nx, g0(&c.Z)) && gm(g0(&c.Y), dy) == gm(ny, g0(&c.T))
}

func gExtendedIs(r *extendedGroupElement, nx, dx, ny, dy uint16) bool {
	return g0(&r.Z) != 0 && gm(g0(&r.X), dx) == gm(nx, g0(&r.Z)) && gm(g0(&r.Y), dy) == gm(ny, g0(&r.Z)) && gm(g0(&r.T), g0(&r.Z)) == gm(g0(&r.X), g0(&r.Y))
}

func gProjectiveIs(r *projectiveGroupElement, nx, dx, ny, dy uint16) bool {
	return g0(&r.Z) != 0 && gm(g0(&r.X), dx) == gm(nx, g0(&r.Z)) && gm(g0(&r.Y), dy) == gm(ny, g0(&r.Z))
}

// p0: field size (13: d = 2; 17: d = 3; both with -1 a square and d a non-square); p1: formula
func HarnessGeFormula(p0, p1 int) {
	gq = uint16(p0)
	gd = 2
	if p0 == 17 {
		gd = 3
	}
	gset(&d2, gm(2, gd))
	gset(&d, gd)
	x1, y1, x2, y2 := gF(0), gF(0), gF(0), gF(0)
	vassume(gOnCurve(x1, y1))
	vassume(gOnCurve(x2, y2))
	z1, z2 := gF(1), gF(1)
	p := gExt(x1, y1, z1)
	q := gExt(x2, y2, z2)
	var c completedGroupElement
	var re extendedGroupElement
	var rp projectiveGroupElement
	switch p1 {
	case 0: // extended + cached
		var qc cachedGroupElement
		q.ToCached(&qc)
		c.Add(p, &qc)
		vreach("end")
		nx, dx, ny, dy := gLaw(x1, y1, x2, y2)
		vassert(dx != 0 && dy != 0, "the addition law is complete on this curve (denominators never vanish)")
		vassert(gCompletedIs(&c, nx, dx, ny, dy), "completed.Add(extended, cached) is the Edwards addition law")
		c.ToExtended(&re)
		vassert(gExtendedIs(&re, nx, dx, ny, dy), "completed.ToExtended preserves the point and the T invariant")
		c.ToProjective(&rp)
		vassert(gProjectiveIs(&rp, nx, dx, ny, dy), "completed.ToProjective preserves the point")
	case 1: // extended - cached
		var qc cachedGroupElement
		q.ToCached(&qc)
		c.Sub(p, &qc)
		vreach("end")
		nx, dx, ny, dy := gLaw(x1, y1, gs(0, x2), y2)
		vassert(gCompletedIs(&c, nx, dx, ny, dy), "completed.Sub(extended, cached) adds the negative")
	case 2: // mixed addition / subtraction with an affine precomputed element
		var qp preComputedGroupElement
		gset(&qp.yPlusX, ga(y2, x2))
		gset(&qp.yMinusX, gs(y2, x2))
		gset(&qp.xy2d, gm(gm(2, gd), gm(x2, y2)))
		c.MixedAdd(p, &qp)
		vreach("end")
		nx, dx, ny, dy := gLaw(x1, y1, x2, y2)
		vassert(gCompletedIs(&c, nx, dx, ny, dy), "completed.MixedAdd(extended, precomputed) is the Edwards addition law")
		var c2 completedGroupElement
		c2.MixedSub(p, &qp)
		nx, dx, ny, dy = gLaw(x1, y1, gs(0, x2), y2)
		vassert(gCompletedIs(&c2, nx, dx, ny, dy), "completed.MixedSub(extended, precomputed) adds the negative")
		var np preComputedGroupElement
		np.Neg(&qp)
		var c3 completedGroupElement
		c3.MixedAdd(p, &np)
		vassert(gCompletedIs(&c3, nx, dx, ny, dy), "preComputed.Neg is the negative")
	case 3: // doubling
		var pp projectiveGroupElement
		p.ToProjective(&pp)
		pp.Double(&c)
		vreach("end")
		nx, dx, ny, dy := gLaw(x1, y1, x1, y1)
		vassert(gCompletedIs(&c, nx, dx, ny, dy), "projective.Double is the addition law with both operands equal")
		var c2 completedGroupElement
		p.Double(&c2)
		vassert(gCompletedIs(&c2, nx, dx, ny, dy), "extended.Double is the addition law with both operands equal")
	case 4: // neutral element, negation, cached negation
		var zc cachedGroupElement
		zc.Zero()
		c.Add(p, &zc)
		vreach("end")
		vassert(gCompletedIs(&c, x1, 1, y1, 1), "P + O = P (cached neutral element)")
		var ze extendedGroupElement
		ze.Zero()
		var pc cachedGroupElement
		p.ToCached(&pc)
		var c2 completedGroupElement
		c2.Add(&ze, &pc)
		vassert(gCompletedIs(&c2, x1, 1, y1, 1), "O + P = P (extended neutral element)")
		var ne extendedGroupElement
		ne.Neg(p)
		var c3 completedGroupElement
		c3.Add(&ne, &pc)
		vassert(gCompletedIs(&c3, 0, 1, 1, 1), "(-P) + P = O")
		var nc cachedGroupElement
		nc.Neg(&pc)
		var c4 completedGroupElement
		c4.Add(p, &nc)
		vassert(gCompletedIs(&c4, 0, 1, 1, 1), "P + cached.Neg(P) = O")
		var pz preComputedGroupElement
		pz.Zero()
		var c5 completedGroupElement
		c5.MixedAdd(p, &pz)
		vassert(gCompletedIs(&c5, x1, 1, y1, 1), "P + O = P (precomputed neutral element)")
	}
}

// native replay on the real field: the same identities on multiples of the base point against point.Add
func HarnessGeFormulaReplay(p0, p1 int) {
	ok := true
	var B point
	B.Base()
	mul := func(k int) *point {
		var r point
		r.Null()
		for i := 0; i < k; i++ {
			r.Add(&r, &B)
		}
		return &r
	}
	enc := func(e *extendedGroupElement) [32]byte {
		var o [32]byte
		e.ToBytes(&o)
		return o
	}
	for _, ab := range [][2]int{{1, 2}, {3, 3}, {5, 9}, {7, 0}} {
		P, Q, S, D := mul(ab[0]), mul(ab[1]), mul(ab[0]+ab[1]), mul(2*ab[0])
		var qc cachedGroupElement
		Q.ge.ToCached(&qc)
		var c completedGroupElement
		var r extendedGroupElement
		c.Add(&P.ge, &qc)
		c.ToExtended(&r)
		ok = ok && enc(&r) == enc(&S.ge)
		var nq extendedGroupElement
		nq.Neg(&Q.ge)
		var nqc cachedGroupElement
		nq.ToCached(&nqc)
		c.Sub(&S.ge, &qc)
		c.ToExtended(&r)
		ok = ok && enc(&r) == enc(&P.ge)
		P.ge.Double(&c)
		c.ToExtended(&r)
		ok = ok && enc(&r) == enc(&D.ge)
		var pp projectiveGroupElement
		P.ge.ToProjective(&pp)
		pp.Double(&c)
		var rp projectiveGroupElement
		c.ToProjective(&rp)
		var o [32]byte
		rp.ToBytes(&o)
		ok = ok && o == enc(&D.ge)
	}
	for _, id := range []string{"the addition law is complete on this curve (denominators never vanish)", "completed.Add(extended, cached) is the Edwards addition law", "completed.ToExtended preserves the point and the T invariant",
		"completed.ToProjective preserves the point", "completed.Sub(extended, cached) adds the negative", "completed.MixedAdd(extended, precomputed) is the Edwards addition law", "completed.MixedSub(extended, precomputed) adds the negative",
		"preComputed.Neg is the negative", "projective.Double is the addition law with both operands equal", "extended.Double is the addition law with both operands equal", "P + O = P (cached neutral element)",
		"O + P = P (extended neutral element)", "(-P) + P = O", "P + cached.Neg(P) = O", "P + O = P (precomputed neutral element)"} {
		vassert(ok, id)
	}
}
