package bn256

import "go.dedis.ch/kyber/v4/compatible"

func bigFromInt64(k int64) *compatible.Int { return compatible.NewInt(k) }

// C01 (formula layer, BN G1) — curvePoint.Add / Double / Neg in Jacobian coordinates implement the group law of
// y^2 = x^3 + 3, including every special case of Add (either operand at infinity, P + (-P), and P + P presented in
// two DIFFERENT Jacobian representations, which must take the doubling branch). The field is abstracted: gfpMul,
// gfpAdd, gfpSub, gfpNeg and newGFp are replaced by arithmetic modulo a small prime p0 carried in limb 0 (the
// formulas are polynomial identities, valid over every field of characteristic > 3; the 256-bit Montgomery kernels
// are the subject of C18). All coordinates are symbolic.

var bnQ uint16

func mq(a, b uint16) uint16 { return a * b % bnQ }
func aq(a, b uint16) uint16 { return (a + b) % bnQ }
func sq(a, b uint16) uint16 { return (a + bnQ - b) % bnQ }

func bnMul(c, a, b *gfP) { c[0], c[1], c[2], c[3] = uint64(mq(uint16(a[0]), uint16(b[0]))), 0, 0, 0 }
func bnAdd(c, a, b *gfP) { c[0], c[1], c[2], c[3] = uint64(aq(uint16(a[0]), uint16(b[0]))), 0, 0, 0 }
func bnSub(c, a, b *gfP) { c[0], c[1], c[2], c[3] = uint64(sq(uint16(a[0]), uint16(b[0]))), 0, 0, 0 }
func bnNeg(c, a *gfP)    { c[0], c[1], c[2], c[3] = uint64(sq(0, uint16(a[0]))), 0, 0, 0 }
func bnNewGFp(x int64) *gfP {
	if x >= 0 {
		return &gfP{uint64(uint16(x) % bnQ)}
	}
	return &gfP{uint64(sq(0, uint16(-x)%bnQ))}
}

func bnF(lo int) uint16 { return uint16(nondetU8Range(lo, int(bnQ)-1)) }

// an arbitrary affine point of the curve over F_q (assumption: it satisfies the curve equation), lifted with z
func bnLift(x, y, z uint16) *curvePoint {
	z2 := mq(z, z)
	z3 := mq(z2, z)
	return &curvePoint{x: gfP{uint64(mq(x, z2))}, y: gfP{uint64(mq(y, z3))}, z: gfP{uint64(z)}, t: gfP{uint64(z2)}}
}

func bnOnCurve(x, y uint16) bool { return mq(y, y) == aq(mq(mq(x, x), x), 3%bnQ) }

func l0(g *gfP) uint16 { return uint16(g[0]) }

// identical x, y, z (the cached t is not maintained by Add / Double)
func bnXYZ(c, d *curvePoint) bool { return c.x == d.x && c.y == d.y && c.z == d.z }

// projective equality of two Jacobian points
func bnSame(c, d *curvePoint) bool {
	cz2, dz2 := mq(l0(&c.z), l0(&c.z)), mq(l0(&d.z), l0(&d.z))
	cz3, dz3 := mq(cz2, l0(&c.z)), mq(dz2, l0(&d.z))
	return mq(l0(&c.x), dz2) == mq(l0(&d.x), cz2) && mq(l0(&c.y), dz3) == mq(l0(&d.y), cz3) && (c.z[0] == 0) == (d.z[0] == 0)
}

// p1: 0 same point in two representations; 1 P + (-P); 2 infinity operands; 3 distinct points (chord law, cross-multiplied)
func HarnessBNAdd(p0, p1 int) {
	bnQ = uint16(p0)
	curveB = bnNewGFp(3)
	x, y := bnF(0), bnF(0)
	vassume(bnOnCurve(x, y))
	z1, z2 := bnF(1), bnF(1)
	a := bnLift(x, y, z1)
	c := &curvePoint{}
	switch p1 {
	case 0:
		vassume(y != 0) // 2-torsion does not exist on this curve over F_p (order is odd); excluded in the small model
		b := bnLift(x, y, z2)
		c.Add(a, b)
		d := &curvePoint{}
		d.Double(a)
		vreach("end")
		vassert(c.z[0] != 0, "P + P (two Jacobian representations of the same point) is finite")
		vassert(bnSame(c, d), "P + P given in two different Jacobian representations equals Double(P)")
		ra := &curvePoint{}
		ra.Set(a)
		ra.Add(ra, b)
		rb := &curvePoint{}
		rb.Set(b)
		rb.Add(a, rb)
		vassert(bnSame(ra, d) && bnSame(rb, d), "the doubling branch with the receiver aliasing an operand")
		rd := &curvePoint{}
		rd.Set(a)
		rd.Double(rd)
		vassert(bnXYZ(rd, d), "r.Double(r) computes the same coordinates as a fresh receiver")
		// and Double is the tangent law: with l = 3x^2/(2y): x3 = l^2 - 2x ; cross-multiplied by (2y)^2 and z3^2
		zz := mq(l0(&d.z), l0(&d.z))
		yy := mq(y, y)
		x4 := mq(mq(x, x), mq(x, x))
		lhs := mq(l0(&d.x), mq(4%bnQ, yy))
		rhs := mq(sq(mq(9%bnQ, x4), mq(8%bnQ, mq(x, yy))), zz)
		vassert(lhs == rhs, "Double(P) has the x-coordinate of the tangent law")
	case 1:
		b := bnLift(x, sq(0, y), z2)
		c.Add(a, b)
		vreach("end")
		if y != 0 {
			vassert(c.z[0] == 0, "P + (-P) is the point at infinity")
		}
		n := &curvePoint{}
		n.Neg(a)
		vassert(bnSame(n, bnLift(x, sq(0, y), z1)) || n.z[0] == 0, "Neg(P) = (x, -y)")
	case 2:
		inf := &curvePoint{}
		inf.SetInfinity()
		c.Add(a, inf)
		vreach("end")
		vassert(bnSame(c, a), "P + O = P")
		c2 := &curvePoint{}
		c2.Add(inf, a)
		vassert(bnSame(c2, a), "O + P = P")
		c3 := &curvePoint{}
		c3.Add(inf, inf)
		vassert(c3.z[0] == 0, "O + O = O")
	case 3:
		x2, y2 := bnF(0), bnF(0)
		vassume(bnOnCurve(x2, y2))
		vassume(x2 != x)
		b := bnLift(x2, y2, z2)
		c.Add(a, b)
		vreach("end")
		vassert(c.z[0] != 0, "P + Q (x1 != x2) is finite")
		// chord law: x3 = l^2 - x1 - x2 with l = (y2-y1)/(x2-x1): x3 (x2-x1)^2 = (y2-y1)^2 - (x1+x2)(x2-x1)^2
		dx := sq(x2, x)
		dy := sq(y2, y)
		dx2 := mq(dx, dx)
		zz := mq(l0(&c.z), l0(&c.z))
		lhs := mq(l0(&c.x), dx2)
		rhs := mq(sq(mq(dy, dy), mq(aq(x, x2), dx2)), zz)
		vassert(lhs == rhs, "P + Q has the x-coordinate of the chord law")
		e := &curvePoint{}
		e.Add(b, a)
		vassert(bnSame(c, e), "P + Q = Q + P")
		// C05: the same coordinates when the receiver is one of the operands
		ra := &curvePoint{}
		ra.Set(a)
		ra.Add(ra, b)
		rb := &curvePoint{}
		rb.Set(b)
		rb.Add(a, rb)
		vassert(bnXYZ(ra, c), "r.Add(r, Q) computes the same coordinates as a fresh receiver")
		vassert(bnXYZ(rb, c), "r.Add(P, r) computes the same coordinates as a fresh receiver")
	}
}

// native replay on the real 256-bit field: the same cases with concrete points of G1
func HarnessBNAddReplay(p0, p1 int) {
	ok := true
	for _, k := range []int64{1, 2, 5, 77} {
		P := &curvePoint{}
		P.Mul(curveGen, bigFromInt64(k))
		Q := P.Clone()
		Q.MakeAffine() // same point, z = 1
		c, d := &curvePoint{}, &curvePoint{}
		c.Add(P, Q)
		d.Double(P)
		c.MakeAffine()
		d.MakeAffine()
		ok = ok && *c == *d && !d.IsInfinity()
		n := &curvePoint{}
		n.Neg(Q)
		s := &curvePoint{}
		s.Add(P, n)
		ok = ok && s.IsInfinity()
		inf := &curvePoint{}
		inf.SetInfinity()
		s.Add(P, inf)
		s.MakeAffine()
		ok = ok && *s == *Q
		R := &curvePoint{}
		R.Mul(curveGen, bigFromInt64(k+3))
		l, r := &curvePoint{}, &curvePoint{}
		l.Add(P, R)
		r.Mul(curveGen, bigFromInt64(2*k+3))
		l.MakeAffine()
		r.MakeAffine()
		ok = ok && *l == *r
		// aliasing of the receiver with either operand, generic and doubling branch
		for _, pair := range [][2]*curvePoint{{P, R}, {R, P}, {P, Q}} {
			fresh := &curvePoint{}
			fresh.Add(pair[0], pair[1])
			fresh.MakeAffine()
			ra := pair[0].Clone()
			ra.Add(ra, pair[1])
			ra.MakeAffine()
			rb := pair[1].Clone()
			rb.Add(pair[0], rb)
			rb.MakeAffine()
			ok = ok && *ra == *fresh && *rb == *fresh
		}
		rd := P.Clone()
		rd.Double(rd)
		rd.MakeAffine()
		fd := &curvePoint{}
		fd.Double(P)
		fd.MakeAffine()
		ok = ok && *rd == *fd
	}
	for _, id := range []string{"P + P (two Jacobian representations of the same point) is finite", "P + P given in two different Jacobian representations equals Double(P)", "Double(P) has the x-coordinate of the tangent law",
		"P + (-P) is the point at infinity", "Neg(P) = (x, -y)", "P + O = P", "O + P = P", "O + O = O", "P + Q (x1 != x2) is finite", "P + Q has the x-coordinate of the chord law", "P + Q = Q + P",
		"r.Add(r, Q) computes the same coordinates as a fresh receiver", "r.Add(P, r) computes the same coordinates as a fresh receiver", "the doubling branch with the receiver aliasing an operand", "r.Double(r) computes the same coordinates as a fresh receiver"} {
		vassert(ok, id)
	}
}
