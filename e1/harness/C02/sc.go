package edwards25519

// C02 — Ed25519 scalar limb arithmetic (scAdd, scSub, scMul, scMulAdd, scReduce), verified in three
// pieces that meet at the limb interface (DESIGN.md 2.3/6):
//   Load : bytes -> limbs   (bit-vectors; run aborted right after the limb loads)
//   Core : limbs -> limbs   (integers with overflow obligations and product abstraction; limbs havocked
//                            at the first cut under exactly the bounds Load proves, run aborted before the byte stores)
//   Pack : limbs -> bytes   (bit-vectors; limbs havocked before the stores under the bounds Core proves)

const lStr = "7237005577332262213973186563042994240857116359379907606001950938285454250989"
const lm1Str = "7237005577332262213973186563042994240857116359379907606001950938285454250988"

// harness tables are local composite literals: package-level variables are not initialised by the executor
func limbName(i int) string {
	n := [24]string{"0", "1", "2", "3", "4", "5", "6", "7", "8", "9", "10", "11", "12", "13", "14", "15", "16", "17", "18", "19", "20", "21", "22", "23"}
	return n[i]
}

func scSym32() *[32]byte {
	var a [32]byte
	for i := range a {
		a[i] = nondetU8()
	}
	return &a
}

func scLE(b []byte) Z {
	v := zI64(0)
	for i := range b {
		v = zAdd(v, zShl(zU8(b[i]), 8*i))
	}
	return v
}

// value of n limbs captured at a cut: sum limb_i * 2^(21 i)
func scLimbs(prefix string, n int) Z {
	v := zI64(0)
	for i := 0; i < n; i++ {
		v = zAdd(v, zShl(zCut(prefix+limbName(i)), 21*i))
	}
	return v
}

// limb bounds that Load proves and Core assumes: 0 <= limb < 2^21, top limb < 2^topBits
func scLimbBounds(prefix string, n, topBits int) {
	for i := 0; i < n; i++ {
		v := cutI64(prefix + limbName(i))
		vassert(v >= 0, "limb >= 0")
		if i < n-1 {
			vassert(v < 1<<21, "limb < 2^21")
		} else {
			vassert(v < 1<<uint(topBits), "top limb bound")
		}
	}
}

// ---- Load pieces (bv)
func HarnessScLoad2() { // scAdd / scSub: operands a, c
	a, c := scSym32(), scSym32()
	var s [32]byte
	scAdd(&s, a, c)
	vreach("after loads")
	vassert(zEq(scLimbs("a", 12), scLE(a[:])), "limbs(a) == LE(a)")
	vassert(zEq(scLimbs("c", 12), scLE(c[:])), "limbs(c) == LE(c)")
	scLimbBounds("a", 12, 25)
	scLimbBounds("c", 12, 25)
}
func HarnessScSubLoad() {
	a, c := scSym32(), scSym32()
	var s [32]byte
	scSub(&s, a, c)
	vreach("after loads")
	vassert(zEq(scLimbs("a", 12), scLE(a[:])), "limbs(a) == LE(a)")
	vassert(zEq(scLimbs("c", 12), scLE(c[:])), "limbs(c) == LE(c)")
	scLimbBounds("a", 12, 25)
	scLimbBounds("c", 12, 25)
}
func HarnessScMulLoad() {
	a, b := scSym32(), scSym32()
	var s [32]byte
	scMul(&s, a, b)
	vreach("after loads")
	vassert(zEq(scLimbs("a", 12), scLE(a[:])), "limbs(a) == LE(a)")
	vassert(zEq(scLimbs("b", 12), scLE(b[:])), "limbs(b) == LE(b)")
	scLimbBounds("a", 12, 25)
	scLimbBounds("b", 12, 25)
}
func HarnessScMulAddLoad() {
	a, b, c := scSym32(), scSym32(), scSym32()
	var s [32]byte
	scMulAdd(&s, a, b, c)
	vreach("after loads")
	vassert(zEq(scLimbs("a", 12), scLE(a[:])), "limbs(a) == LE(a)")
	vassert(zEq(scLimbs("b", 12), scLE(b[:])), "limbs(b) == LE(b)")
	vassert(zEq(scLimbs("c", 12), scLE(c[:])), "limbs(c) == LE(c)")
	scLimbBounds("a", 12, 25)
	scLimbBounds("b", 12, 25)
	scLimbBounds("c", 12, 25)
}
func HarnessScReduceLoad() {
	var in [64]byte
	for i := range in {
		in[i] = nondetU8()
	}
	var out [32]byte
	scReduce(&out, &in)
	vreach("after loads")
	vassert(zEq(scLimbs("s", 24), scLE(in[:])), "limbs(s) == LE(s) (512 bits)")
	scLimbBounds("s", 24, 29)
}

// ---- Core pieces (int): inputs are irrelevant (limbs are havocked at the first cut)
func scCoreClaims(in Z) {
	out := scLimbs("s", 12)
	vreach("before stores")
	vassert(zCongruent(out, in, lStr), "core: sum(s_i 2^21i) == op(inputs) mod l")
	vassert(zLeConst(out, lm1Str), "core: result < l (canonical)")
	vassert(zGeConst(out, "0"), "core: result >= 0")
	scLimbBounds("s", 12, 25)
}
func HarnessScAddCore() {
	var s, a, c [32]byte
	scAdd(&s, &a, &c)
	scCoreClaims(zAdd(scLimbs("a", 12), scLimbs("c", 12)))
}
func HarnessScSubCore() {
	var s, a, c [32]byte
	scSub(&s, &a, &c)
	scCoreClaims(zSub(scLimbs("a", 12), scLimbs("c", 12)))
}
func HarnessScMulCore() {
	var s, a, b [32]byte
	scMul(&s, &a, &b)
	scCoreClaims(zMul(scLimbs("a", 12), scLimbs("b", 12)))
}
func HarnessScMulAddCore() {
	var s, a, b, c [32]byte
	scMulAdd(&s, &a, &b, &c)
	scCoreClaims(zAdd(zMul(scLimbs("a", 12), scLimbs("b", 12)), scLimbs("c", 12)))
}
func HarnessScReduceCore() {
	var out [32]byte
	var in [64]byte
	// the 24 input limbs are captured (havocked) under the names s0..s23; the final limbs are again s0..s11
	scReduce(&out, &in)
	scCoreClaims(scLimbs("ins", 24))
}

// ---- Pack pieces (bv): limbs havocked just before the stores
func scPackClaim(s []byte) {
	vreach("after stores")
	vassert(zEq(scLE(s), scLimbs("s", 12)), "pack: LE(bytes) == sum(s_i 2^21i)")
}
func HarnessScAddPack() {
	var s, a, c [32]byte
	scAdd(&s, &a, &c)
	scPackClaim(s[:])
}
func HarnessScSubPack() {
	var s, a, c [32]byte
	scSub(&s, &a, &c)
	scPackClaim(s[:])
}
func HarnessScMulPack() {
	var s, a, b [32]byte
	scMul(&s, &a, &b)
	scPackClaim(s[:])
}
func HarnessScMulAddPack() {
	var s, a, b, c [32]byte
	scMulAdd(&s, &a, &b, &c)
	scPackClaim(s[:])
}
func HarnessScReducePack() {
	var out [32]byte
	var in [64]byte
	scReduce(&out, &in)
	scPackClaim(out[:])
}

// ---- native replay of a core-piece model: rebuild the byte inputs from the limb values, run the real
// function and compare with math/big (only compiled into the native replay test; never executed symbolically)
func scReplayBytes(nlimbs, nbytes int) []byte {
	v := zI64(0)
	for i := 0; i < nlimbs; i++ {
		v = zAdd(v, zShl(zI64(nondetI64()), 21*i))
	}
	b := v.v.Bytes() // big endian
	out := make([]byte, nbytes)
	for i := 0; i < len(b) && i < nbytes; i++ {
		out[i] = b[len(b)-1-i]
	}
	vassume(len(b) <= nbytes)
	return out
}
func scReplayCheck(got []byte, want Z) {
	vassert(zCongruent(scLE(got), want, lStr), "core: sum(s_i 2^21i) == op(inputs) mod l")
	vassert(zLeConst(scLE(got), lm1Str), "core: result < l (canonical)")
}
func ReplayScAdd() {
	var s, a, c [32]byte
	copy(a[:], scReplayBytes(12, 32))
	copy(c[:], scReplayBytes(12, 32))
	scAdd(&s, &a, &c)
	scReplayCheck(s[:], zAdd(scLE(a[:]), scLE(c[:])))
}
func ReplayScSub() {
	var s, a, c [32]byte
	copy(a[:], scReplayBytes(12, 32))
	copy(c[:], scReplayBytes(12, 32))
	scSub(&s, &a, &c)
	scReplayCheck(s[:], zSub(scLE(a[:]), scLE(c[:])))
}
func ReplayScMul() {
	var s, a, b [32]byte
	copy(a[:], scReplayBytes(12, 32))
	copy(b[:], scReplayBytes(12, 32))
	scMul(&s, &a, &b)
	scReplayCheck(s[:], zMul(scLE(a[:]), scLE(b[:])))
}
func ReplayScMulAdd() {
	var s, a, b, c [32]byte
	copy(a[:], scReplayBytes(12, 32))
	copy(b[:], scReplayBytes(12, 32))
	copy(c[:], scReplayBytes(12, 32))
	scMulAdd(&s, &a, &b, &c)
	scReplayCheck(s[:], zAdd(zMul(scLE(a[:]), scLE(b[:])), scLE(c[:])))
}
func ReplayScReduce() {
	var out [32]byte
	var in [64]byte
	copy(in[:], scReplayBytes(24, 64))
	scReduce(&out, &in)
	scReplayCheck(out[:], scLE(in[:]))
}
