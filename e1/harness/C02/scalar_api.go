package edwards25519

import "math/big"

// C02 / C03 — the kyber.Scalar methods of the Ed25519 scalar that do not go through the limb kernels: SetBytes (input of
// ANY length, little endian, reduced modulo l), SetInt64 (every int64), Zero, One, Set, Clone. The result is always the
// canonical 32-byte encoding (value < l), so Equal (a byte comparison) coincides with equality of residues.
// math/big is the mathematical-integer model; the group order comes from the package's own primeOrder.

func saLE(b []byte) *big.Int {
	r := make([]byte, len(b))
	for i := range b {
		r[len(b)-1-i] = b[i]
	}
	return new(big.Int).SetBytes(r)
}

func saStale(s *scalar) {
	for i := range s.v {
		s.v[i] = nondetU8()
	}
}

// p0: input length
func HarnessScalarSetBytes(p0 int) {
	b := make([]byte, p0)
	for i := range b {
		b[i] = nondetU8()
	}
	var s scalar
	saStale(&s)
	r := s.SetBytes(b)
	vreach("end")
	rs, ok := r.(*scalar)
	vassert(ok && rs == &s, "SetBytes returns the receiver")
	L := primeOrder.ToBigInt()
	out := saLE(s.v[:])
	vassert(out.Cmp(L) < 0, "SetBytes: the result is canonical (value < l)")
	d := new(big.Int).Sub(saLE(b), out)
	d.Mod(d, L)
	vassert(d.Sign() == 0, "SetBytes: the result is the little-endian value of the input reduced modulo l")
}

// p0: 0 SetInt64 (all int64), 1 Zero, 2 One, 3 Set, 4 Clone
func HarnessScalarSmall(p0 int) {
	var s scalar
	saStale(&s)
	L := primeOrder.ToBigInt()
	switch p0 {
	case 0:
		v := nondetI64()
		s.SetInt64(v)
		vreach("end")
		out := saLE(s.v[:])
		vassert(out.Cmp(L) < 0, "SetInt64: the result is canonical (value < l)")
		d := new(big.Int).Sub(out, big.NewInt(v))
		d.Mod(d, L)
		vassert(d.Sign() == 0, "SetInt64: the result is congruent to the argument modulo l")
	case 1:
		s.Zero()
		vreach("end")
		vassert(saLE(s.v[:]).Sign() == 0, "Zero is 0")
	case 2:
		s.One()
		vreach("end")
		vassert(saLE(s.v[:]).Cmp(big.NewInt(1)) == 0, "One is 1")
	case 3, 4:
		var a scalar
		saStale(&a)
		old := a.v
		var c *scalar
		if p0 == 3 {
			c = s.Set(&a).(*scalar)
			vassert(c == &s, "Set returns the receiver")
		} else {
			c = a.Clone().(*scalar)
			vassert(c != &a, "Clone returns a new object")
		}
		vreach("end")
		vassert(c.v == old && a.v == old, "Set / Clone copy the 32 bytes and leave the source unchanged")
		c.v[0]++
		vassert(a.v == old, "the copy does not share storage with its source")
	}
}

// native replay: SetBytes / SetInt64 against math/big for every input length 0..96 and boundary patterns
func HarnessScalarAPIReplay(p0 int) {
	ok := true
	L := primeOrder.ToBigInt()
	check := func(b []byte) {
		var s scalar
		saStale(&s)
		s.SetBytes(b)
		want := new(big.Int).Mod(saLE(b), L)
		ok = ok && saLE(s.v[:]).Cmp(want) == 0
	}
	for n := 0; n <= 96; n++ {
		for _, pat := range []byte{0x00, 0xff, 0x01, 0x80} {
			b := make([]byte, n)
			for i := range b {
				b[i] = pat
			}
			check(b)
			if n > 0 {
				c := make([]byte, n)
				c[n-1] = pat | 1 // only the most significant byte set
				check(c)
			}
		}
	}
	for _, v := range []int64{0, 1, -1, 1 << 62, -(1 << 62), 9223372036854775807, -9223372036854775808} {
		var s scalar
		s.SetInt64(v)
		want := new(big.Int).Mod(big.NewInt(v), L)
		ok = ok && saLE(s.v[:]).Cmp(want) == 0
	}
	for _, id := range []string{"SetBytes returns the receiver", "SetBytes: the result is canonical (value < l)", "SetBytes: the result is the little-endian value of the input reduced modulo l",
		"SetInt64: the result is canonical (value < l)", "SetInt64: the result is congruent to the argument modulo l"} {
		vassert(ok, id)
	}
}
