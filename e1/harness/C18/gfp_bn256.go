package bn256

import "math/big"

// C18 / C01 — the pure-Go ("generic" build tag) field arithmetic of bn256 computes the same function as the
// reference model (integers mod p), i.e. the contract the assembly implementation is trusted to fulfil:
// for all a, b < p: gfpAdd = (a+b) mod p, gfpSub = (a-b) mod p, gfpNeg = (-a) mod p, results < p.

func gfZ(a *gfP) Z {
	v := zI64(0)
	for i := 0; i < 4; i++ {
		v = zAdd(v, zShl(zU64(a[i]), 64*i))
	}
	return v
}
func gfP2Z() Z {
	v := zI64(0)
	for i := 0; i < 4; i++ {
		v = zAdd(v, zShl(zU64(p2[i]), 64*i))
	}
	return v
}
func gfSym() *gfP {
	a := &gfP{}
	for i := 0; i < 4; i++ {
		a[i] = nondetU64()
	}
	return a
}
func gfLess(a, b Z) bool { return zLeConst(zSub(zSub(a, b), zI64(-1)), "0") } // a - b + 1 <= 0

func HarnessGfpAdd() {
	a, b, c := gfSym(), gfSym(), &gfP{}
	p := gfP2Z()
	vassume(gfLess(gfZ(a), p) && gfLess(gfZ(b), p))
	gfpAdd(c, a, b)
	vreach("end")
	s := zAdd(gfZ(a), gfZ(b))
	vassert(zEq(gfZ(c), s) || zEq(gfZ(c), zSub(s, p)), "gfpAdd: c == a+b or a+b-p")
	vassert(gfLess(gfZ(c), p), "gfpAdd: c < p")
}
func HarnessGfpSub() {
	a, b, c := gfSym(), gfSym(), &gfP{}
	p := gfP2Z()
	vassume(gfLess(gfZ(a), p) && gfLess(gfZ(b), p))
	gfpSub(c, a, b)
	vreach("end")
	d := zSub(gfZ(a), gfZ(b))
	vassert(zEq(gfZ(c), d) || zEq(gfZ(c), zAdd(d, p)), "gfpSub: c == a-b or a-b+p")
	vassert(gfLess(gfZ(c), p), "gfpSub: c < p")
}
func HarnessGfpNeg() {
	a, c := gfSym(), &gfP{}
	p := gfP2Z()
	vassume(gfLess(gfZ(a), p))
	gfpNeg(c, a)
	vreach("end")
	vassert(zEq(zAdd(gfZ(c), gfZ(a)), p) || (zEq(gfZ(a), zI64(0)) && zEq(gfZ(c), zI64(0))), "gfpNeg: c == p-a (0 for a == 0)")
	vassert(gfLess(gfZ(c), p), "gfpNeg: c < p")
}
func HarnessGfpCarry() {
	a := gfSym()
	a0 := *a
	head := nondetU64()
	vassume(head <= 1)
	p := gfP2Z()
	// value = head*2^256 + a, precondition value < 2p
	val := zAdd(zShl(zU64(head), 256), gfZ(a))
	vassume(gfLess(val, zAdd(p, p)))
	gfpCarry(a, head)
	vreach("end")
	_ = a0
	vassert(zEq(gfZ(a), val) || zEq(gfZ(a), zSub(val, p)), "gfpCarry: result == v or v-p")
	vassert(gfLess(gfZ(a), p), "gfpCarry: result < p")
}

// gfpMul, final stage (Montgomery reduction tail): with the two 512-bit products T = a*b and t = m*p and the quotient m
// arbitrary (mul / halfMul are recording stubs returning arbitrary values), constrained only by what Montgomery's
// method guarantees about them - the low 256 bits of T + t vanish and (T + t) / 2^256 < 2p - the result is
// (T + t) / 2^256 reduced modulo p; in particular the carry out of the 512-bit addition is not lost.
var c18MulOut [2][8]uint64
var c18MulCalls int

func c18Mul(a, b [4]uint64) [8]uint64 {
	var r [8]uint64
	for i := range r {
		r[i] = nondetU64()
	}
	if c18MulCalls < 2 {
		c18MulOut[c18MulCalls] = r
	}
	c18MulCalls++
	return r
}

func c18HalfMul(a, b [4]uint64) [4]uint64 {
	var r [4]uint64
	for i := range r {
		r[i] = nondetU64()
	}
	return r
}

func HarnessGfpMulTail() {
	a, b, c := gfSym(), gfSym(), &gfP{}
	gfpMul(c, a, b)
	vreach("end")
	vassert(c18MulCalls == 2, "gfpMul: two full products")
	T, t := c18MulOut[0], c18MulOut[1]
	var S [8]uint64
	var cin uint64
	for i := 0; i < 8; i++ {
		s1 := T[i] + t[i]
		var c1, c2 uint64
		if s1 < T[i] {
			c1 = 1
		}
		s2 := s1 + cin
		if s2 < s1 {
			c2 = 1
		}
		S[i] = s2
		cin = c1 | c2
	}
	vassume(S[0] == 0 && S[1] == 0 && S[2] == 0 && S[3] == 0)
	hi := zAdd(gfZ(&gfP{S[4], S[5], S[6], S[7]}), zShl(zU64(cin), 256))
	p := gfP2Z()
	vassume(gfLess(hi, zAdd(p, p)))
	vassert(zEq(gfZ(c), hi) || zEq(gfZ(c), zSub(hi, p)), "gfpMul: the result is (T + t) / 2^256 or that minus p (no carry is lost)")
	vassert(gfLess(gfZ(c), p), "gfpMul: the result is below p")
}

// native replay (pure-Go build): gfpMul against math/big on operands that make T + t overflow 2^512 (an unreduced,
// top-heavy first operand, as the decoders of this package let through) and on ordinary ones
func HarnessGfpMulTailReplay() {
	P := new(big.Int)
	for i := 3; i >= 0; i-- {
		P.Lsh(P, 64).Or(P, new(big.Int).SetUint64(p2[i]))
	}
	R := new(big.Int).Lsh(big.NewInt(1), 256)
	Rinv := new(big.Int).ModInverse(R, P)
	toBig := func(g *gfP) *big.Int {
		v := new(big.Int)
		for i := 3; i >= 0; i-- {
			v.Lsh(v, 64).Or(v, new(big.Int).SetUint64(g[i]))
		}
		return v
	}
	ok := true
	for k := uint64(0); k < 400; k++ {
		a := &gfP{^uint64(0) - 977*k, ^uint64(0) - k*k, ^uint64(0) - 3*k, ^uint64(0) - (k << 50)}
		for _, b := range []*gfP{r2, {1}, {5, 7, 11, 13}} {
			c := &gfP{}
			gfpMul(c, a, b)
			want := new(big.Int).Mul(toBig(a), toBig(b))
			want.Mul(want, Rinv).Mod(want, P)
			ok = ok && toBig(c).Cmp(want) == 0
		}
	}
	vassert(ok, "gfpMul: the result is (T + t) / 2^256 or that minus p (no carry is lost)")
	vassert(ok, "gfpMul: the result is below p")
	vassert(ok, "gfpMul: two full products")
}
