package bn254

// C18 / C01 — the pure-Go ("generic" build tag) field arithmetic of bn254 computes the same function as the
// reference model (integers mod p), i.e. the contract the assembly implementation is trusted to fulfil:
// for all a, b < p: gfpAdd = (a+b) mod p, gfpSub = (a-b) mod p, gfpNeg = (-a) mod p, results < p.

func gfZ(a *gfP) Z {
	v := zI64(0)
	for i := 0; i < 4; i++ {
		v = zAdd(v, zShl(zU64(a[i]), 64*i))
	}
	return v
}
func gfP2Z() Z {
	v := zI64(0)
	for i := 0; i < 4; i++ {
		v = zAdd(v, zShl(zU64(p2[i]), 64*i))
	}
	return v
}
func gfSym() *gfP {
	a := &gfP{}
	for i := 0; i < 4; i++ {
		a[i] = nondetU64()
	}
	return a
}
func gfLess(a, b Z) bool { return zLeConst(zSub(zSub(a, b), zI64(-1)), "0") } // a - b + 1 <= 0

func HarnessGfpAdd() {
	a, b, c := gfSym(), gfSym(), &gfP{}
	p := gfP2Z()
	vassume(gfLess(gfZ(a), p) && gfLess(gfZ(b), p))
	gfpAdd(c, a, b)
	vreach("end")
	s := zAdd(gfZ(a), gfZ(b))
	vassert(zEq(gfZ(c), s) || zEq(gfZ(c), zSub(s, p)), "gfpAdd: c == a+b or a+b-p")
	vassert(gfLess(gfZ(c), p), "gfpAdd: c < p")
}
func HarnessGfpSub() {
	a, b, c := gfSym(), gfSym(), &gfP{}
	p := gfP2Z()
	vassume(gfLess(gfZ(a), p) && gfLess(gfZ(b), p))
	gfpSub(c, a, b)
	vreach("end")
	d := zSub(gfZ(a), gfZ(b))
	vassert(zEq(gfZ(c), d) || zEq(gfZ(c), zAdd(d, p)), "gfpSub: c == a-b or a-b+p")
	vassert(gfLess(gfZ(c), p), "gfpSub: c < p")
}
func HarnessGfpNeg() {
	a, c := gfSym(), &gfP{}
	p := gfP2Z()
	vassume(gfLess(gfZ(a), p))
	gfpNeg(c, a)
	vreach("end")
	vassert(zEq(zAdd(gfZ(c), gfZ(a)), p) || (zEq(gfZ(a), zI64(0)) && zEq(gfZ(c), zI64(0))), "gfpNeg: c == p-a (0 for a == 0)")
	vassert(gfLess(gfZ(c), p), "gfpNeg: c < p")
}
func HarnessGfpCarry() {
	a := gfSym()
	a0 := *a
	head := nondetU64()
	vassume(head <= 1)
	p := gfP2Z()
	// value = head*2^256 + a, precondition value < 2p
	val := zAdd(zShl(zU64(head), 256), gfZ(a))
	vassume(gfLess(val, zAdd(p, p)))
	gfpCarry(a, head)
	vreach("end")
	_ = a0
	vassert(zEq(gfZ(a), val) || zEq(gfZ(a), zSub(val, p)), "gfpCarry: result == v or v-p")
	vassert(gfLess(gfZ(a), p), "gfpCarry: result < p")
}
