package bn256

// C03 — BN256 G1 encodings: MarshalBinary of an affine point is exactly the two 32-byte big-endian coordinates,
// decoding it yields the same coordinates and re-encoding is byte-identical; the point at infinity is 64 zero bytes
// and decodes to infinity. The Montgomery conversion (gfpMul by R^2 / by 1) is abstracted to the identity (it is a
// bijection on field elements; the multiplication kernel is assembly), membership is a stub answering true.

func c03Mont(c, a, b *gfP) { *c = *a }
func c03OnCurve(c *curvePoint) bool { return true }

func HarnessBNG1Marshal() {
	P := newPointG1()
	for i := 0; i < 4; i++ {
		P.g.x[i] = nondetU64()
		P.g.y[i] = nondetU64()
	}
	P.g.z = gfP{1}
	P.g.t = gfP{1}
	vassume(!(P.g.x == gfP{0} && P.g.y == gfP{0}))
	enc, err := P.MarshalBinary()
	vreach("end")
	vassert(err == nil && len(enc) == 64 && P.MarshalSize() == 64, "G1.MarshalBinary: exactly MarshalSize = 64 bytes")
	ok := len(enc) == 64
	for w := 0; ok && w < 4; w++ {
		var xv, yv uint64
		for b := 0; b < 8; b++ {
			xv = xv<<8 | uint64(enc[8*w+b])
			yv = yv<<8 | uint64(enc[32+8*w+b])
		}
		ok = ok && xv == P.g.x[3-w] && yv == P.g.y[3-w]
	}
	vassert(ok, "G1.MarshalBinary: x then y, 32 bytes each, big endian")
	Q := newPointG1()
	Q.g.x, Q.g.y = gfP{7, 7, 7, 7}, gfP{9, 9, 9, 9} // stale contents
	derr := Q.UnmarshalBinary(enc)
	vassert(derr == nil && Q.g.x == P.g.x && Q.g.y == P.g.y && Q.g.z == gfP{1}, "G1: decoding the encoding yields the same affine point")
	enc2, _ := Q.MarshalBinary()
	same := len(enc2) == len(enc)
	for i := 0; same && i < len(enc); i++ {
		same = enc[i] == enc2[i]
	}
	vassert(same, "G1: re-encoding is byte-identical")
	vassert(P.g.z == gfP{1}, "G1.MarshalBinary does not change the point")
	// infinity
	I := newPointG1()
	I.Null()
	ie, _ := I.MarshalBinary()
	zero := len(ie) == 64
	for i := 0; zero && i < 64; i++ {
		zero = ie[i] == 0
	}
	vassert(zero, "G1: the point at infinity encodes as 64 zero bytes")
	J := newPointG1()
	J.g.z = gfP{1}
	vassert(J.UnmarshalBinary(ie) == nil && J.g.IsInfinity(), "G1: 64 zero bytes decode to the point at infinity")
}

// Equal on G1: two values are Equal iff their encodings are identical - in particular EVERY representation of the point
// at infinity (z = 0, arbitrary x, y, t - what arithmetic such as P - P leaves behind) equals every other one and Null(),
// and an affine point equals itself, differs from infinity and from a point with another coordinate.
func HarnessBNG1Equal(p0 int) {
	P, Q := newPointG1(), newPointG1()
	for i := 0; i < 4; i++ {
		P.g.x[i], P.g.y[i], P.g.t[i] = nondetU64(), nondetU64(), nondetU64()
		Q.g.x[i], Q.g.y[i], Q.g.t[i] = nondetU64(), nondetU64(), nondetU64()
	}
	switch p0 {
	case 0: // two arbitrary representations of infinity
		P.g.z, Q.g.z = gfP{0}, gfP{0}
		vreach("end")
		vassert(P.Equal(Q) && Q.Equal(P), "two representations of the point at infinity are Equal")
		N := newPointG1()
		N.Null()
		vassert(P.Equal(N) && N.Equal(P), "a representation of infinity left by arithmetic equals Null()")
	case 1: // affine point against infinity and against itself
		P.g.z, P.g.t = gfP{1}, gfP{1}
		vassume(!(P.g.x == gfP{0} && P.g.y == gfP{0}))
		Q.g.z = gfP{0}
		vreach("end")
		vassert(!P.Equal(Q) && !Q.Equal(P), "an affine point is not Equal to the point at infinity")
		vassert(P.Equal(P), "a point equals itself")
		R := newPointG1()
		R.g.x, R.g.y, R.g.z, R.g.t = P.g.x, P.g.y, gfP{1}, gfP{1}
		vassert(P.Equal(R), "two points with the same affine coordinates are Equal")
		R.g.y[0] ^= 1
		vassert(!P.Equal(R), "points with different coordinates are not Equal")
	}
}

// native replay: identities reached by arithmetic (real field code) against Null() and against each other
func HarnessBNG1EqualReplay(p0 int) {
	ok := true
	B := newPointG1()
	B.Base()
	N := newPointG1()
	N.Null()
	D := newPointG1()
	D.Add(B, B)
	ids := []*pointG1{newPointG1(), newPointG1(), newPointG1()}
	ids[0].Sub(B, B)
	ids[1].Add(D, newPointG1().Neg(D))
	ids[2].Sub(D, D)
	for _, a := range ids {
		ea, _ := a.MarshalBinary()
		en, _ := N.MarshalBinary()
		ok = ok && string(ea) == string(en) && a.Equal(N) && N.Equal(a) && !a.Equal(B) && !B.Equal(a)
		for _, b := range ids {
			ok = ok && a.Equal(b)
		}
	}
	ok = ok && B.Equal(B) && !B.Equal(D) && D.Equal(newPointG1().Add(B, B))
	for _, id := range []string{"two representations of the point at infinity are Equal", "a representation of infinity left by arithmetic equals Null()", "an affine point is not Equal to the point at infinity",
		"a point equals itself", "two points with the same affine coordinates are Equal", "points with different coordinates are not Equal"} {
		vassert(ok, id)
	}
}
