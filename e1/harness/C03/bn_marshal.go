package bn256

// C03 — BN256 G1 encodings: MarshalBinary of an affine point is exactly the two 32-byte big-endian coordinates,
// decoding it yields the same coordinates and re-encoding is byte-identical; the point at infinity is 64 zero bytes
// and decodes to infinity. The Montgomery conversion (gfpMul by R^2 / by 1) is abstracted to the identity (it is a
// bijection on field elements; the multiplication kernel is assembly), membership is a stub answering true.

func c03Mont(c, a, b *gfP) { *c = *a }
func c03OnCurve(c *curvePoint) bool { return true }

func HarnessBNG1Marshal() {
	P := newPointG1()
	for i := 0; i < 4; i++ {
		P.g.x[i] = nondetU64()
		P.g.y[i] = nondetU64()
	}
	P.g.z = gfP{1}
	P.g.t = gfP{1}
	vassume(!(P.g.x == gfP{0} && P.g.y == gfP{0}))
	enc, err := P.MarshalBinary()
	vreach("end")
	vassert(err == nil && len(enc) == 64 && P.MarshalSize() == 64, "G1.MarshalBinary: exactly MarshalSize = 64 bytes")
	ok := len(enc) == 64
	for w := 0; ok && w < 4; w++ {
		var xv, yv uint64
		for b := 0; b < 8; b++ {
			xv = xv<<8 | uint64(enc[8*w+b])
			yv = yv<<8 | uint64(enc[32+8*w+b])
		}
		ok = ok && xv == P.g.x[3-w] && yv == P.g.y[3-w]
	}
	vassert(ok, "G1.MarshalBinary: x then y, 32 bytes each, big endian")
	Q := newPointG1()
	Q.g.x, Q.g.y = gfP{7, 7, 7, 7}, gfP{9, 9, 9, 9} // stale contents
	derr := Q.UnmarshalBinary(enc)
	vassert(derr == nil && Q.g.x == P.g.x && Q.g.y == P.g.y && Q.g.z == gfP{1}, "G1: decoding the encoding yields the same affine point")
	enc2, _ := Q.MarshalBinary()
	same := len(enc2) == len(enc)
	for i := 0; same && i < len(enc); i++ {
		same = enc[i] == enc2[i]
	}
	vassert(same, "G1: re-encoding is byte-identical")
	vassert(P.g.z == gfP{1}, "G1.MarshalBinary does not change the point")
	// infinity
	I := newPointG1()
	I.Null()
	ie, _ := I.MarshalBinary()
	zero := len(ie) == 64
	for i := 0; zero && i < 64; i++ {
		zero = ie[i] == 0
	}
	vassert(zero, "G1: the point at infinity encodes as 64 zero bytes")
	J := newPointG1()
	J.g.z = gfP{1}
	vassert(J.UnmarshalBinary(ie) == nil && J.g.IsInfinity(), "G1: 64 zero bytes decode to the point at infinity")
}
