package marshalling

import (
	"crypto/cipher"
	"errors"
	"io"

	"go.dedis.ch/kyber/v4"
	"go.dedis.ch/kyber/v4/compatible/compatiblemod"
)

// C03 (E1 part) — the generic stream wrappers carry exactly the bytes of MarshalBinary / hand exactly
// MarshalSize bytes to UnmarshalBinary; short reads are errors.

type fakePoint struct {
	enc   [5]byte
	got   [5]byte
	gotN  int
	calls int
}

func (p *fakePoint) MarshalBinary() ([]byte, error) { return append([]byte{}, p.enc[:]...), nil }
func (p *fakePoint) UnmarshalBinary(b []byte) error {
	p.calls++
	p.gotN = len(b)
	copy(p.got[:], b)
	return nil
}
func (p *fakePoint) MarshalSize() int                           { return 5 }
func (p *fakePoint) String() string                             { return "" }
func (p *fakePoint) MarshalTo(w io.Writer) (int, error)         { return 0, nil }
func (p *fakePoint) UnmarshalFrom(r io.Reader) (int, error)     { return 0, nil }
func (p *fakePoint) Equal(kyber.Point) bool                     { return false }
func (p *fakePoint) Null() kyber.Point                          { return p }
func (p *fakePoint) Base() kyber.Point                          { return p }
func (p *fakePoint) Pick(cipher.Stream) kyber.Point             { return p }
func (p *fakePoint) Set(kyber.Point) kyber.Point                { return p }
func (p *fakePoint) Clone() kyber.Point                         { return p }
func (p *fakePoint) EmbedLen() int                              { return 0 }
func (p *fakePoint) Embed([]byte, cipher.Stream) kyber.Point    { return p }
func (p *fakePoint) Data() ([]byte, error)                      { return nil, nil }
func (p *fakePoint) Add(a, b kyber.Point) kyber.Point           { return p }
func (p *fakePoint) Sub(a, b kyber.Point) kyber.Point           { return p }
func (p *fakePoint) Neg(a kyber.Point) kyber.Point              { return p }
func (p *fakePoint) Mul(s kyber.Scalar, q kyber.Point) kyber.Point { return p }

type recWriter struct {
	buf [16]byte
	n   int
}

func (w *recWriter) Write(b []byte) (int, error) {
	for i := range b {
		if w.n < len(w.buf) {
			w.buf[w.n] = b[i]
			w.n++
		}
	}
	return len(b), nil
}

// a reader that delivers `avail` bytes, at most `chunk` per call
type chunkReader struct {
	data  [8]byte
	avail int
	chunk int
	pos   int
}

func (r *chunkReader) Read(b []byte) (int, error) {
	if r.pos >= r.avail {
		return 0, io.EOF
	}
	n := 0
	for n < len(b) && n < r.chunk && r.pos < r.avail {
		b[n] = r.data[r.pos]
		n++
		r.pos++
	}
	return n, nil
}

var errStub = errors.New("x")

func HarnessPointMarshalTo() {
	p := &fakePoint{}
	for i := range p.enc {
		p.enc[i] = nondetU8()
	}
	w := &recWriter{}
	n, err := PointMarshalTo(p, w)
	vreach("returned")
	vassert(err == nil && n == 5, "PointMarshalTo: writes MarshalSize bytes")
	vassert(w.n == 5, "PointMarshalTo: exactly the encoding is written")
	for i := 0; i < 5; i++ {
		vassert(w.buf[i] == p.enc[i], "PointMarshalTo: the bytes on the stream are the bytes of MarshalBinary")
	}
}

// p0: bytes available on the stream, p1: maximal chunk per Read
func HarnessPointUnmarshalFrom(p0, p1 int) {
	r := &chunkReader{avail: p0, chunk: p1}
	for i := range r.data {
		r.data[i] = nondetU8()
	}
	p := &fakePoint{}
	n, err := PointUnmarshalFrom(p, r)
	vreach("returned")
	if p0 < 5 {
		vassert(err != nil, "PointUnmarshalFrom: a short stream is an error")
		vassert(p.calls == 0, "PointUnmarshalFrom: UnmarshalBinary is not called on a short read")
		return
	}
	vassert(err == nil && n == 5, "PointUnmarshalFrom: reads MarshalSize bytes")
	vassert(p.calls == 1 && p.gotN == 5, "PointUnmarshalFrom: UnmarshalBinary gets exactly MarshalSize bytes")
	for i := 0; i < 5; i++ {
		vassert(p.got[i] == r.data[i], "PointUnmarshalFrom: the bytes handed to UnmarshalBinary are the bytes of the stream")
	}
	vassert(r.pos == 5, "PointUnmarshalFrom: no byte beyond the encoding is consumed")
}

// ---- the scalar wrappers, same contract
type fakeScalar struct {
	enc   [5]byte
	got   [5]byte
	gotN  int
	calls int
}

func (p *fakeScalar) MarshalBinary() ([]byte, error) { return append([]byte{}, p.enc[:]...), nil }
func (p *fakeScalar) UnmarshalBinary(b []byte) error {
	p.calls++
	p.gotN = len(b)
	copy(p.got[:], b)
	return nil
}
func (p *fakeScalar) MarshalSize() int                        { return 5 }
func (p *fakeScalar) String() string                          { return "" }
func (p *fakeScalar) MarshalTo(w io.Writer) (int, error)      { return 0, nil }
func (p *fakeScalar) UnmarshalFrom(r io.Reader) (int, error)  { return 0, nil }
func (p *fakeScalar) Equal(kyber.Scalar) bool                 { return false }
func (p *fakeScalar) Set(kyber.Scalar) kyber.Scalar           { return p }
func (p *fakeScalar) Clone() kyber.Scalar                     { return p }
func (p *fakeScalar) SetInt64(int64) kyber.Scalar             { return p }
func (p *fakeScalar) Zero() kyber.Scalar                      { return p }
func (p *fakeScalar) Add(a, b kyber.Scalar) kyber.Scalar      { return p }
func (p *fakeScalar) Sub(a, b kyber.Scalar) kyber.Scalar      { return p }
func (p *fakeScalar) Neg(a kyber.Scalar) kyber.Scalar         { return p }
func (p *fakeScalar) One() kyber.Scalar                       { return p }
func (p *fakeScalar) Mul(a, b kyber.Scalar) kyber.Scalar      { return p }
func (p *fakeScalar) Div(a, b kyber.Scalar) kyber.Scalar      { return p }
func (p *fakeScalar) Inv(a kyber.Scalar) kyber.Scalar         { return p }
func (p *fakeScalar) Pick(cipher.Stream) kyber.Scalar         { return p }
func (p *fakeScalar) SetBytes([]byte) kyber.Scalar            { return p }
func (p *fakeScalar) ByteOrder() kyber.ByteOrder              { return kyber.LittleEndian }
func (p *fakeScalar) GroupOrder() *compatiblemod.Mod          { return nil }

func HarnessScalarMarshalTo() {
	p := &fakeScalar{}
	for i := range p.enc {
		p.enc[i] = nondetU8()
	}
	w := &recWriter{}
	n, err := ScalarMarshalTo(p, w)
	vreach("returned")
	vassert(err == nil && n == 5, "ScalarMarshalTo: writes MarshalSize bytes")
	vassert(w.n == 5, "ScalarMarshalTo: exactly the encoding is written")
	for i := 0; i < 5; i++ {
		vassert(w.buf[i] == p.enc[i], "ScalarMarshalTo: the bytes on the stream are the bytes of MarshalBinary")
	}
}

// p0: bytes available on the stream, p1: maximal chunk per Read
func HarnessScalarUnmarshalFrom(p0, p1 int) {
	r := &chunkReader{avail: p0, chunk: p1}
	for i := range r.data {
		r.data[i] = nondetU8()
	}
	p := &fakeScalar{}
	n, err := ScalarUnmarshalFrom(p, r)
	vreach("returned")
	if p0 < 5 {
		vassert(err != nil, "ScalarUnmarshalFrom: a short stream is an error")
		vassert(p.calls == 0, "ScalarUnmarshalFrom: UnmarshalBinary is not called on a short read")
		return
	}
	vassert(err == nil && n == 5, "ScalarUnmarshalFrom: reads MarshalSize bytes")
	vassert(p.calls == 1 && p.gotN == 5, "ScalarUnmarshalFrom: UnmarshalBinary gets exactly MarshalSize bytes")
	for i := 0; i < 5; i++ {
		vassert(p.got[i] == r.data[i], "ScalarUnmarshalFrom: the bytes handed to UnmarshalBinary are the bytes of the stream")
	}
	vassert(r.pos == 5, "ScalarUnmarshalFrom: no byte beyond the encoding is consumed")
}
