package bn254

// C03 / C04 — bn254 gfP.Unmarshal: the 32 big-endian bytes are loaded into the four limbs and accepted exactly when the
// value is below the field modulus p (every canonical coordinate encoding decodes; p and everything above is refused).
// All 2^256 inputs, bit-vector mode.

func HarnessBN254GfpUnmarshal() {
	var in [32]byte
	for i := range in {
		in[i] = nondetU8()
	}
	var e gfP
	err := e.Unmarshal(in[:])
	vreach("returned")
	// reference: limbs and a borrow-chain comparison with p, written independently
	var limb [4]uint64
	for w := 0; w < 4; w++ {
		var v uint64
		for b := 0; b < 8; b++ {
			v = v<<8 | uint64(in[8*w+b])
		}
		limb[3-w] = v
	}
	var borrow uint64
	for i := 0; i < 4; i++ {
		d := limb[i] - p2[i] - borrow
		// borrow out of limb[i] - p2[i] - borrow
		if limb[i] < p2[i] || (limb[i] == p2[i] && borrow == 1) {
			borrow = 1
		} else {
			borrow = 0
		}
		_ = d
	}
	below := borrow == 1
	vassert((err == nil) == below, "gfP.Unmarshal accepts exactly the values below the field modulus")
	if err == nil {
		vassert(e == gfP(limb), "gfP.Unmarshal loads the big-endian bytes into the limbs")
	}
}
