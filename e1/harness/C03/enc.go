package edwards25519

import "go.dedis.ch/kyber/v4"

// C03 (E1 part) — Ed25519 encodings: scalar.UnmarshalBinary carries exactly the 32 bytes; point.Equal is equality of
// all 32 encoding bytes (the encoder ToBytes is stubbed here and verified separately: feToBytes canonical).

func HarnessScalarUnmarshal(p0 int) {
	buf := make([]byte, p0)
	for i := range buf {
		buf[i] = nondetU8()
	}
	var s scalar
	for i := range s.v {
		s.v[i] = nondetU8()
	}
	old := s.v
	err := s.UnmarshalBinary(buf)
	vreach("returned")
	if p0 != 32 {
		vassert(err != nil, "scalar.UnmarshalBinary: wrong length refused")
		vassert(s.v == old, "scalar.UnmarshalBinary: a refused input leaves the scalar unchanged")
		return
	}
	vassert(err == nil, "scalar.UnmarshalBinary: 32 bytes accepted")
	for i := 0; i < 32; i++ {
		vassert(s.v[i] == buf[i], "scalar.UnmarshalBinary: the value is exactly the 32 little-endian bytes")
	}
	vassert(s.MarshalSize() == 32, "scalar.MarshalSize is 32")
}

// two encodings served by the ToBytes stub in call order
var c03Enc [2][32]byte
var c03Calls int

func c03ToBytes(p *extendedGroupElement, s *[32]byte) {
	k := c03Calls & 1
	c03Calls++
	for i := range s {
		s[i] = c03Enc[k][i]
	}
}

func HarnessPointEqual() {
	for k := 0; k < 2; k++ {
		for i := 0; i < 32; i++ {
			c03Enc[k][i] = nondetU8()
		}
	}
	var P, Q point
	got := P.Equal(kyber.Point(&Q))
	vreach("returned")
	want := true
	for i := 0; i < 32; i++ {
		want = want && c03Enc[0][i] == c03Enc[1][i]
	}
	vassert(got == want, "point.Equal <=> the two 32-byte encodings are identical")
	vassert(P.MarshalSize() == 32, "point.MarshalSize is 32")
}
