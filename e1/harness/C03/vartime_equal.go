package edwards25519vartime

import (
	"go.dedis.ch/kyber/v4/compatible/compatiblemod"
	"go.dedis.ch/kyber/v4/group/mod"
)

// C03 — Equal of the variable-time Edwards points (projective and extended coordinates) is equality of the AFFINE
// point, hence of the encoding (which serialises the affine y and the sign of the affine x): for all coordinates over
// a small prime field (p0), all non-zero Z.

func c03Coord(i *mod.Int, m *compatiblemod.Mod, p0 int, lo int) int64 {
	v := int64(nondetIntRange(lo, p0-1))
	i.Init64(v, m)
	return v
}

// p1: 0 projPoint, 1 extPoint
func HarnessVartimeEqual(p0, p1 int) {
	m := compatiblemod.NewInt(int64(p0))
	M := int64(p0)
	var got bool
	var x1, y1, z1, x2, y2, z2 int64
	if p1 == 0 {
		P, Q := &projPoint{}, &projPoint{}
		x1, y1, z1 = c03Coord(&P.X, m, p0, 0), c03Coord(&P.Y, m, p0, 0), c03Coord(&P.Z, m, p0, 1)
		x2, y2, z2 = c03Coord(&Q.X, m, p0, 0), c03Coord(&Q.Y, m, p0, 0), c03Coord(&Q.Z, m, p0, 1)
		got = P.Equal(Q)
	} else {
		P, Q := &extPoint{}, &extPoint{}
		x1, y1, z1 = c03Coord(&P.X, m, p0, 0), c03Coord(&P.Y, m, p0, 0), c03Coord(&P.Z, m, p0, 1)
		x2, y2, z2 = c03Coord(&Q.X, m, p0, 0), c03Coord(&Q.Y, m, p0, 0), c03Coord(&Q.Z, m, p0, 1)
		c03Coord(&P.T, m, p0, 0)
		c03Coord(&Q.T, m, p0, 0)
		got = P.Equal(Q)
	}
	vreach("end")
	// affine equality x1/z1 == x2/z2 and y1/z1 == y2/z2 over the prime field, cross-multiplied (z1, z2 != 0)
	want := (x1*z2)%M == (x2*z1)%M && (y1*z2)%M == (y2*z1)%M
	vassert(got == want, "Equal <=> the affine points (hence the encodings) are equal")
}
