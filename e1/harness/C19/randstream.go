package random

import (
	"hash"
	"io"

	"go.dedis.ch/kyber/v4"
)

// C19 (E1 part) — the stream built from several entropy readers is a function of ALL the bytes it consumed: what goes
// into the seed hash is the concatenation, in reader order, of every byte each reader delivered (32 from a healthy
// reader, the n < 32 delivered by a short or failing one); nothing more is read. sha256 and the BLAKE2 expander are
// replaced by recorders (the hash functions are outside the claim).

type fkHash struct {
	buf [200]byte
	n   int
}

var fkLastHash *fkHash
var fkSeed []byte

func (h *fkHash) Write(p []byte) (int, error) {
	for _, b := range p {
		if h.n < len(h.buf) {
			h.buf[h.n] = b
		}
		h.n++
	}
	return len(p), nil
}
func (h *fkHash) Sum(b []byte) []byte { return append(b, make([]byte, 32)...) }
func (h *fkHash) Reset()              { h.n = 0 }
func (h *fkHash) Size() int           { return 32 }
func (h *fkHash) BlockSize() int      { return 64 }

func fkSha256New() hash.Hash {
	h := &fkHash{}
	fkLastHash = h
	return h
}

type fkXof struct{}

func (fkXof) Write(p []byte) (int, error)  { return len(p), nil }
func (fkXof) Read(p []byte) (int, error)   { return len(p), nil }
func (fkXof) XORKeyStream(dst, src []byte) { copy(dst, src) }
func (fkXof) Reseed()                      {}
func (fkXof) Clone() kyber.XOF             { return fkXof{} }
func (fkXof) Reset()                       {}

func fkXofNew(seed []byte) kyber.XOF {
	fkSeed = seed
	return fkXof{}
}

type c19Reader struct {
	data  [40]byte
	avail int
	pos   int
}

func (r *c19Reader) Read(b []byte) (int, error) {
	if r.pos >= r.avail {
		return 0, io.ErrUnexpectedEOF
	}
	n := 0
	for n < len(b) && r.pos < r.avail {
		b[n] = r.data[r.pos]
		n++
		r.pos++
	}
	return n, nil
}

// p0, p1, p2: bytes available from reader 0, 1, 2 (-1: reader not present)
func HarnessRandStream(p0, p1, p2 int) {
	var rs []*c19Reader
	var readers []io.Reader
	for _, a := range []int{p0, p1, p2} {
		if a < 0 {
			continue
		}
		r := &c19Reader{avail: a}
		for i := range r.data {
			r.data[i] = nondetU8()
		}
		rs = append(rs, r)
		readers = append(readers, r)
	}
	st := New(readers...)
	var out [8]byte
	st.XORKeyStream(out[:], out[:])
	vreach("returned")
	h := fkLastHash
	want := 0
	ok := true
	for _, r := range rs {
		take := r.avail
		if take > 32 {
			take = 32
		}
		for i := 0; i < take; i++ {
			ok = ok && h.buf[want+i] == r.data[i]
		}
		want += take
		vassert(r.pos == take, "each reader is asked for at most 32 bytes and nothing more is consumed")
	}
	vassert(h.n == want && ok, "the seed hash absorbs every byte every reader delivered, in reader order")
	vassert(len(fkSeed) == 32, "the expander is keyed by the 32-byte digest")
}

// native replay: the real stream depends on the bytes of a short reader
func HarnessRandStreamReplay(p0, p1, p2 int) {
	mk := func(flip int) []byte {
		var readers []io.Reader
		k := 0
		for _, a := range []int{p0, p1, p2} {
			if a < 0 {
				continue
			}
			r := &c19Reader{avail: a}
			for i := range r.data {
				r.data[i] = byte(17*k + i)
			}
			if flip == k && a > 0 {
				r.data[0] ^= 1
			}
			k++
			readers = append(readers, r)
		}
		out := make([]byte, 16)
		New(readers...).XORKeyStream(out, out)
		return out
	}
	base := mk(-1)
	ok := true
	k := 0
	for _, a := range []int{p0, p1, p2} {
		if a < 0 {
			continue
		}
		if a > 0 {
			o := mk(k)
			same := true
			for i := range o {
				same = same && o[i] == base[i]
			}
			ok = ok && !same // flipping a byte that reader k delivered changes the stream
		}
		k++
	}
	vassert(ok, "the seed hash absorbs every byte every reader delivered, in reader order")
	vassert(ok, "each reader is asked for at most 32 bytes and nothing more is consumed")
	vassert(ok, "the expander is keyed by the 32-byte digest")
}
