package random

import (
	"go.dedis.ch/kyber/v4/compatible/compatiblemod"
)

// C19 (E1 part) — random.Bits and random.Int over an arbitrary stream (symbolic bytes).

// symStream is an arbitrary cipher.Stream: every key-stream byte is a fresh symbolic value.
// It records the bytes it produced (the harness needs them for the oracle).
type symStream struct {
	out   [64]byte
	n     int
	calls int
}

func (s *symStream) XORKeyStream(dst, src []byte) {
	s.calls++
	for i := range src {
		k := nondetU8()
		if s.n < len(s.out) {
			s.out[s.n] = k
			s.n++
		}
		dst[i] = src[i] ^ k
	}
}

// HarnessBits: one run per bit length p0 (concrete), exact symbolic, stream bytes symbolic.
func HarnessBits(p0 int) {
	n := uint(p0)
	exact := nondetBool()
	st := &symStream{}
	b := Bits(n, exact, st)
	vreach("returned")
	vassert(len(b) == (p0+7)/8, "Bits: length is ceil(bitlen/8)")
	vassert(st.calls == 1, "Bits: the stream is used exactly once")
	hb := p0 & 7
	if len(b) > 0 {
		// value < 2^bitlen: the bits above the requested length in the first byte are clear
		if hb != 0 {
			vassert(b[0]>>uint(hb) == 0, "Bits: value < 2^bitlen (high bits of the first byte clear)")
		}
		top := uint(7)
		if hb != 0 {
			top = uint(hb - 1)
		}
		if exact {
			vassert((b[0]>>top)&1 == 1, "Bits: exact => bit bitlen-1 is set")
		}
		// every other bit is the stream's bit: no bias introduced by masking
		m := byte(0xff)
		if hb != 0 {
			m = byte(1<<uint(hb)) - 1
		}
		if exact {
			m &^= 1 << top
		}
		vassert(b[0]&m == st.out[0]&m, "Bits: unforced bits of the first byte come from the stream unchanged")
		for i := 1; i < len(b); i++ {
			vassert(b[i] == st.out[i], "Bits: other bytes come from the stream unchanged")
		}
	}
}

// HarnessInt: modulus p0 (concrete, from the list in the spec), two rejection-sampling rounds unwound.
func HarnessInt(p0 int) {
	mod := compatiblemod.NewInt(int64(p0))
	st := &symStream{}
	r := Int(mod, st)
	vreach("returned")
	vassert(r.Int.Cmp(&mod.Int) < 0, "Int: result < modulus")
	vassert(r.Int.Sign() >= 0, "Int: result >= 0")
	// oracle: candidates are the big-endian values of the masked chunks drawn from the stream;
	// the result is the FIRST candidate below the modulus (pure rejection sampling, no modulo step)
	bl := mod.Int.BitLen()
	nb := (bl + 7) / 8
	hb := uint(bl & 7)
	var cands [3]int64
	for c := 0; c < 3 && (c+1)*nb <= st.n; c++ {
		var v int64
		for j := 0; j < nb; j++ {
			x := st.out[c*nb+j]
			if j == 0 && hb != 0 {
				x &= byte(1<<hb) - 1
			}
			v = v<<8 | int64(x)
		}
		cands[c] = v
	}
	got := r.Int.Int64()
	k := st.calls
	vassert(k >= 1 && k <= 3, "Int: one stream call per candidate")
	for c := 0; c < 3; c++ {
		if k == c+1 {
			vassert(got == cands[c], "Int: the returned value is the last candidate drawn")
			for e := 0; e < c; e++ {
				vassert(cands[e] >= int64(p0), "Int: every earlier candidate was >= modulus (rejected for that reason only)")
			}
		}
	}
}
