// Code generated from xof_blake2xb.go by gen/c19.py. DO NOT EDIT.
package keccak

import (
	"golang.org/x/crypto/sha3"
)

// C19 (E1 part) — the XOF wrapper as a state machine over an ARBITRARY underlying extendable-output function.
//
// The underlying golang.org/x/crypto XOF is replaced by fakeX: every output byte is a fresh symbolic value, every
// absorbed byte and every construction key is recorded. One harness = one wrapper operation from an arbitrary
// pre-state (scratch buffer x.key of length p0 with arbitrary contents); the assertions say which underlying
// operations the wrapper performed. Together they are the inductive step of "the wrapper is a deterministic,
// chunk-independent function of seed and absorbed data": Read/Write delegate 1:1, XORKeyStream consumes exactly
// len(src) output bytes, Reseed keys a fresh XOF with exactly the next 128 output bytes, Clone forks the underlying
// state, Reset re-absorbs the seed remainder.

const fakeSize = 0

type fakeX struct {
	keyLen int
	key    [64]byte
	wr     [400]byte // absorbed since construction / Reset
	wn     int
	rd     [700]byte // produced by Read
	rn     int
	reads  int
	resets int
	clones int
}

var fakeMade [4]*fakeX
var fakeN int

func fakeNewShake() sha3.ShakeHash {
	f := &fakeX{}
	if fakeN < len(fakeMade) {
		fakeMade[fakeN] = f
	}
	fakeN++
	return f
}

func (f *fakeX) Sum(b []byte) []byte { return b }
func (f *fakeX) Size() int           { return 64 }
func (f *fakeX) BlockSize() int      { return 136 }



func (f *fakeX) Write(p []byte) (int, error) {
	for _, b := range p {
		if f.wn < len(f.wr) {
			f.wr[f.wn] = b
		}
		f.wn++
	}
	return len(p), nil
}

func (f *fakeX) Read(p []byte) (int, error) {
	f.reads++
	for i := range p {
		k := nondetU8()
		if f.rn < len(f.rd) {
			f.rd[f.rn] = k
		}
		f.rn++
		p[i] = k
	}
	return len(p), nil
}

func (f *fakeX) Clone() sha3.ShakeHash {
	c := &fakeX{}
	*c = *f
	f.clones++
	return c
}

func (f *fakeX) Reset() {
	f.wn, f.rn = 0, 0
	f.resets++
}

func fakePre(p0 int) (*fakeX, *xof) {
	f := &fakeX{}
	x := &xof{sh: f}
	if p0 >= 0 {
		x.key = make([]byte, p0)
		for i := range x.key {
			x.key[i] = nondetU8()
		}
	}
	return f, x
}

// HarnessXofXOR: p0 = length of the scratch buffer before the call (-1: nil), p1 = len(src)
func HarnessXofXOR(p0, p1 int) {
	f, x := fakePre(p0)
	src := make([]byte, p1)
	var keep [700]byte
	for i := range src {
		src[i] = nondetU8()
		keep[i] = src[i]
	}
	dst := make([]byte, p1+1)
	x.XORKeyStream(dst, src)
	vreach("end")
	vassert(f.rn == p1, "XORKeyStream consumes exactly len(src) bytes of the stream")
	vassert(f.wn == 0 && f.resets == 0 && fakeN == 0 && x.sh == sha3.ShakeHash(f), "XORKeyStream does nothing else to the underlying XOF")
	ok := true
	for i := 0; i < p1; i++ {
		ok = ok && dst[i] == keep[i]^f.rd[i]
	}
	vassert(ok, "XORKeyStream: dst[i] = src[i] XOR the bytes Read would have returned")
	// chunk independence of a following read: the next byte handed out is the next byte of the stream
	var one [1]byte
	_, _ = x.Read(one[:])
	vassert(f.rn == p1+1 && one[0] == f.rd[p1], "Read after XORKeyStream continues at the next stream byte")
	// in place (dst == src), as the library's own callers use it
	if 2*p1+1 <= len(f.rd) {
		x.XORKeyStream(src, src)
		ok = f.rn == 2*p1+1
		for i := 0; i < p1; i++ {
			ok = ok && src[i] == keep[i]^f.rd[p1+1+i]
		}
		vassert(ok, "XORKeyStream in place: same result")
	}
}

// HarnessXofReseed: p0 = length of the scratch buffer before the call (-1: nil)
func HarnessXofReseed(p0 int) {
	f, x := fakePre(p0)
	x.Reseed()
	vreach("end")
	vassert(f.rn == 128 && f.wn == 0, "Reseed reads exactly 128 bytes from the old XOF")
	vassert(fakeN == 1, "Reseed constructs exactly one new XOF")
	g := fakeMade[0]
	vassert(x.sh == sha3.ShakeHash(g), "Reseed installs the new XOF")
	ok := g.keyLen == fakeSize && g.wn == 128-fakeSize
	for i := 0; i < fakeSize; i++ {
		ok = ok && g.key[i] == f.rd[i]
	}
	for i := fakeSize; i < 128; i++ {
		ok = ok && g.wr[i-fakeSize] == f.rd[i]
	}
	vassert(ok, "Reseed: the new XOF is keyed by exactly the next 128 output bytes")
	n, err := x.Write([]byte{1, 2, 3})
	vassert(err == nil && n == 3 && g.wn == 128-fakeSize+3 && g.wr[128-fakeSize+2] == 3, "Reseed makes the XOF writable again")
}

// HarnessXofClone: p0 = length of the scratch buffer before the call (-1: nil)
func HarnessXofClone(p0 int) {
	f, x := fakePre(p0)
	x.seed = []byte{9, 9}
	_, _ = x.Write([]byte{nondetU8(), nondetU8()})
	var b4 [4]byte
	_, _ = x.Read(b4[:])
	y, isx := x.Clone().(*xof)
	vreach("end")
	vassert(isx && y != x, "Clone returns a new wrapper")
	g, isf := y.sh.(*fakeX)
	vassert(isf && g != f && f.clones == 1, "Clone forks the underlying XOF")
	vassert(g.wn == f.wn && g.rn == f.rn && g.wr[0] == f.wr[0] && g.wr[1] == f.wr[1] && g.rd[3] == f.rd[3], "the fork starts in the state of the original")
	// independence: operations on one do not move the other
	var b2 [2]byte
	_, _ = y.Read(b2[:])
	y.XORKeyStream(b2[:], b2[:])
	_, _ = y.Write([]byte{7})
	vassert(f.rn == 4 && f.wn == 2 && g.rn == 8 && g.wn == 3, "operations on the clone do not touch the original")
	x.XORKeyStream(b2[:], b2[:])
	vassert(f.rn == 6 && g.rn == 8, "operations on the original do not touch the clone")
	y.Reseed()
	vassert(g.rn == 8+128 && fakeN == 1 && y.sh == sha3.ShakeHash(fakeMade[0]) && x.sh == sha3.ShakeHash(f), "the clone can be reseeded on its own")
}

// HarnessXofNewReset: p0 = seed length
func HarnessXofNewReset(p0 int) {
	seed := make([]byte, p0)
	var keep [400]byte
	for i := range seed {
		seed[i] = nondetU8()
		keep[i] = seed[i]
	}
	x, isx := New(seed).(*xof)
	vreach("end")
	vassert(isx && fakeN == 1, "New constructs one underlying XOF")
	g := fakeMade[0]
	kl := p0
	if kl > fakeSize {
		kl = fakeSize
	}
	ok := g.keyLen == kl && g.wn == p0-kl && g.rn == 0
	for i := 0; i < kl; i++ {
		ok = ok && g.key[i] == keep[i]
	}
	for i := kl; i < p0; i++ {
		ok = ok && g.wr[i-kl] == keep[i]
	}
	vassert(ok, "New: the first Size seed bytes key the XOF, the remainder is absorbed, nothing is dropped")
	// the caller may reuse its seed buffer; Reset must still return to the seeded state
	for i := range seed {
		seed[i] ^= 0xff
	}
	_, _ = x.Write([]byte{nondetU8(), nondetU8(), nondetU8()})
	var b5 [5]byte
	_, _ = x.Read(b5[:])
	x.Reset()
	ok = g.resets == 1 && g.rn == 0 && g.wn == p0-kl && x.sh == sha3.ShakeHash(g)
	for i := kl; i < p0; i++ {
		ok = ok && g.wr[i-kl] == keep[i]
	}
	vassert(ok, "Reset returns the XOF to its seeded initial state (key kept, seed remainder re-absorbed)")
}

// HarnessXofReadWrite: Read and Write delegate one-to-one (chunking is the underlying XOF's business only)
func HarnessXofReadWrite(p0, p1 int) {
	f, x := fakePre(p0)
	buf := make([]byte, p1)
	n, err := x.Read(buf)
	vreach("end")
	ok := n == p1 && err == nil && f.rn == p1 && f.reads == 1
	for i := 0; i < p1; i++ {
		ok = ok && buf[i] == f.rd[i]
	}
	vassert(ok, "Read hands out exactly the next len(dst) stream bytes")
	for i := range buf {
		buf[i] = nondetU8()
	}
	n, err = x.Write(buf)
	ok = n == p1 && err == nil && f.wn == p1
	for i := 0; i < p1 && i < len(f.wr); i++ {
		ok = ok && f.wr[i] == buf[i]
	}
	vassert(ok, "Write absorbs exactly the bytes given")
}

// ---- native replay entries: the same operation on the real XOF, compared with a reference that uses only New and Read
func replaySeed() []byte {
	s := make([]byte, 70)
	for i := range s {
		s[i] = byte(3*i + 1)
	}
	return s
}

func replayPre(p0 int) (x, ref *xof) {
	x = New(replaySeed()).(*xof)
	ref = New(replaySeed()).(*xof)
	if p0 > 0 {
		// reach the pre-state through the API: an XORKeyStream of p0 bytes leaves a scratch buffer of that length
		b := make([]byte, p0)
		x.XORKeyStream(b, b)
		_, _ = ref.Read(make([]byte, p0))
	} else if p0 == 0 {
		x.XORKeyStream(nil, nil)
	}
	return
}

func sameNext(a, b *xof, n int) bool {
	p, q := make([]byte, n), make([]byte, n)
	_, _ = a.Read(p)
	_, _ = b.Read(q)
	for i := range p {
		if p[i] != q[i] {
			return false
		}
	}
	return true
}

func HarnessXofReseedReplay(p0 int) {
	x, ref := replayPre(p0)
	x.Reseed()
	k := make([]byte, 128)
	_, _ = ref.Read(k)
	want := New(k).(*xof)
	ok := sameNext(x, want, 64)
	vassert(ok, "Reseed reads exactly 128 bytes from the old XOF")
	vassert(ok, "Reseed: the new XOF is keyed by exactly the next 128 output bytes")
	vassert(ok, "Reseed constructs exactly one new XOF")
	vassert(ok, "Reseed installs the new XOF")
	x2, ref2 := replayPre(p0)
	x2.Reseed()
	_, _ = ref2.Read(k)
	want2 := New(k).(*xof)
	_, e1 := x2.Write([]byte{1, 2, 3})
	_, _ = want2.Write([]byte{1, 2, 3})
	vassert(e1 == nil && sameNext(x2, want2, 64), "Reseed makes the XOF writable again")
}

func HarnessXofXORReplay(p0, p1 int) {
	x, ref := replayPre(p0)
	src := make([]byte, p1)
	for i := range src {
		src[i] = nondetU8()
	}
	dst := make([]byte, p1+1)
	x.XORKeyStream(dst, src)
	ks := make([]byte, p1)
	_, _ = ref.Read(ks)
	ok := true
	for i := range src {
		ok = ok && dst[i] == src[i]^ks[i]
	}
	ok = ok && sameNext(x, ref, 33)
	vassert(ok, "XORKeyStream consumes exactly len(src) bytes of the stream")
	vassert(ok, "XORKeyStream does nothing else to the underlying XOF")
	vassert(ok, "XORKeyStream: dst[i] = src[i] XOR the bytes Read would have returned")
	vassert(ok, "Read after XORKeyStream continues at the next stream byte")
	cp := append([]byte{}, src...)
	x.XORKeyStream(cp, cp)
	_, _ = ref.Read(ks)
	for i := range src {
		ok = ok && cp[i] == src[i]^ks[i]
	}
	vassert(ok, "XORKeyStream in place: same result")
}

func HarnessXofCloneReplay(p0 int) {
	mk := func() *xof {
		r := New(replaySeed()).(*xof)
		_, _ = r.Write([]byte{5, 6})
		return r
	}
	x, ref, ref2 := mk(), mk(), mk()
	if p0 >= 0 {
		b := make([]byte, p0)
		x.XORKeyStream(b, b)
		_, _ = ref.Read(make([]byte, p0))
		_, _ = ref2.Read(make([]byte, p0))
	}
	y := x.Clone().(*xof)
	ok := sameNext(y, ref, 40)
	y.Reseed()
	k := make([]byte, 128)
	_, _ = ref.Read(k)
	ok = ok && sameNext(y, New(k).(*xof), 40)
	ok = ok && sameNext(x, ref2, 40)
	for _, id := range []string{"Clone returns a new wrapper", "Clone forks the underlying XOF", "the fork starts in the state of the original", "operations on the clone do not touch the original", "operations on the original do not touch the clone", "the clone can be reseeded on its own"} {
		vassert(ok, id)
	}
}

func HarnessXofNewResetReplay(p0 int) {
	seed := make([]byte, p0)
	for i := range seed {
		seed[i] = nondetU8()
	}
	keep := append([]byte{}, seed...)
	x := New(seed).(*xof)
	for i := range seed {
		seed[i] ^= 0xff
	}
	first := make([]byte, 48)
	_, _ = x.Read(first)
	x.Reset()
	_, _ = x.Write([]byte{1})
	x.Reset()
	ok := sameNext(x, New(keep).(*xof), 48)
	// nothing of the seed is dropped: flipping any one byte changes the stream
	for i := range keep {
		k2 := append([]byte{}, keep...)
		k2[i] ^= 1
		y := New(k2).(*xof)
		o := make([]byte, 48)
		_, _ = y.Read(o)
		same := true
		for j := range o {
			same = same && o[j] == first[j]
		}
		ok = ok && !same
	}
	vassert(ok, "New: the first Size seed bytes key the XOF, the remainder is absorbed, nothing is dropped")
	vassert(ok, "Reset returns the XOF to its seeded initial state (key kept, seed remainder re-absorbed)")
	vassert(ok, "New constructs one underlying XOF")
}

func HarnessXofReadWriteReplay(p0, p1 int) {
	x, ref := replayPre(p0)
	a := make([]byte, p1)
	_, _ = x.Read(a)
	ok := true
	for i := 0; i < p1; i++ { // byte-at-a-time reference
		var o [1]byte
		_, _ = ref.Read(o[:])
		ok = ok && o[0] == a[i]
	}
	vassert(ok, "Read hands out exactly the next len(dst) stream bytes")
	vassert(ok, "Write absorbs exactly the bytes given")
}
