package edwards25519

import (
	"go.dedis.ch/kyber/v4"
)

// C20 — read-only methods of the constant-time Ed25519 scalar and point execute no store to memory that existed
// before the call, on any feasible path, for ARBITRARY contents (including unreduced scalars and any limb values).
// The field and scalar limb kernels are summarised by their contract "writes only its output parameter, with an
// arbitrary value" (each kernel's own effect harness below checks exactly that on the real body).

type c20Writer struct{ n int }

func (w *c20Writer) Write(p []byte) (int, error) { w.n += len(p); return len(p), nil }

func c20Scalar() *scalar {
	s := &scalar{}
	for i := range s.v {
		s.v[i] = nondetU8()
	}
	return s
}

func c20Fe(f *fieldElement) {
	for i := range f {
		f[i] = nondetI32Range(-(1 << 25), 1<<25)
	}
}

func c20Point() *point {
	p := &point{}
	c20Fe(&p.ge.X)
	c20Fe(&p.ge.Y)
	c20Fe(&p.ge.Z)
	c20Fe(&p.ge.T)
	return p
}

// p0: 0 scalar, 1 point; p1: method
func HarnessEdReadOnly(p0, p1 int) {
	if p0 == 0 {
		S, S2 := c20Scalar(), c20Scalar()
		effectsBegin()
		switch p1 {
		case 0:
			_, _ = S.MarshalBinary()
		case 1:
			_ = S.Equal(S2)
		case 2:
			_ = S.Clone()
		case 3:
			_ = S.String()
		case 4:
			_ = S.MarshalSize()
			_ = S.ByteOrder()
		case 5:
			new(scalar).Add(S, S2)
			new(scalar).Sub(S, S2)
		case 6:
			new(scalar).Neg(S)
			new(scalar).Set(S)
			new(scalar).Mul(S, S2)
		case 7:
			_, _ = S.MarshalTo(&c20Writer{})
		case 8:
			new(scalar).Div(S, S2)
		case 9:
			_ = S.IsCanonical(S2.v[:])
		}
		effectsEnd()
	} else {
		P, Q := c20Point(), c20Point()
		S := c20Scalar()
		effectsBegin()
		switch p1 {
		case 0:
			_, _ = P.MarshalBinary()
		case 1:
			_ = P.Equal(Q)
		case 2:
			_ = P.Clone()
		case 3:
			_ = P.String()
		case 4:
			_ = P.MarshalSize()
			_ = P.EmbedLen()
		case 5:
			_, _ = P.Data()
		case 6:
			new(point).Add(P, Q)
			new(point).Sub(P, Q)
		case 7:
			new(point).Neg(P)
			new(point).Set(P)
		case 8:
			_ = P.HasSmallOrder()
		case 9:
			new(point).Mul(S, P)
		case 10:
			new(point).Mul(S, nil)
		case 11:
			_, _ = P.MarshalTo(&c20Writer{})
		}
		effectsEnd()
	}
	vreach("end")
}

// each summarised kernel on its real body: output parameter fresh, inputs pre-existing
func HarnessEdKernelEffects(p0 int) {
	var f, g fieldElement
	c20Fe(&f)
	c20Fe(&g)
	var a, b, c [32]byte
	for i := range a {
		a[i], b[i], c[i] = nondetU8(), nondetU8(), nondetU8()
	}
	var wide [64]byte
	for i := range wide {
		wide[i] = nondetU8()
	}
	effectsBegin()
	var h fieldElement
	var o [32]byte
	switch p0 {
	case 0:
		feMul(&h, &f, &g)
	case 1:
		feSquare(&h, &f)
	case 2:
		feSquare2(&h, &f)
	case 3:
		feAdd(&h, &f, &g)
		feSub(&h, &f, &g)
		feNeg(&h, &f)
		feCopy(&h, &f)
	case 4:
		feCMove(&h, &f, 1)
	case 5:
		var fl fieldElement // feToBytes normalises its input in place: the input must be private too
		feCopy(&fl, &f)
		feToBytes(&o, &fl)
	case 6:
		feFromBytes(&h, a[:])
	case 7:
		scMul(&o, &a, &b)
	case 8:
		scAdd(&o, &a, &b)
	case 9:
		scSub(&o, &a, &b)
	case 10:
		scMulAdd(&o, &a, &b, &c)
	case 11:
		scReduce(&o, &wide)
	}
	effectsEnd()
	vreach("end")
}

// RaceEdReadOnly: native confirmation - two goroutines call the method on one shared value. The shared scalar is
// the unreduced encoding of l+5+2^255 (as UnmarshalBinary accepts it), the shared point 2B.
func RaceEdReadOnly(p0, p1 int) {
	lb := primeOrder.Bytes()
	var le [32]byte
	for i := range lb {
		le[len(lb)-1-i] = lb[i]
	}
	le[0] += 5
	le[31] |= 0x80 // unreduced AND with the top bit set: every normalisation path of a decoder-produced scalar is taken
	done := make(chan bool)
	for round := 0; round < 20; round++ {
		S, S2 := &scalar{}, &scalar{}
		_ = S.UnmarshalBinary(le[:])
		_ = S2.UnmarshalBinary(le[:])
		P := new(point)
		P.Base()
		P.Add(P, P)
		Q := new(point)
		Q.Base()
		for g := 0; g < 2; g++ {
			go func() {
				if p0 == 0 {
					switch p1 {
					case 0:
						_, _ = S.MarshalBinary()
					case 1:
						_ = S.Equal(S2)
					case 2:
						_ = S.Clone()
					case 3:
						_ = S.String()
					case 4:
						_ = S.MarshalSize()
					case 5:
						new(scalar).Add(S, S2)
						new(scalar).Sub(S, S2)
					case 6:
						new(scalar).Neg(S)
						new(scalar).Set(S)
						new(scalar).Mul(S, S2)
					case 7:
						_, _ = S.MarshalTo(&c20Writer{})
					case 8:
						new(scalar).Div(S, S2)
					case 9:
						_ = S.IsCanonical(S2.v[:])
					}
				} else {
					switch p1 {
					case 0:
						_, _ = P.MarshalBinary()
					case 1:
						_ = P.Equal(Q)
					case 2:
						_ = P.Clone()
					case 3:
						_ = P.String()
					case 4:
						_ = P.MarshalSize()
					case 5:
						_, _ = P.Data()
					case 6:
						new(point).Add(P, Q)
						new(point).Sub(P, Q)
					case 7:
						new(point).Neg(P)
						new(point).Set(P)
					case 8:
						_ = P.HasSmallOrder()
					case 9:
						new(point).Mul(S, P)
					case 10:
						new(point).Mul(S, nil)
					case 11:
						_, _ = P.MarshalTo(&c20Writer{})
					}
				}
				done <- true
			}()
		}
		<-done
		<-done
	}
	var _ kyber.Scalar = &scalar{}
}
