package edwards25519vartime

import (
	"go.dedis.ch/kyber/v4"
	"go.dedis.ch/kyber/v4/group/mod"
)

// C20 — read-only methods of the variable-time Edwards points execute no store to memory that existed
// before the call (sufficient condition for race freedom of shared read-only use), on any feasible path.

var verifPC20 = func() *ProjectiveCurve {
	c := new(ProjectiveCurve)
	c.Init(ParamEd25519(), false)
	return c
}()
var verifEC20 = func() *ExtendedCurve {
	c := new(ExtendedCurve)
	c.InitCurve(ParamEd25519(), false)
	return c
}()

func stubSqrt20(i *mod.Int, as *mod.Int) bool { return nondetBool() }

// stub for (*curve).data: extracting embedded bytes is byte slicing on local copies (verified in C17); only effects matter here
func stubData20(c *curve, x, y *mod.Int) ([]byte, error) { return nil, nil }

func c20Coord(i *mod.Int) {
	i.Init64(int64(nondetIntRange(1, 1<<40)), verifPC20.P.ToCompatibleMod())
}

func c20Proj() *projPoint {
	p := &projPoint{c: verifPC20}
	c20Coord(&p.X)
	c20Coord(&p.Y)
	c20Coord(&p.Z)
	return p
}
func c20Ext() *extPoint {
	p := &extPoint{c: verifEC20}
	c20Coord(&p.X)
	c20Coord(&p.Y)
	c20Coord(&p.Z)
	c20Coord(&p.T)
	return p
}

// p0: 0 projPoint, 1 extPoint ; p1: method
func HarnessVartimeReadOnly(p0, p1 int) {
	var P, Q, R kyber.Point
	if p0 == 0 {
		P, Q, R = c20Proj(), c20Proj(), c20Proj()
	} else {
		P, Q, R = c20Ext(), c20Ext(), c20Ext()
	}
	_ = R
	effectsBegin()
	switch p1 {
	case 0:
		_, _ = P.MarshalBinary()
	case 1:
		_ = P.String()
	case 2:
		_, _ = P.Data()
	case 3:
		_ = P.Equal(Q)
	case 4:
		_ = P.Clone()
	case 5:
		_ = P.MarshalSize()
	case 6:
		// shared operand of an operation that writes elsewhere (the receiver is created inside the window)
		var fresh kyber.Point
		if p0 == 0 {
			fresh = &projPoint{c: verifPC20}
		} else {
			fresh = &extPoint{c: verifEC20}
		}
		fresh.Add(P, Q)
	case 7:
		var fresh kyber.Point
		if p0 == 0 {
			fresh = &projPoint{c: verifPC20}
		} else {
			fresh = &extPoint{c: verifEC20}
		}
		fresh.Neg(P)
		fresh.Set(P)
	}
	effectsEnd()
	vreach("end")
}


// RaceVartimeReadOnly: native confirmation of an effect finding - two goroutines call the method on one shared point.
func RaceVartimeReadOnly(p0, p1 int) {
	var P kyber.Point
	if p0 == 0 {
		b := verifPC20.Point().Base()
		P = verifPC20.Point().Add(b, b)
	} else {
		b := verifEC20.Point().Base()
		P = verifEC20.Point().Add(b, b)
	}
	done := make(chan bool)
	for g := 0; g < 2; g++ {
		go func() {
			for k := 0; k < 50; k++ {
				switch p1 {
				case 0:
					_, _ = P.MarshalBinary()
				case 1:
					_ = P.String()
				case 2:
					_, _ = P.Data()
				case 3:
					_ = P.Equal(P)
				case 4:
					_ = P.Clone()
				default:
					_ = P.MarshalSize()
				}
			}
			done <- true
		}()
	}
	<-done
	<-done
}
