package bdn

import (
	"crypto/cipher"
	"io"

	"go.dedis.ch/kyber/v4"
	"go.dedis.ch/kyber/v4/compatible/compatiblemod"
	"go.dedis.ch/kyber/v4/pairing/bn256"
)

// C20 — a participation mask (and its clones, which share the roster and the precomputed coefficient / term tables) is
// used read-only by aggregation: Clone, AggregatePublicKeys, AggregateSignatures and the accessors execute no store to
// memory that existed before the call. The mask is built by the real NewMask over a fake group whose operations write
// only their receiver (the hash of the roster is a stub: arbitrary coefficients).

type efPoint struct{ v int64 }

func (p *efPoint) MarshalBinary() ([]byte, error)              { return make([]byte, 8), nil }
func (p *efPoint) UnmarshalBinary(b []byte) error              { p.v = int64(len(b)); return nil }
func (p *efPoint) MarshalSize() int                            { return 8 }
func (p *efPoint) String() string                              { return "" }
func (p *efPoint) MarshalTo(w io.Writer) (int, error)          { return 0, nil }
func (p *efPoint) UnmarshalFrom(r io.Reader) (int, error)      { return 0, nil }
func (p *efPoint) Equal(q kyber.Point) bool                    { return p.v == q.(*efPoint).v }
func (p *efPoint) Null() kyber.Point                           { p.v = 0; return p }
func (p *efPoint) Base() kyber.Point                           { p.v = 1; return p }
func (p *efPoint) Pick(cipher.Stream) kyber.Point              { p.v = 7; return p }
func (p *efPoint) Set(a kyber.Point) kyber.Point               { p.v = a.(*efPoint).v; return p }
func (p *efPoint) Clone() kyber.Point                          { return &efPoint{v: p.v} }
func (p *efPoint) EmbedLen() int                               { return 0 }
func (p *efPoint) Embed([]byte, cipher.Stream) kyber.Point     { return p }
func (p *efPoint) Data() ([]byte, error)                       { return nil, nil }
func (p *efPoint) Add(a, b kyber.Point) kyber.Point            { p.v = a.(*efPoint).v + b.(*efPoint).v; return p }
func (p *efPoint) Sub(a, b kyber.Point) kyber.Point            { p.v = a.(*efPoint).v - b.(*efPoint).v; return p }
func (p *efPoint) Neg(a kyber.Point) kyber.Point               { p.v = -a.(*efPoint).v; return p }
func (p *efPoint) Mul(s kyber.Scalar, q kyber.Point) kyber.Point {
	if q == nil {
		p.v = s.(*efScalar).v
	} else {
		p.v = s.(*efScalar).v + q.(*efPoint).v
	}
	return p
}

type efScalar struct{ v int64 }

func (s *efScalar) MarshalBinary() ([]byte, error)         { return make([]byte, 8), nil }
func (s *efScalar) UnmarshalBinary(b []byte) error         { return nil }
func (s *efScalar) MarshalSize() int                       { return 8 }
func (s *efScalar) String() string                         { return "" }
func (s *efScalar) MarshalTo(w io.Writer) (int, error)     { return 0, nil }
func (s *efScalar) UnmarshalFrom(r io.Reader) (int, error) { return 0, nil }
func (s *efScalar) Equal(o kyber.Scalar) bool              { return s.v == o.(*efScalar).v }
func (s *efScalar) Set(a kyber.Scalar) kyber.Scalar        { s.v = a.(*efScalar).v; return s }
func (s *efScalar) Clone() kyber.Scalar                    { return &efScalar{v: s.v} }
func (s *efScalar) SetInt64(v int64) kyber.Scalar          { s.v = v; return s }
func (s *efScalar) Zero() kyber.Scalar                     { s.v = 0; return s }
func (s *efScalar) One() kyber.Scalar                      { s.v = 1; return s }
func (s *efScalar) Add(a, b kyber.Scalar) kyber.Scalar     { s.v = a.(*efScalar).v + b.(*efScalar).v; return s }
func (s *efScalar) Sub(a, b kyber.Scalar) kyber.Scalar     { s.v = a.(*efScalar).v - b.(*efScalar).v; return s }
func (s *efScalar) Neg(a kyber.Scalar) kyber.Scalar        { s.v = -a.(*efScalar).v; return s }
func (s *efScalar) Mul(a, b kyber.Scalar) kyber.Scalar     { s.v = a.(*efScalar).v + b.(*efScalar).v; return s }
func (s *efScalar) Div(a, b kyber.Scalar) kyber.Scalar     { s.v = a.(*efScalar).v - b.(*efScalar).v; return s }
func (s *efScalar) Inv(a kyber.Scalar) kyber.Scalar        { s.v = -a.(*efScalar).v; return s }
func (s *efScalar) Pick(cipher.Stream) kyber.Scalar        { return s }
func (s *efScalar) SetBytes([]byte) kyber.Scalar           { return s }
func (s *efScalar) ByteOrder() kyber.ByteOrder             { return kyber.LittleEndian }
func (s *efScalar) GroupOrder() *compatiblemod.Mod         { return nil }

type efGroup struct{}

func (efGroup) String() string       { return "fake" }
func (efGroup) ScalarLen() int       { return 8 }
func (efGroup) PointLen() int        { return 8 }
func (efGroup) Scalar() kyber.Scalar { return &efScalar{} }
func (efGroup) Point() kyber.Point   { return &efPoint{} }

// the hash of the roster is not the subject: arbitrary coefficients
func efHashPointToR(group kyber.Group, pubs []kyber.Point) ([]kyber.Scalar, error) {
	out := make([]kyber.Scalar, len(pubs))
	for i := range out {
		out[i] = &efScalar{v: int64(nondetIntRange(1, 1000))}
	}
	return out, nil
}

// p0: roster size; p1: the read-only use; p2: participation pattern (bit i = member i takes part)
func HarnessBDNMaskReadOnly(p0, p1, p2 int) {
	g := efGroup{}
	pubs := make([]kyber.Point, p0)
	for i := range pubs {
		pubs[i] = &efPoint{v: int64(nondetIntRange(1, 1000))}
	}
	base, err := NewMask(g, pubs, nil)
	if err != nil {
		return
	}
	m := base.Clone()
	for i := 0; i < p0; i++ {
		if p2>>uint(i)&1 == 1 {
			_ = m.SetBit(i, true)
		}
	}
	sch := &Scheme{sigGroup: g, keyGroup: g}
	sigs := make([][]byte, 0, p0)
	for i := 0; i < p0; i++ {
		if on, _ := m.GetBit(i); on {
			sigs = append(sigs, make([]byte, 8))
		}
	}
	effectsBegin()
	switch p1 {
	case 0:
		_, _ = sch.AggregatePublicKeys(m)
	case 1:
		_, _ = sch.AggregateSignatures(sigs, m)
	case 2:
		c := m.Clone()
		_, _ = sch.AggregatePublicKeys(c)
		_ = c.SetBit(0, true) // a clone may be modified: that touches memory of the clone only
		_, _ = sch.AggregatePublicKeys(c)
	case 3:
		_ = m.Mask()
		_ = m.Len()
		_ = m.Publics()
		_ = m.Participants()
		_ = m.CountEnabled()
		_ = m.CountTotal()
		_ = m.IndexOfNthEnabled(0)
		_ = m.NthEnabledAtIndex(0)
	}
	effectsEnd()
	vreach("end")
}

// race confirmation on the real group: two goroutines aggregate over their own clones of one base mask
func RaceBDNMaskReadOnly(p0, p1, p2 int) {
	suite := bn256.NewSuite()
	sch := NewSchemeOnG1(suite)
	var pubs []kyber.Point
	for i := 0; i < 4; i++ {
		_, pk := sch.NewKeyPair(suite.RandomStream())
		pubs = append(pubs, pk)
	}
	base, err := NewMask(suite.G2(), pubs, nil)
	if err != nil {
		panic(err)
	}
	done := make(chan bool)
	for gi := 0; gi < 2; gi++ {
		go func() {
			for k := 0; k < 20; k++ {
				c := base.Clone()
				for i := range pubs {
					_ = c.SetBit(i, true)
				}
				_, _ = sch.AggregatePublicKeys(c)
				_ = c.CountEnabled()
				_ = c.Participants()
			}
			done <- true
		}()
	}
	<-done
	<-done
}
