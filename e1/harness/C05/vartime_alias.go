package edwards25519vartime

import (
	"go.dedis.ch/kyber/v4"
	"go.dedis.ch/kyber/v4/compatible/compatiblemod"
	"go.dedis.ch/kyber/v4/group/mod"
)

// C05 — the variable-time Edwards points (projective and extended coordinates): Add, Sub, Neg compute the same
// coordinates whatever the aliasing of receiver and operands, from an arbitrary stale receiver; operands other than
// the receiver stay unchanged. Arbitrary curve parameters a, d and arbitrary coordinates over a small prime field.

func c05Coord(i *mod.Int, m *compatiblemod.Mod, q int) {
	i.Init64(int64(nondetIntRange(0, q-1)), m)
}

func c05Proj(c *ProjectiveCurve, m *compatiblemod.Mod, q int) *projPoint {
	p := &projPoint{c: c}
	c05Coord(&p.X, m, q)
	c05Coord(&p.Y, m, q)
	c05Coord(&p.Z, m, q)
	return p
}

func c05Ext(m *compatiblemod.Mod, q int) *extPoint {
	p := &extPoint{}
	c05Coord(&p.X, m, q)
	c05Coord(&p.Y, m, q)
	c05Coord(&p.Z, m, q)
	c05Coord(&p.T, m, q)
	return p
}

func v(i *mod.Int) int64 { return i.V.Int.Int64() }

// p0: field size; p1: 0 projPoint, 1 extPoint; p2: 0 Add, 1 Sub, 2 Neg; p3: aliasing (0 distinct, 1 r=a, 2 r=b, 3 a=b, 4 r=a=b)
func HarnessVartimeAlias(p0, p1, p2, p3 int) {
	m := compatiblemod.NewInt(int64(p0))
	if p1 == 0 {
		c := &ProjectiveCurve{}
		c05Coord(&c.a, m, p0)
		c05Coord(&c.d, m, p0)
		a, b, r := c05Proj(c, m, p0), c05Proj(c, m, p0), c05Proj(c, m, p0)
		// reference: the same operation on private copies into a fresh receiver
		ref := &projPoint{c: c}
		ac, bc := a.Clone(), b.Clone()
		switch p3 {
		case 1:
			r = a
		case 2:
			r = b
		case 3:
			b, bc = a, ac
		case 4:
			b, bc = a, ac
			r = a
		}
		var res kyber.Point
		switch p2 {
		case 0:
			ref.Add(ac, bc)
			res = r.Add(a, b)
		case 1:
			ref.Sub(ac, bc)
			res = r.Sub(a, b)
		case 2:
			ref.Neg(ac)
			res = r.Neg(a)
		}
		vreach("end")
		vassert(res.(*projPoint) == r, "the receiver is returned")
		vassert(v(&r.X) == v(&ref.X) && v(&r.Y) == v(&ref.Y) && v(&r.Z) == v(&ref.Z), "the result does not depend on the aliasing of receiver and operands")
		if r != a {
			o := ac.(*projPoint)
			vassert(v(&a.X) == v(&o.X) && v(&a.Y) == v(&o.Y) && v(&a.Z) == v(&o.Z), "operand a unchanged")
		}
		if r != b && p2 != 2 {
			o := bc.(*projPoint)
			vassert(v(&b.X) == v(&o.X) && v(&b.Y) == v(&o.Y) && v(&b.Z) == v(&o.Z), "operand b unchanged")
		}
		return
	}
	c := &ExtendedCurve{}
	c05Coord(&c.a, m, p0)
	c05Coord(&c.d, m, p0)
	a, b, r := c05Ext(m, p0), c05Ext(m, p0), c05Ext(m, p0)
	a.c, b.c, r.c = c, c, c
	ref := &extPoint{c: c}
	ac, bc := a.Clone(), b.Clone()
	switch p3 {
	case 1:
		r = a
	case 2:
		r = b
	case 3:
		b, bc = a, ac
	case 4:
		b, bc = a, ac
		r = a
	}
	var res kyber.Point
	switch p2 {
	case 0:
		ref.Add(ac, bc)
		res = r.Add(a, b)
	case 1:
		ref.Sub(ac, bc)
		res = r.Sub(a, b)
	case 2:
		ref.Neg(ac)
		res = r.Neg(a)
	}
	vreach("end")
	vassert(res.(*extPoint) == r, "the receiver is returned")
	vassert(v(&r.X) == v(&ref.X) && v(&r.Y) == v(&ref.Y) && v(&r.Z) == v(&ref.Z) && v(&r.T) == v(&ref.T), "the result does not depend on the aliasing of receiver and operands")
	if r != a {
		o := ac.(*extPoint)
		vassert(v(&a.X) == v(&o.X) && v(&a.Y) == v(&o.Y) && v(&a.Z) == v(&o.Z) && v(&a.T) == v(&o.T), "operand a unchanged")
	}
	if r != b && p2 != 2 {
		o := bc.(*extPoint)
		vassert(v(&b.X) == v(&o.X) && v(&b.Y) == v(&o.Y) && v(&b.Z) == v(&o.Z) && v(&b.T) == v(&o.T), "operand b unchanged")
	}
}
