package p256

import (
	"math/big"

	"go.dedis.ch/kyber/v4"
)

// C05 — residuePoint.Clone / Set produce values independent of their source. math/big is modelled with
// shared storage: a struct copy of a big.Int shares its limbs and receiver-writing methods write in place.

func resGroup() *ResidueGroup {
	g := &ResidueGroup{}
	g.P = big.NewInt(2039) // safe prime 2*1019+1
	g.Q = big.NewInt(1019)
	g.G = big.NewInt(4)
	g.R = big.NewInt(2)
	return g
}

func resArb(g *ResidueGroup) *residuePoint {
	p := &residuePoint{g: g}
	p.Int.SetInt64(int64(nondetIntRange(2, 2038)))
	return p
}

// p0: how the copy is made (0 Clone, 1 Set); p1: which object is mutated afterwards (0 source, 1 copy);
// p2: the mutation (0 Null, 1 Base, 2 Add(self,other), 3 Neg(self), 4 Set(other), 5 Sub(self,other))
func HarnessResidueCopyIndependent(p0, p1, p2 int) {
	g := resGroup()
	src := resArb(g)
	other := resArb(g)
	var cp *residuePoint
	if p0 == 0 {
		cp = src.Clone().(*residuePoint)
	} else {
		cp = &residuePoint{g: g}
		cp.Set(src)
	}
	vassert(cp.Cmp(&src.Int) == 0, "copy equals its source")
	mut, keep := src, cp
	if p1 == 1 {
		mut, keep = cp, src
	}
	before := keep.Int64()
	var _ kyber.Point
	switch p2 {
	case 0:
		mut.Null()
	case 1:
		mut.Base()
	case 2:
		mut.Add(mut, other)
	case 3:
		mut.Neg(mut)
	case 4:
		mut.Set(other)
	case 5:
		mut.Sub(mut, other)
	}
	vreach("end")
	vassert(keep.Int64() == before, "a later operation on one object does not change the other")
}
