// Code generated from bngt.go by gen/c05.py. DO NOT EDIT.
package bn256

import (
	"go.dedis.ch/kyber/v4/group/mod"
)

// C05 — GT points (pointGT wraps a POINTER to a gfP12): every way of obtaining a value (Base, Null, Set, Clone, Mul with
// the implicit generator) gives the receiver storage of its own - two points never share their gfP12, and no point shares
// it with a package-level constant -, so that a later mutating call on one point changes no other point; operands other
// than the receiver stay unchanged. The GF(p^12) arithmetic and the pairing are summarised ("writes only its receiver /
// returns a new element, arbitrary value"); what is executed is the adapter's pointer handling.

func gtSnap(p *pointGT) gfP12 { return *p.g }

// stand-ins for the pairing (Miller loop, final exponentiation): a NEW element with an arbitrary value
func gtFresh() *gfP12 {
	e := &gfP12{}
	e.x.x.x[0], e.y.z.y[3] = nondetU64(), nondetU64()
	return e
}
func gtOptimalAte(a *twistPoint, b *curvePoint) *gfP12 { return gtFresh() }
func gtMiller(q *twistPoint, p *curvePoint) *gfP12     { return gtFresh() }
func gtFinalExp(in *gfP12) *gfP12                      { return gtFresh() }

// p0: how the two points a and b get their value; p1: the mutating call made on a afterwards
func HarnessGTValueSemantics(p0, p1 int) {
	a, b := newPointGT(), newPointGT()
	s := mod.NewInt64(int64(nondetIntRange(2, 1000)), OrderMod)
	switch p0 {
	case 0:
		a.Base()
		b.Base()
	case 1:
		a.Null()
		b.Null()
	case 2:
		b.Base()
		b.Add(b, b)
		a.Set(b)
	case 3:
		b.Base()
		a = b.Clone().(*pointGT)
	case 4:
		a.Mul(s, nil)
		b.Mul(s, nil)
	case 5:
		b.Base()
		a.Neg(b)
	case 6:
		b.Base()
		c := newPointGT()
		c.Null()
		a.Sub(b, c)
		vassert(b.g != c.g && a.g != c.g, "distinct points have distinct storage")
	}
	vassert(a.g != b.g, "distinct points have distinct storage")
	bv := gtSnap(b)
	fresh := newPointGT()
	fresh.Base()
	fv := gtSnap(fresh)
	switch p1 {
	case 0:
		a.Add(a, a)
	case 1:
		a.Neg(a)
	case 2:
		a.Null()
	case 3:
		a.Mul(s, a)
	case 4:
		a.Set(fresh)
		a.Add(a, a)
	}
	vreach("end")
	vassert(gtSnap(b) == bv, "a mutating call on one point does not change another point")
	vassert(gtSnap(fresh) == fv, "an operand other than the receiver stays unchanged")
	again := newPointGT()
	again.Base()
	vassert(again.g != a.g && again.g != b.g && again.g != fresh.g, "Base gives the receiver storage of its own")
}

// native replay on the real arithmetic: the same programs, compared through the encodings
func HarnessGTValueSemanticsReplay(p0, p1 int) {
	ok := true
	enc := func(p *pointGT) string { b, _ := p.MarshalBinary(); return string(b) }
	s := mod.NewInt64(5, OrderMod)
	for how := 0; how <= 4; how++ {
		for mut := 0; mut <= 4; mut++ {
			a, b := newPointGT(), newPointGT()
			switch how {
			case 0:
				a.Base()
				b.Base()
			case 1:
				a.Null()
				b.Null()
			case 2:
				b.Base()
				b.Add(b, b)
				a.Set(b)
			case 3:
				b.Base()
				a = b.Clone().(*pointGT)
			case 4:
				a.Mul(s, nil)
				b.Mul(s, nil)
			}
			before := enc(b)
			fresh := newPointGT()
			fresh.Base()
			fb := enc(fresh)
			switch mut {
			case 0:
				a.Add(a, a)
			case 1:
				a.Neg(a)
			case 2:
				a.Null()
			case 3:
				a.Mul(s, a)
			case 4:
				a.Set(fresh)
				a.Add(a, a)
			}
			again := newPointGT()
			again.Base()
			ok = ok && enc(b) == before && enc(fresh) == fb && enc(again) == fb
		}
	}
	for _, id := range []string{"distinct points have distinct storage", "a mutating call on one point does not change another point", "an operand other than the receiver stays unchanged", "Base gives the receiver storage of its own"} {
		vassert(ok, id)
	}
}

// C20 — obtaining the generator / neutral element of GT (Base, Null, Mul by the implicit generator) for a point of
// one's own only READS what is shared (the suite, package-level constants): no store to memory that existed before.
func HarnessGTSharedReadOnly(p0 int) {
	s := mod.NewInt64(int64(nondetIntRange(2, 1000)), OrderMod)
	effectsBegin()
	a := newPointGT()
	switch p0 {
	case 0:
		a.Base()
	case 1:
		a.Null()
	case 2:
		a.Mul(s, nil)
	}
	effectsEnd()
	vreach("end")
}

// race confirmation: goroutines that share nothing but the package each set their own point to the generator, first thing
func RaceGTSharedReadOnly(p0 int) {
	done := make(chan bool)
	for g := 0; g < 4; g++ {
		go func() {
			for k := 0; k < 3; k++ {
				a := newPointGT()
				a.Base()
				b := newPointGT()
				b.Mul(mod.NewInt64(3, OrderMod), nil)
			}
			done <- true
		}()
	}
	for g := 0; g < 4; g++ {
		<-done
	}
}
