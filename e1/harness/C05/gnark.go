package gnark

import "go.dedis.ch/kyber/v4"

// C05 — value semantics of the gnark BLS12-381 adapters: every aliasing pattern of receiver and operands
// gives the result of the same operation on fresh copies; operands other than the receiver are unchanged;
// the receiver is returned. gnark-crypto itself is uninterpreted (contracts in the spec).

func arbG1(i int) *G1Elt {
	p := new(G1Elt)
	if verifNative() {
		p.Base()
		b := new(G1Elt).Base()
		for k := 0; k < i+1; k++ {
			p.Add(p.Clone(), b)
		}
		return p
	}
	n := [3]string{"A", "B", "C"}
	verifOpaque(&p.inner, n[i])
	return p
}

func g1Same(x, y *G1Elt) bool { return verifSame(&x.inner, &y.inner) }

// op: 0 Add, 1 Sub ; pat: 0 r,a,b distinct; 1 r=a; 2 r=b; 3 a=b; 4 r=a=b
func HarnessGnarkG1Binary(p0, p1 int) {
	a, b, r := arbG1(0), arbG1(1), arbG1(2)
	a0, b0 := a.Clone().(*G1Elt), b.Clone().(*G1Elt)
	do := func(recv *G1Elt, x, y kyber.Point) kyber.Point {
		if p0 == 0 {
			return recv.Add(x, y)
		}
		return recv.Sub(x, y)
	}
	// reference on fresh copies
	refAB := do(new(G1Elt), a.Clone(), b.Clone()).(*G1Elt)
	refAA := do(new(G1Elt), a.Clone(), a.Clone()).(*G1Elt)
	var res kyber.Point
	var recv *G1Elt
	switch p1 {
	case 0:
		recv = r
		res = do(r, a, b)
		vassert(g1Same(r, refAB), "r.op(a,b) == op on fresh copies")
	case 1:
		recv = a
		res = do(a, a, b)
		vassert(g1Same(a, refAB), "a.op(a,b) (receiver is the first operand) == op on fresh copies")
		vassert(g1Same(b, b0), "a.op(a,b): b unchanged")
	case 2:
		recv = b
		res = do(b, a, b)
		vassert(g1Same(b, refAB), "b.op(a,b) (receiver is the second operand) == op on fresh copies")
		vassert(g1Same(a, a0), "b.op(a,b): a unchanged")
	case 3:
		recv = r
		res = do(r, a, a)
		vassert(g1Same(r, refAA), "r.op(a,a) == op on fresh copies")
		vassert(g1Same(a, a0), "r.op(a,a): a unchanged")
	case 4:
		recv = a
		res = do(a, a, a)
		vassert(g1Same(a, refAA), "a.op(a,a) == op on fresh copies")
	}
	vreach("end")
	vassert(res.(*G1Elt) == recv, "the receiver is returned")
	if p1 == 0 || p1 == 3 {
		vassert(g1Same(a, a0), "operand a unchanged")
	}
	if p1 == 0 {
		vassert(g1Same(b, b0), "operand b unchanged")
	}
}
