package kilic

import "go.dedis.ch/kyber/v4"

// C05 — value semantics of the kilic BLS12-381 adapters (kilic/bls12-381 itself is uninterpreted).

func arbKG1(i int) *G1Elt {
	p := NullG1()
	if verifNative() {
		b := NullG1().Base()
		p.Set(b)
		for k := 0; k < i+1; k++ {
			p.Add(p.Clone(), b)
		}
		return p
	}
	n := [3]string{"A", "B", "C"}
	verifOpaque(p.p, n[i])
	return p
}
func arbKG2(i int) *G2Elt {
	p := NullG2()
	if verifNative() {
		b := NullG2().Base()
		p.Set(b)
		for k := 0; k < i+1; k++ {
			p.Add(p.Clone(), b)
		}
		return p
	}
	n := [3]string{"A", "B", "C"}
	verifOpaque(p.p, n[i])
	return p
}
func arbKGT(i int) *GTElt {
	p := newEmptyGT()
	if verifNative() {
		s := NewBLS12381Suite()
		g := s.Pair(NullG1().Base(), NullG2().Base()).(*GTElt)
		p.Set(g)
		for k := 0; k < i+1; k++ {
			p.Add(p.Clone(), g)
		}
		return p
	}
	n := [3]string{"A", "B", "C"}
	verifOpaque(p.f, n[i])
	return p
}

// p0: 0 G1.Null, 1 G1.Base, 2 G2.Null, 3 G2.Base
func HarnessKilicNullBase(p0 int) {
	switch p0 {
	case 0, 1:
		k := arbKG1(0)
		var res kyber.Point
		if p0 == 0 {
			res = k.Null()
		} else {
			res = k.Base()
		}
		vreach("end")
		vassert(verifSame(k.p, res.(*G1Elt).p), "G1: the receiver holds the value that is returned")
		vassert(res.(*G1Elt) == k, "G1: the receiver is returned")
	case 2, 3:
		k := arbKG2(0)
		var res kyber.Point
		if p0 == 2 {
			res = k.Null()
		} else {
			res = k.Base()
		}
		vreach("end")
		vassert(verifSame(k.p, res.(*G2Elt).p), "G2: the receiver holds the value that is returned")
		vassert(res.(*G2Elt) == k, "G2: the receiver is returned")
	}
}

// GT binary operations: p0: 0 Add, 1 Sub ; p1: aliasing pattern 0 distinct, 1 r=a, 2 r=b, 3 a=b, 4 r=a=b
func HarnessKilicGTBinary(p0, p1 int) {
	a, b, r := arbKGT(0), arbKGT(1), arbKGT(2)
	a0, b0 := a.Clone().(*GTElt), b.Clone().(*GTElt)
	do := func(recv *GTElt, x, y kyber.Point) kyber.Point {
		if p0 == 0 {
			return recv.Add(x, y)
		}
		return recv.Sub(x, y)
	}
	same := func(x, y *GTElt) bool { return verifSame(x.f, y.f) }
	// the specification of the operation in terms of the library: Add = Mul, Sub = Mul by the inverse
	spec := func(x, y *GTElt) *GTElt {
		o := newEmptyGT()
		if p0 == 0 {
			o.Add(x.Clone(), y.Clone())
		} else {
			n := newEmptyGT().Neg(y.Clone())
			o.Add(x.Clone(), n)
		}
		return o
	}
	refAB, refAA := spec(a, b), spec(a, a)
	var res kyber.Point
	var recv *GTElt
	switch p1 {
	case 0:
		recv, res = r, do(r, a, b)
		vassert(same(r, refAB), "GT r.op(a,b): receiver holds the result")
	case 1:
		recv, res = a, do(a, a, b)
		vassert(same(a, refAB), "GT a.op(a,b): receiver holds the result")
	case 2:
		recv, res = b, do(b, a, b)
		vassert(same(b, refAB), "GT b.op(a,b): receiver holds the result")
	case 3:
		recv, res = r, do(r, a, a)
		vassert(same(r, refAA), "GT r.op(a,a): receiver holds the result")
	case 4:
		recv, res = a, do(a, a, a)
		vassert(same(a, refAA), "GT a.op(a,a): receiver holds the result")
	}
	vreach("end")
	vassert(res.(*GTElt) == recv, "GT: the receiver is returned")
	if p1 == 0 || p1 == 3 || p1 == 2 {
		vassert(same(a, a0), "GT: operand a unchanged")
	}
	if p1 == 0 || p1 == 1 {
		vassert(same(b, b0), "GT: operand b unchanged")
	}
}
