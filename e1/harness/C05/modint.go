package mod

import (
	"math/big"

	"go.dedis.ch/kyber/v4"
	"go.dedis.ch/kyber/v4/compatible/compatiblemod"
)

// C05 — mod.Int (the scalar type of edwards25519vartime, P-256, the residue group, bn256, bn254 and the field-element type
// of edwards25519vartime): every arithmetic method computes the same mathematical function for every aliasing pattern
// of receiver and operands and from an ARBITRARY previous value of the receiver; operands other than the receiver stay
// unchanged; the receiver is returned. Modulus p0 concrete, all values symbolic; math/big as mathematical integers.

func miArb(m *compatiblemod.Mod, p0 int) (*Int, int64) {
	v := int64(nondetIntRange(0, p0-1))
	return NewInt64(v, m), v
}

// p1: operation; p2: aliasing pattern (0 distinct, 1 r=a, 2 r=b, 3 a=b, 4 r=a=b)
func HarnessModIntAlias(p0, p1, p2 int) {
	m := compatiblemod.NewInt(int64(p0))
	M := int64(p0)
	a, a0 := miArb(m, p0)
	b, b0 := miArb(m, p0)
	r, _ := miArb(m, p0) // arbitrary stale value in the receiver
	switch p2 {
	case 1:
		r = a
	case 2:
		r = b
	case 3:
		b, b0 = a, a0
	case 4:
		b, b0 = a, a0
		r = a
	}
	k := int64(nondetIntRange(-1000, 1000))
	var res kyber.Scalar
	var want int64
	unary := false
	switch p1 {
	case 0:
		res, want = r.Add(a, b), (a0+b0)%M
	case 1:
		res, want = r.Sub(a, b), (a0-b0+M)%M
	case 2:
		res, want, unary = r.Neg(a), (M-a0)%M, true
	case 3:
		res, want = r.Mul(a, b), (a0*b0)%M
	case 4:
		res, want, unary = r.Set(a), a0, true
	case 5:
		res, want, unary = r.Zero(), 0, true
	case 6:
		res, want, unary = r.One(), 1%M, true
	case 7:
		res, want, unary = r.SetInt64(k), (k+1000*M)%M, true
	case 8:
		res, want, unary = r.SetUint64(uint64(k+1000)), (k+1000)%M, true
	}
	vreach("end")
	rp, isInt := res.(*Int)
	vassert(isInt && rp == r, "the receiver is returned")
	vassert(r.V.Int.Int64() == want, "result is the mathematical function of the operand VALUES (any aliasing, any stale receiver value)")
	if r != a {
		vassert(a.V.Int.Int64() == a0, "operand a unchanged")
	}
	if r != b && !unary {
		vassert(b.V.Int.Int64() == b0, "operand b unchanged")
	}
	vassert(r.M == m && a.M == m, "modulus unchanged")
}

// native replay: same entry (no stubs) — the harness is directly replayable.

// Clone / Set independence: a later mutating call on one object does not change the other.
// p1: 0 Clone, 1 Set; p2: mutation (0 Add, 1 Neg, 2 Zero, 3 SetInt64, 4 Mul)
func HarnessModIntCopy(p0, p1, p2 int) {
	m := compatiblemod.NewInt(int64(p0))
	src, s0 := miArb(m, p0)
	oth, _ := miArb(m, p0)
	var cp *Int
	if p1 == 0 {
		cp = src.Clone().(*Int)
	} else {
		cp, _ = miArb(m, p0)
		cp.Set(src)
	}
	vassert(cp.V.Int.Int64() == s0, "copy equals its source")
	for side := 0; side < 2; side++ {
		mut, keep := src, cp
		if side == 1 {
			mut, keep = cp, src
		}
		before := keep.V.Int.Int64()
		switch p2 {
		case 0:
			mut.Add(mut, oth)
		case 1:
			mut.Neg(mut)
		case 2:
			mut.Zero()
		case 3:
			mut.SetInt64(7)
		case 4:
			mut.Mul(mut, oth)
		}
		vassert(keep.V.Int.Int64() == before, "a later operation on one object does not change the other")
	}
	vreach("end")
}

// C02 — SetBytes / NewIntBytes: the value of the byte string in the declared byte order, REDUCED modulo m (in
// particular the encodings of m itself and of multiples of m give 0). p1: 0 big, 1 little endian; p2: length.
func HarnessModIntSetBytes(p0, p1, p2 int) {
	m := compatiblemod.NewInt(int64(p0))
	buf := make([]byte, p2)
	var v int64
	for k := range buf {
		buf[k] = nondetU8()
	}
	for k := 0; k < p2; k++ {
		if p1 == 1 {
			v = v*256 + int64(buf[p2-1-k])
		} else {
			v = v*256 + int64(buf[k])
		}
	}
	bo := kyber.BigEndian
	if p1 == 1 {
		bo = kyber.LittleEndian
	}
	i := NewIntBytes(buf, m, bo)
	vreach("end")
	got := i.V.Int.Int64()
	vassert(got == v%int64(p0), "SetBytes: the value of the bytes in the declared order, reduced modulo m")
	vassert(got >= 0 && got < int64(p0), "SetBytes: the result is canonical (0 <= v < m)")
	j, _ := miArb(m, p0)
	j.BO = bo
	j.SetBytes(buf)
	vassert(j.V.Int.Int64() == got, "SetBytes on a used receiver gives the same value")
}

// C02 — moduli wider than a machine word (every group order of the library is): SetInt64 / NewInt64 / Init64 for ALL
// int64 values (negative ones wrap to m - |v|, including the minimum) and SetUint64 for ALL uint64 values are the value
// reduced into [0, m). p0: 0 -> m = 2^64 + 13, 1 -> m = 2^127 - 1, 2 -> m = 2^252 + 27742317777372353535851937790883648493
// (the Ed25519 group order); p1: 0 NewInt64, 1 SetInt64 on a used receiver, 2 SetUint64 on a used receiver, 3 Init64.
func HarnessModIntWide(p0, p1 int) {
	M := new(big.Int).Lsh(big.NewInt(1), 64)
	M.Add(M, big.NewInt(13))
	switch p0 {
	case 1:
		M.Lsh(big.NewInt(1), 127)
		M.Sub(M, big.NewInt(1))
	case 2:
		M.SetString("7237005577332262213973186563042994240857116359379907606001950938285454250989", 10)
	}
	m := compatiblemod.FromBigInt(M)
	v := nondetI64()
	u := nondetU64()
	var got *Int
	signed := true
	switch p1 {
	case 0:
		got = NewInt64(v, m)
	case 1:
		got = NewInt64(int64(nondetIntRange(0, 1000)), m)
		got.SetInt64(v)
	case 2:
		got = NewInt64(int64(nondetIntRange(0, 1000)), m)
		got.SetUint64(u)
		signed = false
	case 3:
		got = new(Int).Init64(v, m)
	}
	vreach("end")
	vassert(got.V.Int.Sign() >= 0 && got.V.Int.Cmp(M) < 0, "the result is canonical (0 <= value < m)")
	d := new(big.Int)
	if signed {
		d.Sub(&got.V.Int, big.NewInt(v))
	} else {
		d.Sub(&got.V.Int, new(big.Int).SetUint64(u))
	}
	d.Mod(d, M)
	vassert(d.Sign() == 0, "the result is congruent to the argument modulo m")
}
