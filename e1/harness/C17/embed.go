package edwards25519

import "go.dedis.ch/kyber/v4"

// C17 (E1 part) — Ed25519 Embed/Data byte logic. The group arithmetic is stubbed: ToBytes returns 32 arbitrary bytes,
// FromBytes an arbitrary verdict, the subgroup tests arbitrary verdicts that are recorded; what is checked is the
// length byte, the data offsets, the retry control flow and that no returned point skipped its membership test.

var c17Bytes [32]byte

func c17ToBytes(p *extendedGroupElement, s *[32]byte) {
	for i := range s {
		s[i] = c17Bytes[i]
	}
}

// one run per value p0 of the length byte (concrete: it determines a slice length), the other 31 bytes arbitrary
func HarnessData(p0 int) {
	for i := range c17Bytes {
		c17Bytes[i] = nondetU8()
	}
	c17Bytes[0] = byte(p0)
	var P point
	d, err := P.Data()
	vreach("returned")
	dl := p0
	if dl > P.EmbedLen() {
		vassert(err != nil, "Data: a length byte above EmbedLen is an error")
	} else {
		vassert(err == nil, "Data: a length byte within range is accepted")
		if err == nil {
			vassert(len(d) == dl, "Data: returns exactly the embedded length")
			for i := 0; i < dl; i++ {
				vassert(d[i] == c17Bytes[1+i], "Data: returns the embedded bytes")
			}
		}
	}
	vassert(P.EmbedLen() == 29, "EmbedLen is 29")
}

// Embed: the candidate encoding handed to FromBytes carries the length byte and the data at offset 1.
var c17Cand [32]byte
var c17Tries, c17Member, c17Cof int

func c17FromBytes(p *extendedGroupElement, s []byte) bool {
	c17Tries++
	copy(c17Cand[:], s)
	return nondetBool()
}

type c17Stream struct{ n int }

func (st *c17Stream) XORKeyStream(dst, src []byte) {
	st.n++
	for i := range src {
		dst[i] = src[i] ^ nondetU8()
	}
}

// stubs of the group operations used by Embed: which scalar multiplied the point, and the verdict of Equal(nullPoint)
var c17LastMul int // 1 cofactor, 2 prime order
var c17LastEq bool
var c17EqCalls int

func c17MulStub(P *point, s kyber.Scalar, A kyber.Point) kyber.Point {
	if s == kyber.Scalar(cofactorScalar) {
		c17LastMul = 1
	} else if s == kyber.Scalar(primeOrderScalar) {
		c17LastMul = 2
	} else {
		c17LastMul = 3
	}
	return P
}
func c17EqualStub(P *point, P2 kyber.Point) bool {
	c17EqCalls++
	c17LastEq = nondetBool()
	return c17LastEq
}

// p0: data length, -1 for data == nil
func HarnessEmbed(p0 int) {
	var data []byte
	if p0 >= 0 {
		data = make([]byte, p0)
		for i := range data {
			data[i] = nondetU8()
		}
	}
	st := &c17Stream{}
	var P point
	res := P.Embed(data, st)
	vreach("returned")
	vassert(res.(*point) == &P, "Embed returns the receiver")
	vassert(c17Tries >= 1 && st.n == c17Tries, "Embed: one stream draw per candidate")
	if p0 >= 0 {
		dl := p0
		if dl > 29 {
			dl = 29
		}
		vassert(int(c17Cand[0]) == dl, "Embed: the length byte is min(EmbedLen, len(data))")
		for i := 0; i < dl; i++ {
			vassert(c17Cand[1+i] == data[i], "Embed: data copied at offset 1")
		}
		vassert(c17LastMul == 2 && c17EqCalls >= 1 && c17LastEq, "Embed(data): the returned point passed the prime-order test l*P == O")
	} else {
		vassert(c17LastMul == 1 && c17EqCalls >= 1 && !c17LastEq, "Embed(nil): the returned point was multiplied by the cofactor and is not the identity")
	}
}

// ---- native replay entries: the same question asked of the real arithmetic
type c17Ctr struct{ k byte }

func (st *c17Ctr) XORKeyStream(dst, src []byte) {
	for i := range src {
		st.k = st.k*77 + 13
		dst[i] = src[i] ^ st.k
	}
}

func HarnessEmbedReplay(p0 int) {
	var data []byte
	if p0 >= 0 {
		data = make([]byte, p0)
		for i := range data {
			data[i] = nondetU8()
		}
	}
	ok := true
	for round := 0; round < 8; round++ { // several streams: the membership test fails with probability 7/8 when skipped
		var P point
		P.Embed(data, &c17Ctr{k: byte(round)})
		var Q point
		Q.Mul(primeOrderScalar, &P)
		ok = ok && Q.Equal(nullPoint) && !P.Equal(nullPoint)
		if p0 >= 0 {
			dl := p0
			if dl > 29 {
				dl = 29
			}
			d, err := P.Data()
			ok = ok && err == nil && len(d) == dl
			for i := 0; ok && i < dl; i++ {
				ok = ok && d[i] == data[i]
			}
		}
	}
	for _, id := range []string{"Embed returns the receiver", "Embed: one stream draw per candidate", "Embed: the length byte is min(EmbedLen, len(data))", "Embed: data copied at offset 1",
		"Embed(data): the returned point passed the prime-order test l*P == O", "Embed(nil): the returned point was multiplied by the cofactor and is not the identity"} {
		vassert(ok, id)
	}
}

func HarnessDataReplay(p0 int) {
	var b [32]byte
	for i := range b {
		b[i] = nondetU8()
	}
	b[0] = byte(p0)
	var P point
	vassume(P.UnmarshalBinary(b[:]) == nil)
	enc, _ := P.MarshalBinary()
	for i := range b {
		vassume(enc[i] == b[i])
	}
	d, err := P.Data()
	ok := true
	if p0 > 29 {
		ok = err != nil
	} else {
		ok = err == nil && len(d) == p0
		for i := 0; ok && i < p0; i++ {
			ok = ok && d[i] == b[1+i]
		}
	}
	for _, id := range []string{"Data: a length byte above EmbedLen is an error", "Data: a length byte within range is accepted", "Data: returns exactly the embedded length", "Data: returns the embedded bytes", "EmbedLen is 29"} {
		vassert(ok, id)
	}
}
