package bn256

import "math/big"

// C17 — bn256 G1 Embed: whatever the stream delivers and however many candidates are tried, the x-coordinate of the point
// that is returned carries the length byte min(EmbedLen, len(data)) and the data bytes at offset 1 (so that Data() gives
// them back), and it is the candidate that passed both the square-root test and IsOnCurve. The field and curve arithmetic
// is replaced by recording stubs (deriveY: arbitrary verdict; newGFpFromBigInt: records the integer it is handed;
// IsOnCurve: arbitrary verdict); the stream returns arbitrary bytes.

type beStream struct{ n int }

func (s *beStream) XORKeyStream(dst, src []byte) {
	for i := range dst {
		dst[i] = src[i] ^ nondetU8()
	}
	s.n++
}

var beLastX *big.Int // the integer handed to newGFpFromBigInt for the x-coordinate of the latest candidate
var beConv int
var beDerive int

func beDeriveY(x *big.Int) *big.Int {
	beDerive++
	if nondetBool() {
		return nil
	}
	return big.NewInt(int64(nondetIntRange(0, 1000)))
}

func beNewGFp(b *big.Int) *gfP {
	if beConv%2 == 0 {
		beLastX = new(big.Int).Set(b)
	}
	beConv++
	return &gfP{}
}

func beNewGFpSmall(x int64) *gfP { return &gfP{} }

func beIsOnCurve(c *curvePoint) bool { return nondetBool() }

// p0: length of the data (-1: nil)
func HarnessBNEmbed(p0 int) {
	var data []byte
	if p0 >= 0 {
		data = make([]byte, p0)
		for i := range data {
			data[i] = nondetU8()
		}
	}
	st := &beStream{}
	P := newPointG1()
	res := P.Embed(data, st)
	vreach("returned")
	vassert(res.(*pointG1) == P, "Embed returns the receiver")
	vassert(beLastX != nil && beConv >= 2, "the returned point was built from a candidate x")
	if p0 >= 0 {
		dl := p0
		if dl > 29 {
			dl = 29
		}
		// the top 1+dl bytes of the 32-byte big-endian x: length byte, then the data
		want := big.NewInt(int64(dl))
		for i := 0; i < dl; i++ {
			want.Lsh(want, 8)
			want.Add(want, big.NewInt(int64(data[i])))
		}
		got := new(big.Int).Rsh(beLastX, uint(8*(31-dl)))
		vassert(got.Cmp(want) == 0, "the x-coordinate of the returned point carries the length byte and the data at offset 1")
		vassert(beLastX.Sign() >= 0 && beLastX.Cmp(new(big.Int).Lsh(big.NewInt(1), 256)) < 0, "the candidate fits 32 bytes")
	}
}

type beFF struct{ n int }

// a stream whose first blocks are all ones (the adversarial prefix), then a counter
func (s *beFF) XORKeyStream(dst, src []byte) {
	for i := range dst {
		v := byte(0xff)
		if s.n >= 64 {
			v = byte(s.n*7 + 3)
		}
		dst[i] = src[i] ^ v
		s.n++
	}
}

// native replay: the real Embed under adversarial and ordinary streams is lossless for every data length
func HarnessBNEmbedReplay(p0 int) {
	ok := true
	for l := 0; l <= 33; l++ {
		data := make([]byte, l)
		for i := range data {
			data[i] = byte(3*i + l)
		}
		for _, st := range []interface {
			XORKeyStream(dst, src []byte)
		}{&beFF{}, &beFF{n: 64}} {
			P := newPointG1()
			P.Embed(data, st)
			got, err := P.Data()
			want := data
			if len(want) > 29 {
				want = want[:29]
			}
			ok = ok && err == nil && string(got) == string(want)
		}
	}
	for _, id := range []string{"Embed returns the receiver", "the returned point was built from a candidate x", "the x-coordinate of the returned point carries the length byte and the data at offset 1", "the candidate fits 32 bytes"} {
		vassert(ok, id)
	}
}
