package edwards25519vartime

import (
	"go.dedis.ch/kyber/v4"
	"go.dedis.ch/kyber/v4/group/mod"
)

// C17 — Data() of the variable-time Edwards points (curve.data, shared by the basic, projective and extended
// representations): for every affine y (arbitrary bytes) the embedded data is refused exactly when the length byte (the
// least significant byte of y) exceeds EmbedLen, and otherwise consists of exactly the bytes 1..len of the little-endian
// encoding. p0: number of bytes of the minimal encoding of y (case split: big.Int.Bytes has a value-dependent length);
// p1: the length byte. The curve object is dumped natively from an initialised Ed25519 instance.
var verifCurve17 = func() *curve {
	c := new(ProjectiveCurve)
	c.Init(ParamEd25519(), false)
	return &c.curve
}()

func HarnessVartimeData(p0, p1 int) {
	c := verifCurve17
	be := make([]byte, p0) // big-endian minimal encoding of y: the first byte is not zero
	for i := range be {
		lo, hi := 0, 255
		if i == 0 {
			lo = 1
			if p0 == 32 {
				hi = 127 // y < 2^255
			}
		}
		be[i] = nondetU8Range(lo, hi)
	}
	if p0 > 0 {
		be[p0-1] = byte(p1)
	}
	var x, y mod.Int
	m := c.P.ToCompatibleMod()
	y.M, y.BO = m, kyber.BigEndian
	y.V.Int.SetBytes(be)
	vassume(y.V.Int.Cmp(&c.P.Int) < 0)
	x.Init64(int64(nondetIntRange(0, 1000)), m)
	data, err := c.data(&x, &y)
	vreach("end")
	el := c.embedLen()
	vassert(el == 29, "EmbedLen of the 255-bit curve is 29")
	lenByte := 0
	if p0 > 0 {
		lenByte = p1
	}
	vassert((err != nil) == (lenByte > el), "Data reports an error exactly when the length byte exceeds EmbedLen")
	if err == nil {
		vassert(len(data) == lenByte, "Data returns exactly length-byte many bytes")
		for i := 0; i < len(data); i++ {
			// little-endian byte i+1 of y = big-endian byte p0-2-i (zero beyond the minimal encoding)
			want := byte(0)
			if p0-2-i >= 0 {
				want = be[p0-2-i]
			}
			vassert(data[i] == want, "Data returns the bytes 1..len of the little-endian encoding of y")
		}
	}
}
