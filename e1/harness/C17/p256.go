package p256

import (
	"crypto/elliptic"
	"math/big"
)

// C17 — P-256 Data(): the embedded payload is read at fixed offsets of the LEFT-PADDED 32-byte x-coordinate, whatever
// the number of leading zero bytes of x; never panics. p0 = byte length of x (0..32), p1 = the length byte.

type c17Curve struct{ params *elliptic.CurveParams }

func (c *c17Curve) Params() *elliptic.CurveParams                            { return c.params }
func (c *c17Curve) IsOnCurve(x, y *big.Int) bool                             { return true }
func (c *c17Curve) Add(x1, y1, x2, y2 *big.Int) (*big.Int, *big.Int)         { panic("stub") }
func (c *c17Curve) Double(x1, y1 *big.Int) (*big.Int, *big.Int)              { panic("stub") }
func (c *c17Curve) ScalarMult(x1, y1 *big.Int, k []byte) (*big.Int, *big.Int) { panic("stub") }
func (c *c17Curve) ScalarBaseMult(k []byte) (*big.Int, *big.Int)             { panic("stub") }

func HarnessP256Data(p0, p1 int) {
	prime, _ := new(big.Int).SetString("115792089210356248762697446949407573530086143415290314195533631308867097853951", 10)
	params := &elliptic.CurveParams{P: prime, BitSize: 256, Name: "P-256"}
	c := &curve{Curve: &c17Curve{params}, p: params}
	var full [32]byte // the left-padded coordinate
	for i := 32 - p0; i < 32; i++ {
		if i == 32-p0 {
			full[i] = nondetU8Range(1, 255) // most significant byte of x: non-zero, so that x has exactly p0 bytes
		} else {
			full[i] = nondetU8()
		}
	}
	if p0 >= 1 {
		full[31] = byte(p1)
		if p0 == 1 {
			vassume(p1 != 0)
		}
	}
	x := new(big.Int).SetBytes(full[32-p0:])
	P := &curvePoint{x: x, y: big.NewInt(1), c: c}
	d, err := P.Data()
	vreach("returned")
	dl := int(full[31])
	if dl > 30 {
		vassert(err != nil, "Data: a length byte above EmbedLen is an error")
		return
	}
	vassert(err == nil && len(d) == dl, "Data: returns exactly the embedded length")
	ok := err == nil && len(d) == dl
	for i := 0; ok && i < dl; i++ {
		ok = ok && d[i] == full[31-dl+i]
	}
	vassert(ok, "Data: returns the bytes at the fixed offsets of the left-padded coordinate")
	vassert(P.EmbedLen() == 30, "EmbedLen is 30")
}

// C03 — P-256 MarshalBinary: 0x04 || x || y with both coordinates left-padded to 32 bytes whatever their number of
// leading zero bytes; decoding the result (membership = stub answering true) gives the coordinates back.
// p0, p1: byte lengths of x and y (0..32)
func HarnessP256Marshal(p0, p1 int) {
	prime, _ := new(big.Int).SetString("115792089210356248762697446949407573530086143415290314195533631308867097853951", 10)
	params := &elliptic.CurveParams{P: prime, BitSize: 256, Name: "P-256"}
	c := &curve{Curve: &c17Curve{params}, p: params}
	var fx, fy [32]byte
	for i := 32 - p0; i < 32; i++ {
		if i == 32-p0 {
			fx[i] = nondetU8Range(1, 255)
		} else {
			fx[i] = nondetU8()
		}
	}
	for i := 32 - p1; i < 32; i++ {
		if i == 32-p1 {
			fy[i] = nondetU8Range(1, 255)
		} else {
			fy[i] = nondetU8()
		}
	}
	P := &curvePoint{x: new(big.Int).SetBytes(fx[32-p0:]), y: new(big.Int).SetBytes(fy[32-p1:]), c: c}
	enc, err := P.MarshalBinary()
	vreach("returned")
	vassert(err == nil && len(enc) == 65 && P.MarshalSize() == 65, "P-256 MarshalBinary: exactly MarshalSize = 65 bytes")
	ok := len(enc) == 65 && enc[0] == 4
	for i := 0; ok && i < 32; i++ {
		ok = ok && enc[1+i] == fx[i] && enc[33+i] == fy[i]
	}
	vassert(ok, "P-256 MarshalBinary: 0x04, then x and y left-padded to 32 bytes each")
}
