package main

import (
	"encoding/json"
	"fmt"
	"go/types"
	"math/big"
	"os"
	"os/exec"
	"path/filepath"
	"strings"

	"golang.org/x/tools/go/ssa"
)

// Package-level variables: init() is not executed symbolically. A generated in-package helper (overlay,
// run natively with go test) dumps the values of the globals a harness reads; they are loaded as concrete
// initial memory. They are re-dumped from the current tree on every run, so an edited constant is seen.

const dumpHelper = `package %s

import (
	"encoding/json"
	"fmt"
	verifbigd "math/big"
	"reflect"
	"testing"
)

var verifDumpSeen = map[uintptr]bool{}

func verifDumpValue(v reflect.Value, depth int) any {
	if depth > 40 {
		return nil
	}
	if v.Kind() == reflect.Struct && v.Type().PkgPath() == "math/big" && v.Type().Name() == "Int" {
		// copy field-wise without Interface(): rebuild from the exported API through an addressable copy
		if v.CanAddr() {
			p := (*verifbigd.Int)(v.Addr().UnsafePointer())
			return map[string]any{"$big": p.String()}
		}
		c := reflect.New(v.Type()).Elem()
		c.Set(v)
		p := (*verifbigd.Int)(c.Addr().UnsafePointer())
		return map[string]any{"$big": p.String()}
	}
	switch v.Kind() {
	case reflect.Bool:
		return v.Bool()
	case reflect.Int, reflect.Int8, reflect.Int16, reflect.Int32, reflect.Int64:
		return fmt.Sprint(v.Int())
	case reflect.Uint, reflect.Uint8, reflect.Uint16, reflect.Uint32, reflect.Uint64, reflect.Uintptr:
		return fmt.Sprint(v.Uint())
	case reflect.String:
		return map[string]any{"$str": v.String()}
	case reflect.Array, reflect.Slice:
		if v.Kind() == reflect.Slice && v.IsNil() {
			return nil
		}
		out := make([]any, v.Len())
		for i := range out {
			out[i] = verifDumpValue(v.Index(i), depth+1)
		}
		return out
	case reflect.Struct:
		out := make([]any, v.NumField())
		for i := range out {
			out[i] = verifDumpValue(v.Field(i), depth+1)
		}
		return map[string]any{"$struct": out}
	case reflect.Ptr:
		if v.IsNil() {
			return nil
		}
		if verifDumpSeen[v.Pointer()] {
			return nil // cyclic / shared structure: the back reference is dropped
		}
		verifDumpSeen[v.Pointer()] = true
		r := map[string]any{"$ptr": verifDumpValue(v.Elem(), depth+1)}
		delete(verifDumpSeen, v.Pointer())
		return r
	case reflect.Interface:
		if v.IsNil() {
			return nil
		}
		return map[string]any{"$iface": v.Elem().Type().String(), "v": verifDumpValue(v.Elem(), depth+1)}
	}
	return map[string]any{"$unsupported": v.Kind().String()}
}

func TestVerifDump(t *testing.T) {
	out := map[string]any{}
%s
	b, _ := json.Marshal(out)
	fmt.Println("VERIFDUMP " + string(b))
}
`

func dumpGlobals(h HarnessSpec, names []string, overlay map[string][]byte) (map[string]any, error) {
	tmp, err := os.MkdirTemp("", "e1dump")
	if err != nil {
		return nil, err
	}
	defer os.RemoveAll(tmp)
	pkgDir := filepath.Join(*repoDir, strings.TrimPrefix(h.Pkg, "./"))
	// package name from any non-test file
	pkgName := ""
	ents, _ := os.ReadDir(pkgDir)
	ov := map[string]string{}
	k := 0
	for _, e := range ents {
		if !strings.HasSuffix(e.Name(), ".go") {
			continue
		}
		src, err := os.ReadFile(filepath.Join(pkgDir, e.Name()))
		if err != nil {
			continue
		}
		clause := ""
		for _, l := range strings.Split(string(src), "\n") {
			if strings.HasPrefix(l, "package ") {
				clause = strings.TrimSpace(l)
				break
			}
		}
		if strings.HasSuffix(e.Name(), "_test.go") {
			f := filepath.Join(tmp, fmt.Sprintf("stub%d.go", k))
			k++
			os.WriteFile(f, []byte(clause+"\n"), 0o644)
			ov[filepath.Join(pkgDir, e.Name())] = f
		} else if pkgName == "" && clause != "" {
			pkgName = strings.TrimPrefix(clause, "package ")
		}
	}
	for p, src := range overlay {
		f := filepath.Join(tmp, fmt.Sprintf("ov%d.go", k))
		k++
		os.WriteFile(f, src, 0o644)
		ov[p] = f
	}
	var body strings.Builder
	for _, n := range names {
		fmt.Fprintf(&body, "\tout[%q] = verifDumpValue(reflect.ValueOf(&%s).Elem(), 0)\n", n, n)
	}
	tf := filepath.Join(tmp, "dump_test.go")
	os.WriteFile(tf, []byte(fmt.Sprintf(dumpHelper, pkgName, body.String())), 0o644)
	ov[filepath.Join(pkgDir, "zz_verif_dump_test.go")] = tf
	ovj, _ := json.Marshal(map[string]any{"Replace": ov})
	ovf := filepath.Join(tmp, "ov.json")
	os.WriteFile(ovf, ovj, 0o644)
	argv := []string{"test", "-v", "-vet=off", "-count=1", "-overlay", ovf, "-run", "^TestVerifDump$", "-timeout", "120s"}
	if h.Tags != "" {
		argv = append(argv, "-tags="+h.Tags)
	}
	argv = append(argv, h.Pkg)
	cmd := exec.Command("go", argv...)
	cmd.Dir = *repoDir
	outb, _ := cmd.CombinedOutput()
	for _, l := range strings.Split(string(outb), "\n") {
		if strings.HasPrefix(l, "VERIFDUMP ") {
			var res map[string]any
			if err := json.Unmarshal([]byte(strings.TrimPrefix(l, "VERIFDUMP ")), &res); err != nil {
				return nil, err
			}
			return res, nil
		}
	}
	tail := string(outb)
	if len(tail) > 800 {
		tail = tail[len(tail)-800:]
	}
	return nil, fmt.Errorf("global dump failed: %s", strings.ReplaceAll(tail, "\n", " | "))
}

// BigV models a math/big.Int as a mathematical integer: a constant or (integer mode) a linear form.
type BigV struct {
	c    *big.Int
	lin  *Lin
	cell *Obj // shared-storage mode: the value lives in this cell; struct copies of the big.Int share it
}

func isBigIntType(t types.Type) bool {
	n, ok := t.(*types.Named)
	return ok && n.Obj().Pkg() != nil && n.Obj().Pkg().Path() == "math/big" && n.Obj().Name() == "Int"
}

// valueFromDump builds an executor value of type t from the dumped JSON tree.
func (m *Machine) valueFromDump(t types.Type, d any) Value {
	if isBigIntType(t) {
		if mp, ok := d.(map[string]any); ok {
			if s, ok := mp["$big"].(string); ok {
				v, _ := new(big.Int).SetString(s, 10)
				return BigV{c: v}
			}
		}
		return BigV{c: new(big.Int)}
	}
	switch u := t.Underlying().(type) {
	case *types.Basic:
		if u.Info()&types.IsBoolean != 0 {
			b, _ := d.(bool)
			return VBool{m.cbool(b)}
		}
		if u.Info()&types.IsString != 0 {
			if mp, ok := d.(map[string]any); ok {
				s, _ := mp["$str"].(string)
				return StrV{s}
			}
			return StrV{""}
		}
		s, _ := d.(string)
		v, ok := new(big.Int).SetString(s, 10)
		if !ok {
			v = new(big.Int)
		}
		return m.constInt(v, t)
	case *types.Array:
		l, _ := d.([]any)
		a := ArrayV{elems: make([]Value, u.Len())}
		for i := range a.elems {
			if i < len(l) {
				a.elems[i] = m.valueFromDump(u.Elem(), l[i])
			} else {
				a.elems[i] = m.zero(u.Elem())
			}
		}
		return a
	case *types.Slice:
		if d == nil {
			return SliceV{}
		}
		l, _ := d.([]any)
		a := ArrayV{elems: make([]Value, len(l))}
		for i := range a.elems {
			a.elems[i] = m.valueFromDump(u.Elem(), l[i])
		}
		o := m.newObj(a, "global-slice")
		o.fresh = false
		return SliceV{arr: o, len: len(l), cap: len(l)}
	case *types.Struct:
		var l []any
		if mp, ok := d.(map[string]any); ok {
			l, _ = mp["$struct"].([]any)
		}
		s := StructV{fields: make([]Value, u.NumFields())}
		for i := range s.fields {
			if i < len(l) {
				s.fields[i] = m.valueFromDump(u.Field(i).Type(), l[i])
			} else {
				s.fields[i] = m.zero(u.Field(i).Type())
			}
		}
		return s
	case *types.Pointer:
		if d == nil {
			return Ptr{}
		}
		mp, _ := d.(map[string]any)
		o := m.newObj(m.valueFromDump(u.Elem(), mp["$ptr"]), "global-pointee")
		o.fresh = false
		return Ptr{obj: o}
	}
	return m.zero(t)
}

var _ ssa.Value
