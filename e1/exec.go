package main

import (
	"fmt"
	"go/token"
	"go/types"
	"math/big"
	"strings"

	"golang.org/x/tools/go/ssa"
)

type frame struct {
	fn     *ssa.Function
	env    map[ssa.Value]Value
	visits map[int]int
	ipdom  map[*ssa.BasicBlock]*ssa.BasicBlock
	depth  int
	dbg    map[string]ssa.Value
}

func (m *Machine) get(f *frame, v ssa.Value) Value {
	switch x := v.(type) {
	case *ssa.Const:
		return m.constVal(x)
	case *ssa.Global:
		return Ptr{obj: m.global(x)}
	case *ssa.Function:
		return FuncV{fn: x}
	case *ssa.Builtin:
		return FuncV{}
	}
	r, ok := f.env[v]
	if !ok {
		panic("unbound ssa value " + v.Name() + " in " + f.fn.String())
	}
	return r
}

func (m *Machine) global(g *ssa.Global) *Obj {
	if o, ok := m.globals[g]; ok {
		return o
	}
	et := g.Type().(*types.Pointer).Elem()
	var init Value
	if d, ok := m.dump[g.Name()]; ok && m.entryFn != nil && g.Pkg == m.entryFn.Pkg {
		init = m.valueFromDump(et, d)
		o := m.newObj(init, g.String())
		o.fresh = false
		m.globalInit[o.id] = init
		m.globals[g] = o
		return o
	}
	if types.IsInterface(et) && et.String() == "error" {
		// package-level error values (io.EOF, ...) are created by errors.New in init(): distinct non-nil opaque errors
		init = IfaceV{typ: et, v: OpaqueV{"err:" + g.String()}}
	} else if pt, ok := et.Underlying().(*types.Pointer); ok {
		// lazily materialise the pointee of an init()-assigned pointer global
		po := m.newObj(m.zero(pt.Elem()), g.String())
		po.fresh = false
		init = Ptr{obj: po}
	} else {
		init = m.zero(et)
	}
	o := m.newObj(init, g.String())
	o.fresh = false
	m.globalInit[o.id] = init
	m.globals[g] = o
	return o
}


// step executes one non-terminator instruction.
func (m *Machine) step(f *frame, in ssa.Instruction) {
	depth := f.depth
	switch x := in.(type) {
	case *ssa.Phi:
	case *ssa.Alloc:
		f.env[x] = Ptr{obj: m.newObj(m.zero(x.Type().(*types.Pointer).Elem()), x.Comment)}
	case *ssa.BinOp:
		f.env[x] = m.binop(x.Op, m.get(f, x.X), m.get(f, x.Y), x.Type(), x.X.Type(), x.Pos())
	case *ssa.UnOp:
		f.env[x] = m.unop(f, x)
	case *ssa.Store:
		m.store(m.get(f, x.Addr).(Ptr), m.get(f, x.Val))
	case *ssa.Convert:
		f.env[x] = m.convert(m.get(f, x.X), x.X.Type(), x.Type(), x.Pos())
	case *ssa.ChangeType:
		f.env[x] = m.get(f, x.X)
	case *ssa.ChangeInterface:
		f.env[x] = m.get(f, x.X)
	case *ssa.MakeInterface:
		f.env[x] = IfaceV{typ: x.X.Type(), v: m.get(f, x.X)}
	case *ssa.TypeAssert:
		iv := m.get(f, x.X).(IfaceV)
		ok := iv.typ != nil && types.AssignableTo(iv.typ, x.AssertedType)
		var res Value
		if ok {
			if types.IsInterface(x.AssertedType) {
				res = iv
			} else {
				res = iv.v
			}
		} else if x.CommaOk {
			res = m.zero(x.AssertedType)
		} else {
			m.oblige(m.cbool(false), "failed type assertion", m.prog.Fset.Position(x.Pos()).String())
			m.fail("type assertion")
		}
		if x.CommaOk {
			f.env[x] = TupleV{[]Value{res, VBool{m.cbool(ok)}}}
		} else {
			f.env[x] = res
		}
	case *ssa.Extract:
		f.env[x] = m.get(f, x.Tuple).(TupleV).vs[x.Index]
	case *ssa.FieldAddr:
		p := m.get(f, x.X).(Ptr)
		if p.obj == nil && len(p.alts) == 0 {
			m.oblige(m.cbool(false), "nil pointer dereference", m.prog.Fset.Position(x.Pos()).String())
			m.fail("nil")
		}
		f.env[x] = ptrExtend(p, PathElem{k: x.Field})
	case *ssa.Field:
		f.env[x] = m.get(f, x.X).(StructV).fields[x.Field]
	case *ssa.IndexAddr:
		f.env[x] = m.indexAddr(f, x)
	case *ssa.Index:
		agg := m.get(f, x.X)
		idx, ok := concreteInt(m.get(f, x.Index))
		if !ok {
			panic("symbolic Index on value")
		}
		switch a := agg.(type) {
		case ArrayV:
			f.env[x] = a.elems[idx]
		case StrV:
			f.env[x] = m.constInt(big.NewInt(int64(a.s[idx])), types.Typ[types.Uint8])
		}
	case *ssa.Slice:
		f.env[x] = m.slice(f, x)
	case *ssa.MakeSlice:
		n, ok := concreteInt(m.get(f, x.Len))
		if !ok {
			panic("symbolic make length")
		}
		c, _ := concreteInt(m.get(f, x.Cap))
		if c < n {
			c = n
		}
		et := x.Type().Underlying().(*types.Slice).Elem()
		arr := ArrayV{elems: make([]Value, c)}
		for i := range arr.elems {
			arr.elems[i] = m.zero(et)
		}
		f.env[x] = SliceV{arr: m.newObj(arr, "makeslice"), len: n, cap: c}
	case *ssa.MakeClosure:
		fv := FuncV{fn: x.Fn.(*ssa.Function)}
		for _, b := range x.Bindings {
			fv.free = append(fv.free, m.get(f, b))
		}
		f.env[x] = fv
	case *ssa.Call:
		f.env[x] = m.doCall(f, x, depth)
	case *ssa.Panic:
		m.oblige(m.cbool(false), "explicit panic reachable", m.prog.Fset.Position(x.Pos()).String())
		m.fail("panic")
	case *ssa.DebugRef:
	case *ssa.Defer, *ssa.RunDefers:
		// deferred calls are only modelled in the standard library, where they are recover() guards around allocation
		// (bytes.growSlice) or unlocks: no-ops for the sequential, panic-free paths this executor follows
		if f.fn.Pkg == nil || strings.Contains(f.fn.Pkg.Pkg.Path(), ".") {
			panic(fmt.Sprintf("unsupported instruction %T in %s", in, f.fn))
		}
	default:
		panic(fmt.Sprintf("unsupported instruction %T in %s", in, f.fn))
	}
}

func (m *Machine) unop(f *frame, x *ssa.UnOp) Value {
	v := m.get(f, x.X)
	switch x.Op {
	case token.MUL:
		return m.load(v.(Ptr))
	case token.NOT:
		return VBool{cNot(v.(VBool).c)}
	case token.SUB:
		iv := v.(VInt)
		if m.intMode {
			r := iv.lin.scale(big.NewInt(-1))
			m.rangeObl(r, x.Type(), "negation", x.Pos())
			return VInt{lin: r}
		}
		return VInt{bv: bvNeg(iv.bv)}
	case token.XOR:
		iv := v.(VInt)
		if m.intMode {
			if w, signed, ok := intInfo(x.Type()); ok && !signed {
				// unsigned: ^x = (2^w-1) - x
				return VInt{lin: linConst(mask(w)).add(iv.lin, -1)}
			}
			// signed: ^x = -x-1
			return VInt{lin: iv.lin.scale(big.NewInt(-1)).add(linConstI(1), -1)}
		}
		return VInt{bv: bvNot(iv.bv)}
	}
	panic("unop " + x.Op.String())
}

func (m *Machine) indexAddr(f *frame, x *ssa.IndexAddr) Value {
	base := m.get(f, x.X)
	idxV := m.get(f, x.Index)
	var obj *Obj
	var path []PathElem
	var off, n int
	switch b := base.(type) {
	case Ptr: // pointer to array
		if len(b.alts) > 0 {
			// guarded choice of arrays: extend every alternative (concrete index only)
			k, ok := concreteInt(idxV)
			nn := int(x.X.Type().Underlying().(*types.Pointer).Elem().Underlying().(*types.Array).Len())
			if !ok {
				panic("symbolic index through a guarded pointer")
			}
			if k < 0 || k >= nn {
				m.oblige(m.cbool(false), fmt.Sprintf("index out of range [%d] with length %d", k, nn), m.prog.Fset.Position(x.Pos()).String())
				m.fail("index")
			}
			return ptrExtend(b, PathElem{k: k})
		}
		if b.obj == nil {
			m.oblige(m.cbool(false), "nil pointer dereference", m.prog.Fset.Position(x.Pos()).String())
			m.fail("nil")
		}
		obj, path = b.obj, append([]PathElem{}, b.path...)
		n = int(x.X.Type().Underlying().(*types.Pointer).Elem().Underlying().(*types.Array).Len())
	case SliceV:
		obj, off, n = b.arr, b.off, b.len
		path = append([]PathElem{}, b.base...)
	default:
		panic(fmt.Sprintf("IndexAddr on %T", base))
	}
	if k, ok := concreteInt(idxV); ok {
		if k < 0 || k >= n {
			m.oblige(m.cbool(false), fmt.Sprintf("index out of range [%d] with length %d", k, n), m.prog.Fset.Position(x.Pos()).String())
			m.fail("index")
		}
		return Ptr{obj: obj, path: append(path, PathElem{k: off + k})}
	}
	if m.intMode {
		// symbolic index in the integer encoding: a guarded choice among the n element addresses
		if n > 256 {
			panic("int mode: symbolic index into more than 256 elements")
		}
		il := idxV.(VInt).lin
		m.oblige(cAnd(cCmp("<=", linConstI(0), il), cCmp("<", il, linConstI(int64(n)))), fmt.Sprintf("index in range (len %d)", n), m.prog.Fset.Position(x.Pos()).String())
		m.cur.pc = append(m.cur.pc, cAnd(cCmp("<=", linConstI(0), il), cCmp("<", il, linConstI(int64(n)))))
		r := Ptr{}
		for k := 0; k < n; k++ {
			r.alts = append(r.alts, PtrAlt{g: cCmp("=", il, linConstI(int64(k))), p: Ptr{obj: obj, path: append(append([]PathElem{}, path...), PathElem{k: off + k})}})
		}
		return r
	}
	iv := idxV.(VInt).bv
	_, signed, _ := intInfo(x.Index.Type())
	inb := bvCmp("bvult", iv, bvConstI(int64(n), iv.w))
	_ = signed
	m.oblige(&Cond{bv: inb}, fmt.Sprintf("index in range (len %d)", n), m.prog.Fset.Position(x.Pos()).String())
	m.cur.pc = append(m.cur.pc, &Cond{bv: inb})
	if off != 0 {
		iv = bvBin("bvadd", iv, bvConstI(int64(off), iv.w))
	}
	total := len(m.cur.mem[obj.id].(ArrayV).elems)
	if len(path) > 0 {
		total = n
	}
	return Ptr{obj: obj, path: append(path, PathElem{sym: iv, n: total})}
}

func (m *Machine) slice(f *frame, x *ssa.Slice) Value {
	base := m.get(f, x.X)
	gi := func(v ssa.Value, def int) int {
		if v == nil {
			return def
		}
		k, ok := concreteInt(m.get(f, v))
		if !ok {
			if m.approxBits {
				// effect harnesses: the extent of a slice that is only read does not matter; take the default extent
				m.stats["approx_slice_bound"]++
				return def
			}
			panic("symbolic slice bound")
		}
		return k
	}
	switch b := base.(type) {
	case Ptr: // *array
		n := int(x.X.Type().Underlying().(*types.Pointer).Elem().Underlying().(*types.Array).Len())
		lo, hi := gi(x.Low, 0), gi(x.High, n)
		if lo < 0 || hi > n || lo > hi {
			m.oblige(m.cbool(false), "slice bounds out of range", m.prog.Fset.Position(x.Pos()).String())
			m.fail("slice")
		}
		if len(b.alts) > 0 {
			panic("slice of a guarded pointer")
		}
		return SliceV{arr: b.obj, base: append([]PathElem{}, b.path...), off: lo, len: hi - lo, cap: n - lo}
	case SliceV:
		lo, hi := gi(x.Low, 0), gi(x.High, b.len)
		if lo < 0 || hi > b.cap || lo > hi {
			m.oblige(m.cbool(false), fmt.Sprintf("slice bounds out of range [%d:%d] with capacity %d", lo, hi, b.cap), m.prog.Fset.Position(x.Pos()).String())
			m.fail("slice")
		}
		return SliceV{arr: b.arr, base: b.base, off: b.off + lo, len: hi - lo, cap: b.cap - lo}
	case StrV:
		lo, hi := gi(x.Low, 0), gi(x.High, len(b.s))
		return StrV{b.s[lo:hi]}
	}
	panic(fmt.Sprintf("slice of %T", base))
}

func (m *Machine) doCall(f *frame, x *ssa.Call, depth int) Value {
	cc := x.Common()
	var args []Value
	for _, a := range cc.Args {
		args = append(args, m.get(f, a))
	}
	if cc.IsInvoke() {
		recv := m.get(f, cc.Value).(IfaceV)
		if recv.typ == nil {
			m.oblige(m.cbool(false), "nil interface method call", m.prog.Fset.Position(x.Pos()).String())
			m.fail("nil iface")
		}
		if _, opaque := recv.v.(OpaqueV); opaque && cc.Method.Name() == "Error" {
			return StrV{"<error>"} // the text of an opaque error value is not the subject
		}
		fn := m.prog.LookupMethod(recv.typ, cc.Method.Pkg(), cc.Method.Name())
		if fn == nil {
			panic("no method " + cc.Method.Name() + " on " + recv.typ.String())
		}
		return m.call(fn, append([]Value{recv.v}, args...), nil, depth+1)
	}
	if b, ok := cc.Value.(*ssa.Builtin); ok {
		return m.builtin(b.Name(), args, x)
	}
	if fn := cc.StaticCallee(); fn != nil {
		var free []Value
		if mc, ok := cc.Value.(*ssa.MakeClosure); ok {
			for _, bnd := range mc.Bindings {
				free = append(free, m.get(f, bnd))
			}
		}
		return m.call(fn, args, free, depth+1)
	}
	fv, isFn := m.get(f, cc.Value).(FuncV)
	if !isFn || fv.fn == nil {
		// a function value the encoding does not know (e.g. a package-level func variable initialised by init(), which is not executed)
		m.oblige(m.cbool(false), "call of a nil / unknown function value", m.prog.Fset.Position(x.Pos()).String())
		m.fail("nil func")
	}
	return m.call(fv.fn, args, fv.free, depth+1)
}

func (m *Machine) builtin(name string, args []Value, x *ssa.Call) Value {
	switch name {
	case "len", "cap":
		switch a := args[0].(type) {
		case SliceV:
			if name == "cap" {
				return m.constInt(big.NewInt(int64(a.cap)), types.Typ[types.Int])
			}
			return m.constInt(big.NewInt(int64(a.len)), types.Typ[types.Int])
		case StrV:
			return m.constInt(big.NewInt(int64(len(a.s))), types.Typ[types.Int])
		}
	case "copy":
		dst := args[0].(SliceV)
		n := dst.len
		switch src := args[1].(type) {
		case SliceV:
			if src.len < n {
				n = src.len
			}
			tmp := make([]Value, n)
			for i := 0; i < n; i++ {
				tmp[i] = m.load(elemPtr(src, i))
			}
			for i := 0; i < n; i++ {
				m.store(elemPtr(dst, i), tmp[i])
			}
		case StrV:
			if len(src.s) < n {
				n = len(src.s)
			}
			for i := 0; i < n; i++ {
				m.store(elemPtr(dst, i), m.constInt(big.NewInt(int64(src.s[i])), types.Typ[types.Uint8]))
			}
		}
		return m.constInt(big.NewInt(int64(n)), types.Typ[types.Int])
	case "append":
		dst := args[0].(SliceV)
		src := args[1].(SliceV)
		et := x.Type().Underlying().(*types.Slice).Elem()
		arr := ArrayV{}
		for i := 0; i < dst.len; i++ {
			arr.elems = append(arr.elems, m.load(elemPtr(dst, i)))
		}
		for i := 0; i < src.len; i++ {
			arr.elems = append(arr.elems, m.load(elemPtr(src, i)))
		}
		_ = et
		return SliceV{arr: m.newObj(arr, "append"), len: len(arr.elems), cap: len(arr.elems)}
	case "min", "max":
		a, aok := concreteInt(args[0])
		b, bok := concreteInt(args[1])
		if aok && bok {
			if (name == "min") == (a < b) {
				return args[0]
			}
			return args[1]
		}
	}
	panic("builtin " + name)
}

// ---------- intrinsics & stubs ----------
func (m *Machine) nondet(name string, w int, signed bool, lo, hi *big.Int) Value {
	n := m.fresh(name)
	m.nondets = append(m.nondets, nondetInfo{name: n, w: w, signed: signed, lo: lo, hi: hi})
	if m.concrete != nil {
		v := big.NewInt(0)
		if m.concPos < len(m.concrete) {
			v, _ = new(big.Int).SetString(m.concrete[m.concPos], 10)
		}
		m.concPos++
		if m.intMode {
			return VInt{lin: linConst(v)}
		}
		return VInt{bv: bvConst(v, w)}
	}
	if m.intMode {
		if lo == nil {
			if signed {
				lo = new(big.Int).Neg(new(big.Int).Lsh(big.NewInt(1), uint(w-1)))
				hi = new(big.Int).Sub(new(big.Int).Lsh(big.NewInt(1), uint(w-1)), big.NewInt(1))
			} else {
				lo, hi = big.NewInt(0), mask(w)
			}
		}
		m.bounds[n] = [2]*big.Int{lo, hi}
		m.defs = append(m.defs, cAnd(cCmp("<=", linConst(lo), linSym(n)), cCmp("<=", linSym(n), linConst(hi))))
		return VInt{lin: linSym(n)}
	}
	v := bvVar(n, w)
	if lo != nil {
		// ranged input in bit-vector mode: the range is an assumption on the path
		var c *Expr
		if signed {
			c = bAnd(bvCmp("bvsle", bvConst(lo, w), v), bvCmp("bvsle", v, bvConst(hi, w)))
		} else {
			c = bAnd(bvCmp("bvule", bvConst(lo, w), v), bvCmp("bvule", v, bvConst(hi, w)))
		}
		m.cur.pc = append(m.cur.pc, &Cond{bv: c})
	}
	return VInt{bv: v}
}

func (m *Machine) intrinsic(fn *ssa.Function, args []Value) (Value, bool) {
	if r, ok := m.fieldSummary(fn, args); ok {
		return r, true
	}
	if r, ok := m.bigStub(fn, args); ok {
		return r, true
	}
	if fn.String() == "math/big.NewInt" {
		iv := args[0].(VInt)
		var b BigV
		if k, ok := concreteBig(iv); ok {
			v := new(big.Int).Set(k)
			if !m.intMode {
				v = iv.bv.signedVal()
			}
			b = BigV{c: v}
		} else {
			b = BigV{lin: iv.lin}
		}
		if m.bigShared {
			b = BigV{cell: m.newObj(b, "bigcell")}
		}
		return Ptr{obj: m.newObj(b, "big.NewInt")}, true
	}
	name := fn.Name()
	full := fn.String()
	switch {
	case name == "nondetU8":
		return m.nondet("u8", 8, false, nil, nil), true
	case name == "nondetU16":
		return m.nondet("u16", 16, false, nil, nil), true
	case name == "nondetU64":
		return m.nondet("u64", 64, false, nil, nil), true
	case name == "nondetI64":
		return m.nondet("i64", 64, true, nil, nil), true
	case name == "nondetI8":
		return m.nondet("i8", 8, true, nil, nil), true
	case name == "nondetIntRange":
		lo, _ := concreteInt(args[0])
		hi, _ := concreteInt(args[1])
		return m.nondet("int", 64, true, big.NewInt(int64(lo)), big.NewInt(int64(hi))), true
	case name == "nondetU8Range":
		lo, _ := concreteInt(args[0])
		hi, _ := concreteInt(args[1])
		return m.nondet("u8", 8, false, big.NewInt(int64(lo)), big.NewInt(int64(hi))), true
	case name == "observeU64" || name == "observeI64":
		if m.concrete != nil {
			if k, ok := concreteBig(args[1]); ok {
				if m.concObs == nil {
					m.concObs = map[string]string{}
				}
				m.concObs[args[0].(StrV).s] = k.String()
			}
		}
		return nil, true
	case name == "observeBytes":
		if m.concrete != nil {
			sl := args[1].(SliceV)
			var sb strings.Builder
			okAll := true
			for i := 0; i < sl.len; i++ {
				k, ok := concreteBig(m.load(elemPtr(sl, i)))
				if !ok {
					okAll = false
					break
				}
				fmt.Fprintf(&sb, "%02x", k.Int64()&0xff)
			}
			if okAll {
				if m.concObs == nil {
					m.concObs = map[string]string{}
				}
				m.concObs[args[0].(StrV).s] = sb.String()
			}
		}
		return nil, true
	case m.intMode && name == "zU8":
		return args[0], true
	case name == "nondetU32":
		return m.nondet("u32", 32, false, nil, nil), true
	case name == "nondetI32":
		return m.nondet("i32", 32, true, nil, nil), true
	case name == "nondetInt":
		return m.nondet("int", 64, true, nil, nil), true
	case name == "nondetBool":
		if m.concrete != nil {
			b := m.nondet("b", 8, false, big.NewInt(0), big.NewInt(1)).(VInt)
			k, _ := concreteBig(b)
			return VBool{m.cbool(k.Sign() != 0)}, true
		}
		if !m.intMode {
			b := m.nondet("b", 8, false, big.NewInt(0), big.NewInt(1)).(VInt)
			return VBool{&Cond{bv: bvCmp("=", b.bv, bvConstI(1, 8))}}, true
		}
		if m.intMode {
			b := m.nondet("b", 8, false, big.NewInt(0), big.NewInt(1)).(VInt)
			return VBool{cCmp("=", b.lin, linConstI(1))}, true
		}
		return VBool{&Cond{bv: bvCmp("=", bvVar(m.fresh("b"), 1), bvConstI(1, 1))}}, true
	case name == "nondetI32Range":
		lo, _ := concreteInt(args[0])
		hi, _ := concreteInt(args[1])
		return m.nondet("i32", 32, true, big.NewInt(int64(lo)), big.NewInt(int64(hi))), true
	case name == "vassume":
		c := args[0].(VBool).c
		if v, ok := c.isConst(); ok {
			if !v {
				m.fail("assume false")
			}
			return nil, true
		}
		m.cur.pc = append(m.cur.pc, c)
		return nil, true
	case name == "vassert":
		if m.concrete != nil {
			if m.concAsserts == nil {
				m.concAsserts = map[string]string{}
			}
			id := args[1].(StrV).s
			if v, ok := args[0].(VBool).c.isConst(); ok {
				if !v {
					m.concAsserts[id] = "fail"
				} else if m.concAsserts[id] == "" {
					m.concAsserts[id] = "pass"
				}
			} else {
				m.concAsserts[id] = "nonconst"
			}
			return nil, true
		}
		m.oblige(args[0].(VBool).c, "assert: "+args[1].(StrV).s, "")
		return nil, true
	case name == "vreach":
		id := args[0].(StrV).s
		if m.stats["reach:"+id] == 0 && m.concrete == nil {
			m.reachObls = append(m.reachObls, Obligation{pc: append([]*Cond{}, m.cur.pc...), defs: append([]*Cond{}, m.defs...), what: "reach: " + id, vacuity: true})
		}
		m.stats["reach:"+id]++
		return nil, true
	case name == "verifNative":
		return VBool{m.cbool(false)}, true
	case name == "verifOpaque":
		iv := args[0].(IfaceV)
		p := iv.v.(Ptr)
		var et types.Type
		if pt, ok := iv.typ.Underlying().(*types.Pointer); ok {
			et = pt.Elem()
		}
		m.store(p, m.expandU(et, "arb_"+sanitize(args[1].(StrV).s)))
		return nil, true
	case name == "verifSame":
		return VBool{m.sameValue(args[0], args[1], 0)}, true
	case name == "effectsBegin":
		m.effectsOn = true
		m.markAllPreexisting()
		return nil, true
	case name == "effectsEnd":
		m.effectsOn = false
		return nil, true
	// ---- Z spec intrinsics in bv mode: Z is a 320-bit vector ----
	case !m.intMode && name == "zI64":
		return VInt{bv: ext(args[0].(VInt).bv, 320, true)}, true
	case !m.intMode && name == "zU8":
		return VInt{bv: ext(args[0].(VInt).bv, 320, false)}, true
	case !m.intMode && name == "zCut":
		v := m.cutVals[args[0].(StrV).s].(VInt)
		return VInt{bv: ext(v.bv, 320, true)}, true
	case !m.intMode && name == "zAdd":
		return VInt{bv: bvBin("bvadd", args[0].(VInt).bv, args[1].(VInt).bv)}, true
	case !m.intMode && name == "zSub":
		return VInt{bv: bvBin("bvsub", args[0].(VInt).bv, args[1].(VInt).bv)}, true
	case !m.intMode && name == "zShl":
		k, _ := concreteInt(args[1])
		return VInt{bv: bvBin("bvshl", args[0].(VInt).bv, bvConstI(int64(k), 320))}, true
	case name == "cutI64":
		v, ok := m.cutVals[args[0].(StrV).s]
		if !ok {
			panic("cutI64: no value for " + args[0].(StrV).s)
		}
		return v, true
	case !m.intMode && name == "zLeConst":
		bd, _ := new(big.Int).SetString(args[1].(StrV).s, 10)
		return VBool{&Cond{bv: bvCmp("bvsle", args[0].(VInt).bv, bvConst(bd, 320))}}, true
	case !m.intMode && name == "zGeConst":
		bd, _ := new(big.Int).SetString(args[1].(StrV).s, 10)
		return VBool{&Cond{bv: bvCmp("bvsle", bvConst(bd, 320), args[0].(VInt).bv)}}, true
	case !m.intMode && name == "zU64":
		return VInt{bv: ext(args[0].(VInt).bv, 320, false)}, true
	case m.intMode && name == "zU64":
		return args[0], true
	case !m.intMode && name == "zEq":
		return VBool{&Cond{bv: bvCmp("=", args[0].(VInt).bv, args[1].(VInt).bv)}}, true
	// ---- Z spec intrinsics (int mode) ----
	case name == "zI64":
		return args[0], true
	case name == "zCut":
		v, ok := m.cutVals[args[0].(StrV).s]
		if !ok {
			panic("zCut: no value for " + args[0].(StrV).s)
		}
		return v, true
	case name == "zEq":
		return VBool{cCmp("=", args[0].(VInt).lin, args[1].(VInt).lin)}, true
	case name == "zAdd":
		return VInt{lin: args[0].(VInt).lin.add(args[1].(VInt).lin, 1)}, true
	case name == "zSub":
		return VInt{lin: args[0].(VInt).lin.add(args[1].(VInt).lin, -1)}, true
	case name == "zMul":
		return VInt{lin: m.linMul(args[0].(VInt).lin, args[1].(VInt).lin)}, true
	case name == "zShl":
		k, _ := concreteInt(args[1])
		return VInt{lin: args[0].(VInt).lin.scale(new(big.Int).Lsh(big.NewInt(1), uint(k)))}, true
	case name == "zCongruent":
		md, _ := new(big.Int).SetString(args[2].(StrV).s, 10)
		d := args[0].(VInt).lin.add(args[1].(VInt).lin, -1)
		if d.isConst() {
			return VBool{cConst(new(big.Int).Mod(d.c, md).Sign() == 0)}, true
		}
		return VBool{&Cond{kind: "cong", a: d, mod: md}}, true
	case name == "zLeConst":
		bd, _ := new(big.Int).SetString(args[1].(StrV).s, 10)
		return VBool{cCmp("<=", args[0].(VInt).lin, linConst(bd))}, true
	case name == "zGeConst":
		bd, _ := new(big.Int).SetString(args[1].(StrV).s, 10)
		return VBool{cCmp("<=", linConst(bd), args[0].(VInt).lin)}, true
	// ---- stubs ----
	case full == "errors.New" || full == "fmt.Errorf":
		return IfaceV{typ: types.Universe.Lookup("error").Type(), v: OpaqueV{"error"}}, true
	case full == "crypto/subtle.ConstantTimeCompare":
		a, b := args[0].(SliceV), args[1].(SliceV)
		if a.len != b.len {
			return m.constInt(big.NewInt(0), types.Typ[types.Int]), true
		}
		c := m.cbool(true)
		for i := 0; i < a.len; i++ {
			x := m.load(elemPtr(a, i))
			y := m.load(elemPtr(b, i))
			c = cAnd(c, m.binop(token.EQL, x, y, types.Typ[types.Bool], types.Typ[types.Uint8], 0).(VBool).c)
		}
		if m.intMode {
			if k, ok := c.isConst(); ok {
				if k {
					return m.constInt(big.NewInt(1), types.Typ[types.Int]), true
				}
				return m.constInt(big.NewInt(0), types.Typ[types.Int]), true
			}
			r := m.nondet("ctc", 8, false, big.NewInt(0), big.NewInt(1)).(VInt)
			e := cCmp("=", r.lin, linConstI(1))
			m.defs = append(m.defs, m.cor(cAnd(e, c), cAnd(cNot(e), cNot(c))))
			return r, true
		}
		return VInt{bv: ite(c.bv, bvConstI(1, 64), bvConstI(0, 64))}, true
	}
	if full == "fmt.Sprintf" || full == "fmt.Sprint" || full == "fmt.Sprintln" || full == "encoding/hex.EncodeToString" {
		return StrV{"<formatted>"}, true // formatting is not the subject: empty body
	}
	if strings.HasPrefix(full, "fmt.") {
		return OpaqueV{"fmt"}, true
	}
	return nil, false
}


func concreteBig(v Value) (*big.Int, bool) {
	iv, ok := v.(VInt)
	if !ok {
		return nil, false
	}
	if iv.lin != nil {
		if iv.lin.isConst() {
			return iv.lin.c, true
		}
		return nil, false
	}
	if iv.bv.isConst() {
		return iv.bv.c, true
	}
	return nil, false
}

// lookupHarnessFunc finds a package-level function of the package under test by name (harness stubs).
func (m *Machine) lookupHarnessFunc(name string) *ssa.Function {
	if m.entryFn == nil || m.entryFn.Pkg == nil {
		return nil
	}
	return m.entryFn.Pkg.Func(name)
}

// markAllPreexisting: from now on every object that exists is "memory that existed before the call".
func (m *Machine) markAllPreexisting() {
	m.preexistBelow = m.nobj
}

func (m *Machine) noteEffect(p Ptr) {
	m.effects = append(m.effects, fmt.Sprintf("store to pre-existing %s%v", p.obj.name, pathString(p.path)))
}

func pathString(p []PathElem) string {
	var sb strings.Builder
	for _, e := range p {
		if e.sym != nil {
			sb.WriteString("[sym]")
		} else {
			fmt.Fprintf(&sb, "[%d]", e.k)
		}
	}
	return sb.String()
}
