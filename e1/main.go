// ssaexec — engine E1: symbolic execution of go/ssa functions of /repo into SMT-LIB2.
//
// A spec (JSON) lists harnesses: ordinary in-package Go functions (injected with a
// build overlay, nothing is written to the repository) whose nondet*/assume/assert/reach
// calls the executor intercepts. The encoding is regenerated from the repository's current
// source on every run. Every obligation is a self-contained script discharged by z3
// (optionally cross-checked by a second solver); a satisfying assignment is replayed
// natively against the real code before it is reported.
package main

import (
	"encoding/hex"
	"encoding/json"
	"flag"
	"fmt"
	"math/big"
	"os"
	"path/filepath"
	"regexp"
	"runtime/debug"
	"sort"
	"strings"
	"time"

	"golang.org/x/tools/go/packages"
	"golang.org/x/tools/go/ssa"
	"golang.org/x/tools/go/ssa/ssautil"
)

type CutJSON struct {
	Fn      string   `json:"fn"`
	Trigger string   `json:"trigger"` // after-vars | before-store-param | line
	Line    int      `json:"line,omitempty"`
	Param   string   `json:"param,omitempty"`
	Mode    string   `json:"mode"` // abort | havoc
	Lo      string   `json:"lo,omitempty"`
	Hi      string   `json:"hi,omitempty"`
	Vars    []string `json:"vars"`
	Bounds  map[string][2]string `json:"bounds,omitempty"` // per-variable [lo, hi] overriding lo/hi
	Alias   string               `json:"alias,omitempty"`
	Mem     []string             `json:"mem,omitempty"` // "param:n" array cells behind a pointer parameter
}

type Mutant struct {
	ID   string `json:"id"`
	File string `json:"file"`
	Old  string `json:"old"`
	New  string `json:"new"`
}

type HarnessSpec struct {
	Name      string            `json:"name"`
	Pkg       string            `json:"pkg"`
	Files     []string          `json:"files"`
	Entry     string            `json:"entry"`
	Mode      string            `json:"mode"` // bv | int
	Unwind    int               `json:"unwind,omitempty"`
	Cuts      []CutJSON         `json:"cuts,omitempty"`
	Field     []string          `json:"field,omitempty"` // names of field-element types abstracted to Reals
	Summaries map[string]string `json:"summaries,omitempty"`
	Oracle    map[string]string `json:"oracle,omitempty"`
	Tags      string            `json:"tags,omitempty"`
	TimeoutMs int               `json:"timeout_ms,omitempty"`
	Tiers     []string          `json:"tiers,omitempty"`
	Functions []string          `json:"functions,omitempty"`
	Bound     string            `json:"bound,omitempty"`
	Stubs     []string          `json:"stubs,omitempty"`
	NoReplay  bool              `json:"no_replay,omitempty"`  // abstract modes: models are candidates only
	ReplayEntry string          `json:"replay_entry,omitempty"`
	ReplayModels int            `json:"replay_models,omitempty"` // with replay_entry: number of models enumerated until one satisfies the native assumptions
	RaceEntry string            `json:"race_entry,omitempty"` // native function run under the race detector to confirm an effect finding // native function that rebuilds inputs from the model (harnesses with havoc cuts)
	Validate  int               `json:"validate,omitempty"`   // number of concrete translator-validation inputs
	Renames   map[string]string `json:"renames,omitempty"`    // callee full name -> harness function name
	EffectsOf []string          `json:"effects_of,omitempty"` // C20: report stores to pre-existing memory
	Params    map[string]int    `json:"params,omitempty"`     // concrete parameters passed to the entry (lengths etc.)
	LoopAssume map[string]int   `json:"loop_assume,omitempty"` // function name -> iteration bound taken as an ASSUMPTION (stated bound)
	MathIn    []string          `json:"math_in,omitempty"`    // harness functions whose int arithmetic is mathematical (no overflow obligations): shadow state of an abstraction
	WrapConv  bool              `json:"wrap_conversions,omitempty"` // int mode: narrowing signed conversions wrap (exact Go semantics) instead of being no-overflow obligations
	ExecTimeoutS int            `json:"exec_timeout_s,omitempty"` // budget for the symbolic execution itself (default 1800 s); exceeding it is a tool error (inconclusive)
	Prune     bool              `json:"prune,omitempty"`      // ask the solver at every symbolic branch whether each arm is feasible; dead arms are not explored
	ApproxBitops bool           `json:"approx_bitops,omitempty"` // int mode: inexpressible bit operations yield an arbitrary value (effect harnesses only)
	BigBytesLen   *int          `json:"big_bytes_len,omitempty"`   // case split: assume that the first value-dependent big.Int.Bytes() result has exactly this many bytes
	BigBytesHavoc int           `json:"big_bytes_havoc,omitempty"` // big.Int.Bytes() of a symbolic value: fresh slice of this length, arbitrary content (effect analysis)
	BigShared bool              `json:"big_shared,omitempty"` // math/big storage-sharing model: struct copies of a big.Int share the limbs
	External  []string          `json:"external,omitempty"`  // package path prefixes treated as uninterpreted
	Contracts map[string]Contract `json:"contracts,omitempty"` // per external function: which pointer arguments it writes
	GlobalsAll bool             `json:"globals_all,omitempty"` // dump every package-level variable of the package under test
	Globals   []string          `json:"globals,omitempty"` // package-level variables whose (natively dumped) values the harness reads
	Mutants   []Mutant          `json:"mutants,omitempty"`
	ExpectSat []string          `json:"expect_sat,omitempty"` // assertion ids that MUST be violated (vacuity twins)
}

type Spec struct {
	Property  string        `json:"property"`
	Harnesses []HarnessSpec `json:"harnesses"`
}

type OblResult struct {
	What    string            `json:"what"`
	Pos     string            `json:"pos,omitempty"`
	Verdict string            `json:"verdict"`
	Secs    float64           `json:"secs"`
	Bytes   int               `json:"smt_bytes"`
	Model   map[string]string `json:"model,omitempty"`
	Replay  string            `json:"replay,omitempty"` // reproduced | spurious | not-replayable | error:...
}

type HarnessReport struct {
	Name        string      `json:"name"`
	Entry       string      `json:"entry"`
	Pkg         string      `json:"pkg"`
	Mode        string      `json:"mode"`
	Mutant      string      `json:"mutant,omitempty"`
	LoadS       float64     `json:"load_s"`
	ExecS       float64     `json:"exec_s"`
	SolveS      float64     `json:"solver_s"`
	Paths       int         `json:"paths"`
	Forks       int         `json:"forks"`
	Retried     int         `json:"retried_obligations,omitempty"`
	Pruned      int         `json:"pruned_arms,omitempty"`
	FeasQ       int         `json:"feasibility_queries,omitempty"`
	Merges      int         `json:"merges"`
	Exprs       int         `json:"dag_nodes"`
	Obligations int         `json:"obligations"`
	Unsat       int         `json:"unsat"`
	Sat         int         `json:"sat"`
	Unknown     int         `json:"unknown"`
	Reached     []string    `json:"reached"`
	Calls       []string    `json:"functions_executed"`
	Nondets     int         `json:"symbolic_inputs"`
	Failures    []OblResult `json:"failures,omitempty"`
	Samples     []OblResult `json:"samples,omitempty"`
	ToolError   string      `json:"tool_error,omitempty"`
	ByKind      map[string][3]int `json:"by_kind"`
	Effects     []string    `json:"stores_to_preexisting,omitempty"`
	Validated   int         `json:"traces_validated_against_impl"`
	ValidateErr string      `json:"validate_error,omitempty"`
	CrossCheck  int         `json:"cross_checked"`
	Functions   []string    `json:"functions,omitempty"`
	Bound       string      `json:"bound,omitempty"`
	Stubs       []string    `json:"stubs,omitempty"`
}

var (
	repoDir  = flag.String("repo", "/repo", "repository under test")
	verifDir = flag.String("verif", "/verif", "verification directory")
	specF    = flag.String("spec", "", "spec json")
	only     = flag.String("only", "", "regexp on harness name")
	tier     = flag.String("tier", "quick", "quick|thorough")
	outF     = flag.String("out", "", "report json")
	seed     = flag.Int64("seed", 1, "seed")
	dumpDir  = flag.String("dump", "", "dump queries here")
	mutantF  = flag.String("mutant", "", "apply the mutant with this id (overlay copy; self-test)")
	solver2  = flag.String("solver2", "", "second solver for cross-checking (e.g. z3-new)")
	jobs     = flag.Int("j", 16, "parallel solver processes")
	concrete = flag.String("concrete", "", "json file: harness -> [[values...]] ; run concretely and print observations")
	verbose  = flag.Bool("v", false, "verbose")
)

func main() {
	flag.Parse()
	b, err := os.ReadFile(*specF)
	if err != nil {
		fmt.Fprintln(os.Stderr, err)
		os.Exit(3)
	}
	var spec Spec
	if err := json.Unmarshal(b, &spec); err != nil {
		fmt.Fprintln(os.Stderr, "spec:", err)
		os.Exit(3)
	}
	var re *regexp.Regexp
	if *only != "" {
		re = regexp.MustCompile(*only)
	}
	var reports []*HarnessReport
	// group harnesses by (pkg, tags, files, mutant) so that a package is loaded once
	type key struct{ pkg, tags, files string }
	groups := map[key][]HarnessSpec{}
	var order []key
	for _, h := range spec.Harnesses {
		if re != nil && !re.MatchString(h.Name) {
			continue
		}
		if len(h.Tiers) > 0 && !contains(h.Tiers, *tier) {
			continue
		}
		k := key{h.Pkg, h.Tags, strings.Join(h.Files, ",")}
		if _, ok := groups[k]; !ok {
			order = append(order, k)
		}
		groups[k] = append(groups[k], h)
	}
	for _, k := range order {
		hs := groups[k]
		reports = append(reports, runGroup(hs)...)
	}
	out, _ := json.MarshalIndent(map[string]any{"property": spec.Property, "tier": *tier, "seed": *seed, "harnesses": reports}, "", " ")
	if *outF != "" {
		os.WriteFile(*outF, out, 0o644)
	} else {
		os.Stdout.Write(out)
	}
}

func contains(l []string, s string) bool {
	for _, x := range l {
		if x == s {
			return true
		}
	}
	return false
}

// supportFile returns the harness vocabulary with native bodies for the given package name.
func supportFile(pkgName string) []byte {
	b, err := os.ReadFile(filepath.Join(*verifDir, "e1", "support", "intrinsics.go.txt"))
	if err != nil {
		panic(err)
	}
	return []byte(strings.Replace(string(b), "package PKG", "package "+pkgName, 1))
}

func loadGroup(hs []HarnessSpec, mut *Mutant) (*ssa.Program, *ssa.Package, map[string][]byte, error) {
	h0 := hs[0]
	pkgDir := filepath.Join(*repoDir, strings.TrimPrefix(h0.Pkg, "./"))
	overlay := map[string][]byte{}
	pkgName := ""
	for i, f := range h0.Files {
		src, err := os.ReadFile(filepath.Join(*verifDir, "e1", f))
		if err != nil {
			return nil, nil, nil, err
		}
		if pkgName == "" {
			m := regexp.MustCompile(`(?m)^package\s+(\w+)`).FindSubmatch(src)
			if m == nil {
				return nil, nil, nil, fmt.Errorf("no package clause in %s", f)
			}
			pkgName = string(m[1])
		}
		overlay[filepath.Join(pkgDir, fmt.Sprintf("zz_verif_h%d.go", i))] = src
	}
	overlay[filepath.Join(pkgDir, "zz_verif_support.go")] = supportFile(pkgName)
	if mut != nil {
		p := filepath.Join(*repoDir, mut.File)
		orig, err := os.ReadFile(p)
		if err != nil {
			return nil, nil, nil, err
		}
		if !strings.Contains(string(orig), mut.Old) {
			return nil, nil, nil, fmt.Errorf("mutant %s: pattern not found in %s", mut.ID, mut.File)
		}
		overlay[p] = []byte(strings.Replace(string(orig), mut.Old, mut.New, 1))
	}
	cfg := &packages.Config{Mode: packages.LoadAllSyntax, Dir: *repoDir, Overlay: overlay}
	if h0.Tags != "" {
		cfg.BuildFlags = []string{"-tags=" + h0.Tags}
	}
	pkgs, err := packages.Load(cfg, h0.Pkg)
	if err != nil {
		return nil, nil, nil, err
	}
	var errs []string
	packages.Visit(pkgs, nil, func(p *packages.Package) {
		for _, e := range p.Errors {
			errs = append(errs, e.Error())
		}
	})
	if len(errs) > 0 {
		return nil, nil, nil, fmt.Errorf("package errors: %s", strings.Join(errs[:min(len(errs), 5)], "; "))
	}
	prog, spkgs := ssautil.AllPackages(pkgs, ssa.InstantiateGenerics|ssa.GlobalDebug)
	prog.Build()
	if len(spkgs) == 0 || spkgs[0] == nil {
		return nil, nil, nil, fmt.Errorf("no ssa package for %s", h0.Pkg)
	}
	return prog, spkgs[0], overlay, nil
}

func runGroup(hs []HarnessSpec) []*HarnessReport {
	var reps []*HarnessReport
	var mut *Mutant
	if *mutantF != "" {
		for _, h := range hs {
			for i := range h.Mutants {
				if h.Mutants[i].ID == *mutantF {
					mut = &h.Mutants[i]
				}
			}
		}
		if mut == nil {
			return nil // this group is not concerned by the mutant
		}
	}
	t0 := time.Now()
	prog, pkg, overlay, err := loadGroup(hs, mut)
	loadS := time.Since(t0).Seconds()
	for _, h := range hs {
		if *mutantF != "" {
			has := false
			for _, mm := range h.Mutants {
				has = has || mm.ID == *mutantF
			}
			if !has {
				continue
			}
		}
		rep := &HarnessReport{Name: h.Name, Entry: h.Entry, Pkg: h.Pkg, Mode: h.Mode, LoadS: loadS, ByKind: map[string][3]int{}, Functions: h.Functions, Bound: h.Bound, Stubs: h.Stubs}
		if mut != nil {
			rep.Mutant = mut.ID
		}
		reps = append(reps, rep)
		if err != nil {
			rep.ToolError = "load: " + err.Error()
			continue
		}
		if h.GlobalsAll && pkg != nil {
			// every package-level variable of the package under test (a change may introduce new ones)
			seen := map[string]bool{}
			for _, g := range h.Globals {
				seen[g] = true
			}
			var extra []string
			for name, mem := range pkg.Members {
				if _, ok := mem.(*ssa.Global); ok && !seen[name] && !strings.Contains(name, "$") && name != "_" && !strings.HasPrefix(name, "verif") {
					extra = append(extra, name)
				}
			}
			sort.Strings(extra)
			h.Globals = append(append([]string{}, h.Globals...), extra...)
		}
		if len(h.Globals) > 0 {
			hh := h
			if mut != nil {
				// the mutated file must be part of the native dump as well: dump from a scratch overlay is not supported,
				// so constants are dumped from the unmutated tree unless the mutant touches none of them
				_ = hh
			}
			gd, gerr := dumpGlobals(h, h.Globals, overlay)
			if gerr != nil {
				rep.ToolError = gerr.Error()
				continue
			}
			globalDump = gd
		} else {
			globalDump = nil
		}
		runHarness(prog, pkg, overlay, h, rep)
		if *verbose {
			fmt.Fprintf(os.Stderr, "%-40s obl=%d unsat=%d sat=%d unk=%d exec=%.1fs solve=%.1fs %s\n", h.Name, rep.Obligations, rep.Unsat, rep.Sat, rep.Unknown, rep.ExecS, rep.SolveS, rep.ToolError)
		}
	}
	return reps
}

var globalDump map[string]any

func newMachine(prog *ssa.Program, h HarnessSpec) *Machine {
	resetExprTables()
	m := &Machine{prog: prog, intMode: h.Mode == "int", unwind: h.Unwind, bounds: map[string][2]*big.Int{}, prods: map[string]string{}, dm: map[string][2]*Lin{},
		globals: map[*ssa.Global]*Obj{}, pdcache: map[*ssa.Function]map[*ssa.BasicBlock]*ssa.BasicBlock{}, globalInit: map[int]Value{}, oracle: map[string][]byte{}, stats: map[string]int{},
		cutVals: map[string]Value{}, oblSeen: map[string]bool{}, renames: h.Renames, summaries: h.Summaries, params: h.Params}
	if m.unwind == 0 {
		m.unwind = 300
	}
	m.fieldTypes = h.Field
	for _, c := range h.Cuts {
		cs := cutSpec{fn: c.Fn, trigger: c.Trigger, line: c.Line, param: c.Param, mode: c.Mode, vars: c.Vars, alias: c.Alias, mem: c.Mem}
		if c.Lo != "" {
			cs.lo, _ = new(big.Int).SetString(c.Lo, 10)
			cs.hi, _ = new(big.Int).SetString(c.Hi, 10)
		}
		if cs.trigger == "" {
			cs.trigger = "after-vars"
		}
		if len(c.Bounds) > 0 {
			cs.bounds = map[string][2]*big.Int{}
			for k, v := range c.Bounds {
				lo, _ := new(big.Int).SetString(v[0], 10)
				hi, _ := new(big.Int).SetString(v[1], 10)
				cs.bounds[k] = [2]*big.Int{lo, hi}
			}
		}
		m.cuts = append(m.cuts, cs)
	}
	for k, v := range h.Oracle {
		b, _ := hex.DecodeString(v)
		m.oracle[k] = b
	}
	m.cur = &State{mem: map[int]Value{}}
	m.dump = globalDump
	m.loopAssume = h.LoopAssume
	m.externalPkgs = h.External
	m.bigShared = h.BigShared
	m.bigBytesHavoc = h.BigBytesHavoc
	m.bigBytesLen = -1
	if h.BigBytesLen != nil {
		m.bigBytesLen = *h.BigBytesLen
	}
	m.approxBits = h.ApproxBitops
	m.wrapConv = h.WrapConv
	m.prune = h.Prune
	bud := h.ExecTimeoutS
	if bud == 0 {
		bud = 1800
	}
	m.deadline = time.Now().Add(time.Duration(bud) * time.Second)
	m.mathIn = map[string]bool{}
	for _, n := range h.MathIn {
		m.mathIn[n] = true
	}
	m.contracts = h.Contracts
	return m
}

func runHarness(prog *ssa.Program, pkg *ssa.Package, overlay map[string][]byte, h HarnessSpec, rep *HarnessReport) {
	fn := pkg.Func(h.Entry)
	if fn == nil {
		rep.ToolError = "entry not found: " + h.Entry
		return
	}
	m := newMachine(prog, h)
	t1 := time.Now()
	func() {
		defer func() {
			if r := recover(); r != nil {
				if pe, ok := r.(pathEnd); ok {
					m.stats["path_end:"+pe.reason]++
					return
				}
				rep.ToolError = fmt.Sprintf("executor: %v | %s", r, shortStack())
			}
		}()
		m.call(fn, m.entryArgs(fn), nil, 0)
	}()
	rep.ExecS = time.Since(t1).Seconds()
	if m.pruneZ != nil {
		m.pruneZ.close()
	}
	rep.Pruned, rep.FeasQ = m.stats["pruned_arms"], m.stats["feasibility_queries"]
	rep.Paths = 1
	rep.Forks, rep.Merges = m.stats["forks"], m.stats["merges"]
	rep.Exprs = len(exprList)
	rep.Nondets = len(m.nondets)
	for k := range m.stats {
		if strings.HasPrefix(k, "reach:") {
			rep.Reached = append(rep.Reached, strings.TrimPrefix(k, "reach:"))
		}
		if strings.HasPrefix(k, "calls:") {
			c := strings.TrimPrefix(k, "calls:")
			if strings.Contains(c, "kyber/v4") && !strings.Contains(c, "Harness") && !strings.Contains(c, "verif") {
				rep.Calls = append(rep.Calls, strings.Replace(c, "go.dedis.ch/kyber/v4/", "", 1))
			}
		}
	}
	sort.Strings(rep.Reached)
	sort.Strings(rep.Calls)
	rep.Effects = m.effects
	if rep.ToolError != "" {
		// the code under test left what the encoding can execute. Where the harness has a native replay entry (a fixed
		// battery asking the property's question of the compiled code) that entry decides: a failure there is a
		// reproduced violation; if it passes, the run stays inconclusive (never "held").
		if h.ReplayEntry != "" && !h.NoReplay {
			if outs, err := nativeRun(h, overlay, [][]string{{}}); err == nil && len(outs) == 1 && (len(outs[0].Failed) > 0 || outs[0].Panic != "") {
				why := outs[0].Panic
				if len(outs[0].Failed) > 0 {
					why = outs[0].Failed[0]
				}
				rep.Failures = append(rep.Failures, OblResult{What: "not encodable (" + firstLine(rep.ToolError) + "): decided by the native replay entry", Verdict: "sat", Replay: "reproduced (the native replay entry fails: " + why + ")"})
				rep.Sat++
				rep.Obligations++
				rep.ToolError = ""
			}
		}
		return
	}
	discharge(m, h, rep, overlay)
}

func firstLine(s string) string {
	if i := strings.Index(s, " | "); i > 0 {
		s = s[:i]
	}
	if len(s) > 160 {
		s = s[:160]
	}
	return s
}

func shortStack() string {
	st := strings.Split(string(debug.Stack()), "\n")
	var out []string
	for _, l := range st {
		if strings.Contains(l, "/e1/") && !strings.Contains(l, "main.go") {
			out = append(out, strings.TrimSpace(l))
		}
		if len(out) >= 5 {
			break
		}
	}
	return strings.Join(out, " < ")
}

// entryArgs builds the arguments of the entry function from the spec's concrete parameters.
func (m *Machine) entryArgs(fn *ssa.Function) []Value {
	var args []Value
	for _, p := range fn.Params {
		v, ok := m.params[p.Name()]
		if !ok {
			panic("entry parameter " + p.Name() + " not given in spec.params")
		}
		args = append(args, m.constInt(big.NewInt(int64(v)), p.Type()))
	}
	return args
}
