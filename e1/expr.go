package main

import (
	"sync"
	"fmt"
	"math/big"
	"sort"
	"strings"
)

// ---------- bit-vector / bool expression DAG (hash-consed, constant folding) ----------
type Expr struct {
	id   int
	op   string // "const","var","bvadd",... ,"ite","extract","zext","sext","concat","not","and","or","=", "bvult"...
	args []*Expr
	w    int      // bit width; 0 = Bool
	c    *big.Int // for const (unsigned representative), Bool: 0/1
	name string
	p1   int // extract hi / ext amount
	p2   int // extract lo
}

var exprTab = map[string]*Expr{}
var exprList []*Expr

// resetExprTables starts a fresh DAG (one per harness run).
func resetExprTables() {
	exprTab = map[string]*Expr{}
	exprList = nil
	rTab = map[string]*RExpr{}
	rList = nil
}

func mkExpr(op string, w int, c *big.Int, name string, p1, p2 int, args ...*Expr) *Expr {
	var sb strings.Builder
	fmt.Fprintf(&sb, "%s|%d|%d|%d|%s|", op, w, p1, p2, name)
	if c != nil {
		sb.WriteString(c.String())
	}
	for _, a := range args {
		fmt.Fprintf(&sb, ",%d", a.id)
	}
	k := sb.String()
	// obligations are discharged by parallel goroutines that still build (negated) terms: the DAG tables are shared
	exprMu.Lock()
	defer exprMu.Unlock()
	if e, ok := exprTab[k]; ok {
		return e
	}
	e := &Expr{id: len(exprList), op: op, args: args, w: w, c: c, name: name, p1: p1, p2: p2}
	exprTab[k] = e
	exprList = append(exprList, e)
	return e
}

var exprMu sync.Mutex

func mask(w int) *big.Int { return new(big.Int).Sub(new(big.Int).Lsh(big.NewInt(1), uint(w)), big.NewInt(1)) }
func bvConst(v *big.Int, w int) *Expr {
	return mkExpr("const", w, new(big.Int).And(v, mask(w)), "", 0, 0)
}
func bvConstI(v int64, w int) *Expr { return bvConst(big.NewInt(v), w) }
func boolConst(b bool) *Expr {
	if b {
		return mkExpr("const", 0, big.NewInt(1), "", 0, 0)
	}
	return mkExpr("const", 0, big.NewInt(0), "", 0, 0)
}
func bvVar(name string, w int) *Expr { return mkExpr("var", w, nil, name, 0, 0) }
func (e *Expr) isConst() bool        { return e.op == "const" }
func (e *Expr) signedVal() *big.Int {
	v := new(big.Int).Set(e.c)
	if e.w > 0 && v.Bit(e.w-1) == 1 {
		v.Sub(v, new(big.Int).Lsh(big.NewInt(1), uint(e.w)))
	}
	return v
}

func bvBin(op string, a, b *Expr) *Expr {
	if a.w != b.w {
		panic(fmt.Sprintf("width mismatch %s %d %d", op, a.w, b.w))
	}
	w := a.w
	if a.isConst() && b.isConst() {
		x, y := a.c, b.c
		r := new(big.Int)
		switch op {
		case "bvadd":
			r.Add(x, y)
		case "bvsub":
			r.Sub(x, y)
		case "bvmul":
			r.Mul(x, y)
		case "bvand":
			r.And(x, y)
		case "bvor":
			r.Or(x, y)
		case "bvxor":
			r.Xor(x, y)
		case "bvshl":
			if y.Cmp(big.NewInt(int64(w))) >= 0 {
				r.SetInt64(0)
			} else {
				r.Lsh(x, uint(y.Int64()))
			}
		case "bvlshr":
			if y.Cmp(big.NewInt(int64(w))) >= 0 {
				r.SetInt64(0)
			} else {
				r.Rsh(x, uint(y.Int64()))
			}
		case "bvashr":
			s := a.signedVal()
			sh := uint(w)
			if y.Cmp(big.NewInt(int64(w))) < 0 {
				sh = uint(y.Int64())
			}
			r.Rsh(s, sh)
		case "bvudiv":
			if y.Sign() == 0 {
				return mkExpr(op, w, nil, "", 0, 0, a, b)
			}
			r.Div(x, y)
		case "bvurem":
			if y.Sign() == 0 {
				return mkExpr(op, w, nil, "", 0, 0, a, b)
			}
			r.Mod(x, y)
		case "bvsdiv", "bvsrem":
			if y.Sign() == 0 {
				return mkExpr(op, w, nil, "", 0, 0, a, b)
			}
			q, rm := new(big.Int).QuoRem(a.signedVal(), b.signedVal(), new(big.Int)) // truncated, like Go and SMT-LIB
			if op == "bvsdiv" {
				r = q
			} else {
				r = rm
			}
		default:
			return mkExpr(op, w, nil, "", 0, 0, a, b)
		}
		return bvConst(r, w)
	}
	// light simplifications
	switch op {
	case "bvand":
		if (a.isConst() && a.c.Sign() == 0) || (b.isConst() && b.c.Sign() == 0) {
			return bvConstI(0, w)
		}
	case "bvor", "bvxor", "bvadd":
		if a.isConst() && a.c.Sign() == 0 {
			return b
		}
		if b.isConst() && b.c.Sign() == 0 {
			return a
		}
	case "bvsub", "bvshl", "bvlshr", "bvashr":
		if b.isConst() && b.c.Sign() == 0 {
			return a
		}
	}
	return mkExpr(op, w, nil, "", 0, 0, a, b)
}

func bvCmp(op string, a, b *Expr) *Expr {
	if a.w != b.w {
		panic("cmp width mismatch")
	}
	if a.isConst() && b.isConst() {
		var r bool
		switch op {
		case "=":
			r = a.c.Cmp(b.c) == 0
		case "bvult":
			r = a.c.Cmp(b.c) < 0
		case "bvule":
			r = a.c.Cmp(b.c) <= 0
		case "bvslt":
			r = a.signedVal().Cmp(b.signedVal()) < 0
		case "bvsle":
			r = a.signedVal().Cmp(b.signedVal()) <= 0
		}
		return boolConst(r)
	}
	if op == "=" && a == b {
		return boolConst(true)
	}
	return mkExpr(op, 0, nil, "", 0, 0, a, b)
}
func bNot(a *Expr) *Expr {
	if a.isConst() {
		return boolConst(a.c.Sign() == 0)
	}
	if a.op == "not" {
		return a.args[0]
	}
	return mkExpr("not", 0, nil, "", 0, 0, a)
}
func bAnd(a, b *Expr) *Expr {
	if a.isConst() {
		if a.c.Sign() == 0 {
			return a
		}
		return b
	}
	if b.isConst() {
		if b.c.Sign() == 0 {
			return b
		}
		return a
	}
	return mkExpr("and", 0, nil, "", 0, 0, a, b)
}
func bOr(a, b *Expr) *Expr { return bNot(bAnd(bNot(a), bNot(b))) }
func ite(c, a, b *Expr) *Expr {
	if c.isConst() {
		if c.c.Sign() != 0 {
			return a
		}
		return b
	}
	if a == b {
		return a
	}
	return mkExpr("ite", a.w, nil, "", 0, 0, c, a, b)
}
func bvNot(a *Expr) *Expr {
	if a.isConst() {
		return bvConst(new(big.Int).Xor(a.c, mask(a.w)), a.w)
	}
	return mkExpr("bvnot", a.w, nil, "", 0, 0, a)
}
func bvNeg(a *Expr) *Expr { return bvBin("bvsub", bvConstI(0, a.w), a) }
func extract(a *Expr, hi, lo int) *Expr {
	if hi == a.w-1 && lo == 0 {
		return a
	}
	if a.isConst() {
		return bvConst(new(big.Int).Rsh(a.c, uint(lo)), hi-lo+1)
	}
	return mkExpr("extract", hi-lo+1, nil, "", hi, lo, a)
}
func ext(a *Expr, to int, signed bool) *Expr {
	if to == a.w {
		return a
	}
	if to < a.w {
		return extract(a, to-1, 0)
	}
	if a.isConst() {
		if signed {
			return bvConst(a.signedVal(), to)
		}
		return bvConst(a.c, to)
	}
	if signed {
		return mkExpr("sext", to, nil, "", to-a.w, 0, a)
	}
	return mkExpr("zext", to, nil, "", to-a.w, 0, a)
}

// SMT printing with sharing
type printer struct {
	sb       strings.Builder
	defined  map[int]bool
	vars     map[string]int
	usedReal bool
	ufuns    map[string]int
	cname    map[*Cond]string // int-mode composite conditions already emitted as named definitions
}

func (p *printer) uterm(t string) {
	if p.ufuns == nil {
		p.ufuns = map[string]int{"utrue": 0}
	}
	uCollect(t, p.ufuns)
}

// onlyReal reports whether every declared variable is a Real (field mode).
func (p *printer) onlyReal() bool {
	for _, w := range p.vars {
		if w != -1 {
			return false
		}
	}
	return true
}

func newPrinter() *printer { return &printer{defined: map[int]bool{}, vars: map[string]int{}} }
func sortOf(e *Expr) string {
	if e.w == 0 {
		return "Bool"
	}
	return fmt.Sprintf("(_ BitVec %d)", e.w)
}
func (p *printer) ref(e *Expr) string {
	switch e.op {
	case "const":
		if e.w == 0 {
			if e.c.Sign() != 0 {
				return "true"
			}
			return "false"
		}
		return fmt.Sprintf("(_ bv%s %d)", e.c.String(), e.w)
	case "var":
		if _, ok := p.vars[e.name]; !ok {
			p.vars[e.name] = e.w
			fmt.Fprintf(&p.sb, "(declare-const %s %s)\n", e.name, sortOf(e))
		}
		return e.name
	}
	n := fmt.Sprintf("e%d", e.id)
	if p.defined[e.id] {
		return n
	}
	var as []string
	for _, a := range e.args {
		as = append(as, p.ref(a))
	}
	var body string
	switch e.op {
	case "extract":
		body = fmt.Sprintf("((_ extract %d %d) %s)", e.p1, e.p2, as[0])
	case "zext":
		body = fmt.Sprintf("((_ zero_extend %d) %s)", e.p1, as[0])
	case "sext":
		body = fmt.Sprintf("((_ sign_extend %d) %s)", e.p1, as[0])
	default:
		body = "(" + e.op + " " + strings.Join(as, " ") + ")"
	}
	p.defined[e.id] = true
	fmt.Fprintf(&p.sb, "(define-fun %s () %s %s)\n", n, sortOf(e), body)
	return n
}

// ---------- linear forms over Z (int mode) ----------
type Lin struct {
	k map[string]*big.Int // symbol -> coeff
	c *big.Int
}

func linConst(v *big.Int) *Lin  { return &Lin{k: map[string]*big.Int{}, c: new(big.Int).Set(v)} }
func linConstI(v int64) *Lin    { return linConst(big.NewInt(v)) }
func linSym(s string) *Lin      { return &Lin{k: map[string]*big.Int{s: big.NewInt(1)}, c: new(big.Int)} }
func (a *Lin) isConst() bool    { return len(a.k) == 0 }
func (a *Lin) add(b *Lin, sign int64) *Lin {
	r := &Lin{k: map[string]*big.Int{}, c: new(big.Int).Set(a.c)}
	for s, v := range a.k {
		r.k[s] = new(big.Int).Set(v)
	}
	sg := big.NewInt(sign)
	r.c.Add(r.c, new(big.Int).Mul(b.c, sg))
	for s, v := range b.k {
		t := new(big.Int).Mul(v, sg)
		if o, ok := r.k[s]; ok {
			t.Add(t, o)
		}
		if t.Sign() == 0 {
			delete(r.k, s)
		} else {
			r.k[s] = t
		}
	}
	return r
}
func (a *Lin) scale(f *big.Int) *Lin {
	r := &Lin{k: map[string]*big.Int{}, c: new(big.Int).Mul(a.c, f)}
	if f.Sign() == 0 {
		return r
	}
	for s, v := range a.k {
		r.k[s] = new(big.Int).Mul(v, f)
	}
	return r
}
func (a *Lin) smt() string {
	var keys []string
	for s := range a.k {
		keys = append(keys, s)
	}
	sort.Strings(keys)
	parts := []string{num(a.c)}
	for _, s := range keys {
		parts = append(parts, "(* "+num(a.k[s])+" "+s+")")
	}
	if len(parts) == 1 {
		return parts[0]
	}
	return "(+ " + strings.Join(parts, " ") + ")"
}
func num(v *big.Int) string {
	if v.Sign() < 0 {
		return "(- " + new(big.Int).Neg(v).String() + ")"
	}
	return v.String()
}
