// Package scen holds scenario building blocks shared by several property harnesses.
package scen

import (
	"fmt"

	"go.dedis.ch/kyber/v4"
	dkg "go.dedis.ch/kyber/v4/share/dkg/pedersen"
	"go.dedis.ch/kyber/v4/sign/schnorr"

	"verif/e2/hx"
)

// HonestPedersenDKG runs the real Pedersen DKG among the given long-term keys with
// everyone honest and returns every node's distributed key share.
func HonestPedersenDKG(x *hx.Ctx, privs []kyber.Scalar, t int, nonce []byte) []*dkg.DistKeyShare {
	s := x.S
	n := len(privs)
	nn := make([]byte, 32)
	copy(nn, nonce)
	var nodes []dkg.Node
	for i, p := range privs {
		nodes = append(nodes, dkg.Node{Index: uint32(i), Public: s.Point().Mul(p, nil)})
	}
	var gens []*dkg.DistKeyGenerator
	for i := 0; i < n; i++ {
		c := &dkg.Config{Suite: s.(dkg.Suite), Longterm: privs[i], NewNodes: nodes, Threshold: uint32(t), Nonce: nn, Auth: schnorr.NewScheme(s)}
		g, err := dkg.NewDistKeyHandler(c)
		if err != nil {
			panic(fmt.Sprint("dkg setup: ", err))
		}
		gens = append(gens, g)
	}
	var deals []*dkg.DealBundle
	for _, g := range gens {
		d, err := g.Deals()
		if err != nil {
			panic(fmt.Sprint("dkg deals: ", err))
		}
		deals = append(deals, d)
	}
	var resps []*dkg.ResponseBundle
	for _, g := range gens {
		r, err := g.ProcessDeals(deals)
		if err != nil {
			panic(fmt.Sprint("dkg ProcessDeals: ", err))
		}
		if r != nil {
			resps = append(resps, r)
		}
	}
	out := make([]*dkg.DistKeyShare, n)
	for i, g := range gens {
		res, _, err := g.ProcessResponses(resps)
		if err != nil || res == nil {
			panic(fmt.Sprint("dkg ProcessResponses: ", err))
		}
		out[i] = res.Key
	}
	return out
}
