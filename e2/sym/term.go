// Package sym is engine E2 ("symgroup"): a kyber.Group / pairing.Suite whose
// scalars and points are symbolic terms over Q. The real protocol code of
// /repo runs unchanged on top of it; every value-dependent decision is an SMT
// query (QF_NRA) over all values of the secrets, coins and oracle outputs.
package sym

import (
	"bufio"
	"fmt"
	"io"
	"math/big"
	"math/bits"
	"os"
	"os/exec"
	"sort"
	"strings"
	"sync"
	"time"
)

type op int

const (
	opConst op = iota
	opVar
	opAdd
	opSub
	opMul
	opNeg
	opInv
)

// Term is a node of the hash-consed term DAG.
type Term struct {
	id   int
	op   op
	a, b *Term
	c    *big.Rat
	name string
	fp   [2]uint64
}

func (t *Term) ID() int { return t.id }

const p61 = (1 << 61) - 1

func mulmod(a, b uint64) uint64 {
	hi, lo := bits.Mul64(a, b)
	r := (lo & p61) + (lo >> 61) + (hi << 3 & p61) + (hi >> 58)
	for r >= p61 {
		r -= p61
	}
	return r
}
func addmod(a, b uint64) uint64 {
	r := a + b
	if r >= p61 {
		r -= p61
	}
	return r
}
func submod(a, b uint64) uint64 {
	if a >= b {
		return a - b
	}
	return a + p61 - b
}
func powmod(a, e uint64) uint64 {
	r := uint64(1)
	for e > 0 {
		if e&1 == 1 {
			r = mulmod(r, a)
		}
		a = mulmod(a, a)
		e >>= 1
	}
	return r
}
func invmod(a uint64) uint64 { return powmod(a, p61-2) }

// Inconclusive is the panic value raised when the solver does not decide a query.
type Inconclusive struct{ Msg string }

func (i Inconclusive) Error() string { return "inconclusive: " + i.Msg }

// QuerySample is one solver query written out for the evidence file.
type QuerySample struct {
	Kind    string  `json:"kind"`
	Claim   string  `json:"claim"`
	Size    int     `json:"smt_bytes"`
	Vars    int     `json:"vars"`
	Verdict string  `json:"verdict"`
	Secs    float64 `json:"secs"`
}

// World holds one symbolic run: terms, path condition, solver, statistics.
type World struct {
	mu     sync.Mutex
	terms  []*Term
	cons   map[string]*Term
	vars   map[string]*Term
	seed   uint64
	PC     []string // generic-branch assumptions (disequalities), human readable
	pcT    [][2]*Term
	z3     *solver
	z3b    *solver // optional second solver (cross-check)
	eq     map[[2]int]bool
	byFP   map[string][]*class
	byTok  map[string]*class
	nclass int
	ctr    uint64

	Queries, Unsat, Sat, CrossChecked int
	Distinct                          map[string]bool
	SolverTime                        time.Duration
	Samples                           []QuerySample
	Timeout                           int // ms
	Retried                           int // undecided queries handed to another solver
}

type class struct {
	rep   *Term
	token []byte
	kind  string
}

// NewWorld creates a world; seed selects the fingerprint evaluation point.
func NewWorld(seed uint64) *World {
	w := &World{cons: map[string]*Term{}, vars: map[string]*Term{}, seed: seed, eq: map[[2]int]bool{},
		byFP: map[string][]*class{}, byTok: map[string]*class{}, Distinct: map[string]bool{}, Timeout: 60000}
	if v := os.Getenv("SYM_TIMEOUT_MS"); v != "" {
		fmt.Sscan(v, &w.Timeout)
	}
	return w
}

// Close terminates the solver processes.
func (w *World) Close() {
	putSolver(1, w.z3)
	putSolver(2, w.z3b)
	w.z3, w.z3b = nil, nil
}

func splitmix(x uint64) uint64 {
	x += 0x9e3779b97f4a7c15
	x = (x ^ (x >> 30)) * 0xbf58476d1ce4e5b9
	x = (x ^ (x >> 27)) * 0x94d049bb133111eb
	return x ^ (x >> 31)
}

func strhash(s string) uint64 {
	h := uint64(1469598103934665603)
	for i := 0; i < len(s); i++ {
		h ^= uint64(s[i])
		h *= 1099511628211
	}
	return h
}

func (w *World) mk(o op, a, b *Term, c *big.Rat, name string) *Term {
	var key string
	switch o {
	case opConst:
		key = "c" + c.String()
	case opVar:
		key = "v" + name
	default:
		bi := -1
		if b != nil {
			bi = b.id
		}
		key = fmt.Sprintf("%d:%d:%d", o, a.id, bi)
	}
	if t, ok := w.cons[key]; ok {
		return t
	}
	t := &Term{id: len(w.terms), op: o, a: a, b: b, c: c, name: name}
	for k := 0; k < 2; k++ {
		switch o {
		case opConst:
			n := new(big.Int).Mod(c.Num(), big.NewInt(p61)).Uint64()
			d := new(big.Int).Mod(c.Denom(), big.NewInt(p61)).Uint64()
			t.fp[k] = mulmod(n, invmod(d))
		case opVar:
			// keyed by the variable's name so that the value does not depend on creation order
			t.fp[k] = splitmix(w.seed*0x9e37+uint64(k)*7919+strhash(name)) % p61
			if t.fp[k] < 2 {
				t.fp[k] += 2
			}
		case opAdd:
			t.fp[k] = addmod(a.fp[k], b.fp[k])
		case opSub:
			t.fp[k] = submod(a.fp[k], b.fp[k])
		case opMul:
			t.fp[k] = mulmod(a.fp[k], b.fp[k])
		case opNeg:
			t.fp[k] = submod(0, a.fp[k])
		case opInv:
			t.fp[k] = invmod(a.fp[k])
		}
	}
	w.terms = append(w.terms, t)
	w.cons[key] = t
	if o == opVar {
		w.vars[name] = t
	}
	return t
}

func (w *World) Const(v int64) *Term { return w.mk(opConst, nil, nil, new(big.Rat).SetInt64(v), "") }
func (w *World) ConstBig(v *big.Int) *Term {
	return w.mk(opConst, nil, nil, new(big.Rat).SetInt(v), "")
}
func (w *World) Var(name string) *Term { return w.mk(opVar, nil, nil, nil, name) }
func (w *World) Add(a, b *Term) *Term  { return w.fold(opAdd, a, b) }
func (w *World) Sub(a, b *Term) *Term  { return w.fold(opSub, a, b) }
func (w *World) Mul(a, b *Term) *Term  { return w.fold(opMul, a, b) }
func (w *World) Neg(a *Term) *Term     { return w.fold(opNeg, a, nil) }
func (w *World) Inv(a *Term) *Term     { return w.fold(opInv, a, nil) }

func isConst(t *Term, v int64) bool {
	return t.op == opConst && t.c.IsInt() && t.c.Num().IsInt64() && t.c.Num().Int64() == v
}

func (w *World) fold(o op, a, b *Term) *Term {
	// constant folding keeps Lagrange coefficients exact rationals
	if a.op == opConst && (b == nil || b.op == opConst) {
		r := new(big.Rat)
		switch o {
		case opAdd:
			r.Add(a.c, b.c)
		case opSub:
			r.Sub(a.c, b.c)
		case opMul:
			r.Mul(a.c, b.c)
		case opNeg:
			r.Neg(a.c)
		case opInv:
			if a.c.Sign() == 0 {
				// the real groups return some value for 0^-1; model it as an unconstrained symbol
				return w.Var("inv-of-zero")
			}
			r.Inv(a.c)
		}
		return w.mk(opConst, nil, nil, r, "")
	}
	// unit/zero simplifications (identities of every field)
	switch o {
	case opAdd:
		if isConst(a, 0) {
			return b
		}
		if isConst(b, 0) {
			return a
		}
	case opSub:
		if isConst(b, 0) {
			return a
		}
	case opMul:
		if isConst(a, 0) || isConst(b, 0) {
			return w.Const(0)
		}
		if isConst(a, 1) {
			return b
		}
		if isConst(b, 1) {
			return a
		}
	}
	return w.mk(o, a, b, nil, "")
}

// ---------- solver ----------
type solver struct {
	name    string
	cmd     *exec.Cmd
	in      io.WriteCloser
	out     *bufio.Reader
	dead    bool
	timeout int // per-query budget in ms (the solver's own -t is not always honoured by nlsat: a watchdog kills the process)
}

func solverArgv(which int, timeoutMs int) []string {
	env := "SYM_SOLVER"
	def := "z3"
	if which == 2 {
		env = "SYM_SOLVER2"
		def = ""
	}
	bin := os.Getenv(env)
	if bin == "" {
		bin = def
	}
	if bin == "" {
		return nil
	}
	if strings.Contains(bin, "cvc5") {
		return []string{bin, "--lang", "smt2", "--incremental", fmt.Sprintf("--tlimit-per=%d", timeoutMs)}
	}
	return []string{bin, "-in", fmt.Sprintf("-t:%d", timeoutMs)}
}

func newSolver(which, timeoutMs int) *solver {
	argv := solverArgv(which, timeoutMs)
	if argv == nil {
		return nil
	}
	cmd := exec.Command(argv[0], argv[1:]...)
	in, _ := cmd.StdinPipe()
	outp, _ := cmd.StdoutPipe()
	cmd.Stderr = os.Stderr
	if err := cmd.Start(); err != nil {
		panic(Inconclusive{"cannot start solver " + argv[0] + ": " + err.Error()})
	}
	return &solver{name: argv[0], cmd: cmd, in: in, out: bufio.NewReader(outp), timeout: timeoutMs}
}
func (s *solver) close() {
	s.in.Close()
	done := make(chan struct{})
	go func() { s.cmd.Wait(); close(done) }()
	select {
	case <-done:
	case <-time.After(2 * time.Second):
		s.cmd.Process.Kill()
	}
}

// run sends a self-contained script (after a reset) and returns the verdict of its single check-sat.
// Any "(error" line makes the answer inconclusive.
func (s *solver) run(script string) string {
	io.WriteString(s.in, "(reset)\n"+script+"\n(check-sat)\n(echo \"@@done\")\n")
	verdict := ""
	killed := false
	var wd *time.Timer
	if s.timeout > 0 {
		wd = time.AfterFunc(time.Duration(s.timeout)*time.Millisecond+15*time.Second, func() {
			killed = true
			s.cmd.Process.Kill()
		})
		defer wd.Stop()
	}
	for {
		line, err := s.out.ReadString('\n')
		if err != nil {
			s.dead = true
			if killed {
				return "timeout"
			}
			return "error: solver died: " + err.Error()
		}
		line = strings.TrimSpace(line)
		if line == "@@done" || line == "\"@@done\"" {
			break
		}
		if strings.HasPrefix(line, "(error") {
			verdict = "error: " + line
		} else if verdict == "" && (line == "sat" || line == "unsat" || line == "unknown" || line == "timeout") {
			verdict = line
		}
	}
	if verdict == "" {
		verdict = "error: no answer"
	}
	return verdict
}

func (w *World) smt(t *Term, defined map[int]bool, sb *strings.Builder, nvars *int) string {
	if t.op == opVar {
		if !defined[t.id] {
			defined[t.id] = true
			*nvars++
			fmt.Fprintf(sb, "(declare-const n%d Real) ; %s\n", t.id, shortName(t.name))
		}
		return fmt.Sprintf("n%d", t.id)
	}
	if t.op == opConst {
		return ratSMT(t.c)
	}
	name := fmt.Sprintf("n%d", t.id)
	if defined[t.id] {
		return name
	}
	defined[t.id] = true
	var e string
	switch t.op {
	case opAdd:
		e = "(+ " + w.smt(t.a, defined, sb, nvars) + " " + w.smt(t.b, defined, sb, nvars) + ")"
	case opSub:
		e = "(- " + w.smt(t.a, defined, sb, nvars) + " " + w.smt(t.b, defined, sb, nvars) + ")"
	case opMul:
		e = "(* " + w.smt(t.a, defined, sb, nvars) + " " + w.smt(t.b, defined, sb, nvars) + ")"
	case opNeg:
		e = "(- " + w.smt(t.a, defined, sb, nvars) + ")"
	case opInv:
		x := w.smt(t.a, defined, sb, nvars)
		fmt.Fprintf(sb, "(assert (not (= %s 0.0)))\n", x)
		e = "(/ 1.0 " + x + ")"
	}
	fmt.Fprintf(sb, "(define-fun %s () Real %s)\n", name, e)
	return name
}

func shortName(s string) string {
	if len(s) > 40 {
		return s[:40] + "…"
	}
	return s
}

func ratSMT(c *big.Rat) string {
	n, d := c.Num(), c.Denom()
	ns := n.String() + ".0"
	if n.Sign() < 0 {
		ns = "(- " + new(big.Int).Neg(n).String() + ".0)"
	}
	if d.Cmp(big.NewInt(1)) == 0 {
		return ns
	}
	return "(/ " + ns + " " + d.String() + ".0)"
}

// query discharges one self-contained script. kind/claim describe it for the evidence.
func (w *World) query(kind, claim, script string, nvars int) string {
	if w.z3 == nil {
		w.z3 = getSolver(1, w.Timeout)
		w.z3b = getSolver(2, w.Timeout)
	}
	full := "(set-logic QF_NRA)\n" + script
	if d := os.Getenv("SYM_DUMP"); d != "" {
		os.WriteFile(fmt.Sprintf("%s/q%d_%04d.smt2", d, w.seed, w.Queries), []byte(full+"(check-sat)\n"), 0o644)
	}
	t0 := time.Now()
	r := w.z3.run(full)
	if w.z3b != nil && (r == "sat" || r == "unsat") {
		r2 := w.z3b.run(full)
		w.CrossChecked++
		if r2 != r {
			r = fmt.Sprintf("error: solvers disagree: %s=%s %s=%s", w.z3.name, r, w.z3b.name, r2)
		}
	}
	if r != "sat" && r != "unsat" && !strings.HasPrefix(r, "error: solvers disagree") {
		// nlsat's running time is erratic (the same script: 1 s on one machine, > 60 s on another): an undecided
		// query gets a second opinion from the other solvers before the run is declared inconclusive
		for _, alt := range []string{"z3-new", "cvc5", "z3"} {
			if alt == w.z3.name {
				continue
			}
			if _, err := exec.LookPath(alt); err != nil {
				continue
			}
			r2 := oneShot(alt, w.Timeout, full)
			w.Retried++
			if r2 == "sat" || r2 == "unsat" {
				r = r2
				break
			}
		}
	}
	dt := time.Since(t0)
	w.SolverTime += dt
	w.Queries++
	w.Distinct[script] = true
	switch r {
	case "unsat":
		w.Unsat++
	case "sat":
		w.Sat++
	}
	if len(w.Samples) < 6 || (dt > 500*time.Millisecond && len(w.Samples) < 12) {
		w.Samples = append(w.Samples, QuerySample{kind, claim, len(full), nvars, r, dt.Seconds()})
	}
	if r != "sat" && r != "unsat" {
		panic(Inconclusive{fmt.Sprintf("%s query %q: %s", kind, claim, r)})
	}
	return r
}

// ValidEq asks the solver whether a == b for all values of the variables
// (given that every inverted sub-term is non-zero). Returns true iff unsat(a != b).
func (w *World) ValidEq(a, b *Term) bool {
	if a.id == b.id {
		return true
	}
	var sb strings.Builder
	def := map[int]bool{}
	nv := 0
	sa := w.smt(a, def, &sb, &nv)
	sbb := w.smt(b, def, &sb, &nv)
	fmt.Fprintf(&sb, "(assert (not (= %s %s)))\n", sa, sbb)
	return w.query("valid", fmt.Sprintf("n%d == n%d for all values", a.id, b.id), sb.String(), nv) == "unsat"
}

// CanEqual asks whether a == b is satisfiable at all, given that every term in
// nonzero is non-zero (the stated non-degeneracy hypotheses). "unsat" means: never equal.
func (w *World) CanEqual(a, b *Term, nonzero []*Term) bool {
	var sb strings.Builder
	def := map[int]bool{}
	nv := 0
	sa := w.smt(a, def, &sb, &nv)
	sbb := w.smt(b, def, &sb, &nv)
	for _, t := range nonzero {
		fmt.Fprintf(&sb, "(assert (not (= %s 0.0)))\n", w.smt(t, def, &sb, &nv))
	}
	fmt.Fprintf(&sb, "(assert (= %s %s))\n", sa, sbb)
	return w.query("never", fmt.Sprintf("n%d == n%d satisfiable under %d non-degeneracy hypotheses", a.id, b.id, len(nonzero)), sb.String(), nv) == "sat"
}

// Equal decides a == b on the generic path: identical terms are equal;
// different fingerprints are a witness that the terms are not identically
// equal (recorded as a path-condition disequality); equal fingerprints go to the solver.
func (w *World) Equal(a, b *Term) bool {
	if a.id == b.id {
		return true
	}
	k := [2]int{a.id, b.id}
	if a.id > b.id {
		k = [2]int{b.id, a.id}
	}
	if v, ok := w.eq[k]; ok {
		return v
	}
	var res bool
	if a.fp != b.fp {
		res = false
		w.PC = append(w.PC, fmt.Sprintf("%s != %s", w.Show(a, 3), w.Show(b, 3)))
		w.pcT = append(w.pcT, [2]*Term{a, b})
	} else {
		res = w.ValidEq(a, b)
	}
	w.eq[k] = res
	return res
}

// PCSat checks that the accumulated path condition (all generic disequalities) is satisfiable.
func (w *World) PCSat() bool {
	if len(w.pcT) == 0 {
		return true
	}
	var sb strings.Builder
	def := map[int]bool{}
	nv := 0
	// the full conjunction can be big; the fingerprint point is already a model in GF(p61),
	// the solver confirms it over Q in chunks of 40 disequalities sharing one script.
	for i := 0; i < len(w.pcT) && i < 40; i++ {
		p := w.pcT[i]
		sa := w.smt(p[0], def, &sb, &nv)
		sbb := w.smt(p[1], def, &sb, &nv)
		fmt.Fprintf(&sb, "(assert (not (= %s %s)))\n", sa, sbb)
	}
	return w.query("vacuity", fmt.Sprintf("path condition (%d disequalities) satisfiable", len(w.pcT)), sb.String(), nv) == "sat"
}

// Show renders a term to bounded depth.
func (w *World) Show(t *Term, depth int) string {
	switch t.op {
	case opConst:
		return t.c.RatString()
	case opVar:
		return "<" + shortName(t.name) + ">"
	}
	if depth == 0 {
		return fmt.Sprintf("n%d", t.id)
	}
	switch t.op {
	case opAdd:
		return "(" + w.Show(t.a, depth-1) + "+" + w.Show(t.b, depth-1) + ")"
	case opSub:
		return "(" + w.Show(t.a, depth-1) + "-" + w.Show(t.b, depth-1) + ")"
	case opMul:
		return w.Show(t.a, depth-1) + "*" + w.Show(t.b, depth-1)
	case opNeg:
		return "-" + w.Show(t.a, depth-1)
	case opInv:
		return "1/" + w.Show(t.a, depth-1)
	}
	return "?"
}

// VarNames lists the symbolic variables created so far.
func (w *World) VarNames() []string {
	var out []string
	for n := range w.vars {
		out = append(out, shortName(n))
	}
	sort.Strings(out)
	return out
}

// NumTerms returns the size of the term DAG.
func (w *World) NumTerms() int { return len(w.terms) }

// solver processes are pooled across worlds (process start-up, not solving, dominates small queries);
// oneShot runs one script on a fresh process of another solver (retry of an undecided query)
func oneShot(bin string, timeoutMs int, script string) string {
	argv := []string{bin, "-in", fmt.Sprintf("-t:%d", timeoutMs)}
	if strings.Contains(bin, "cvc5") {
		argv = []string{bin, "--lang", "smt2", fmt.Sprintf("--tlimit=%d", timeoutMs)}
	}
	cmd := exec.Command(argv[0], argv[1:]...)
	cmd.Stdin = strings.NewReader(script + "\n(check-sat)\n")
	done := make(chan string, 1)
	go func() {
		out, _ := cmd.Output()
		verdict := ""
		for _, line := range strings.Split(string(out), "\n") {
			line = strings.TrimSpace(line)
			if strings.HasPrefix(line, "(error") {
				verdict = "error: " + line
				break
			}
			if verdict == "" && (line == "sat" || line == "unsat" || line == "unknown") {
				verdict = line
			}
		}
		done <- verdict
	}()
	select {
	case v := <-done:
		return v
	case <-time.After(time.Duration(timeoutMs)*time.Millisecond + 15*time.Second):
		if cmd.Process != nil {
			cmd.Process.Kill()
		}
		return "timeout"
	}
}

// every query starts with (reset), so no state is shared between worlds.
var poolMu sync.Mutex
var pool = map[int][]*solver{}

func getSolver(which, timeoutMs int) *solver {
	poolMu.Lock()
	if l := pool[which]; len(l) > 0 {
		s := l[len(l)-1]
		pool[which] = l[:len(l)-1]
		poolMu.Unlock()
		return s
	}
	poolMu.Unlock()
	return newSolver(which, timeoutMs)
}

func putSolver(which int, s *solver) {
	if s == nil {
		return
	}
	if s.dead {
		s.close()
		return
	}
	poolMu.Lock()
	pool[which] = append(pool[which], s)
	poolMu.Unlock()
}
