package sym

import (
	"crypto/cipher"
	"crypto/sha256"
	"encoding/binary"
	"encoding/hex"
	"errors"
	"fmt"
	"hash"
	"io"
	"reflect"

	"go.dedis.ch/fixbuf"
	"go.dedis.ch/kyber/v4"
	"go.dedis.ch/kyber/v4/compatible/compatiblemod"
	"go.dedis.ch/kyber/v4/xof/blake2xb"
)

// Group is a symbolic group: a point is its discrete logarithm w.r.t. the
// generator (generic-group model), a scalar is a term over Q.
type Group struct {
	W    *World
	Name string
	Hsh  bool // points implement kyber.HashablePoint
	PLen int  // length of a point encoding (0 = 32); a longer encoding is 0x04 || token || zero padding, like an uncompressed point
}

func (g *Group) plen() int {
	if g.PLen == 0 {
		return 32
	}
	return g.PLen
}

func (g *Group) String() string       { return "Sym" + g.Name }
func (g *Group) ScalarLen() int       { return 32 }
func (g *Group) Scalar() kyber.Scalar { return &Scalar{g: g, t: g.W.lconst(0)} }
func (g *Group) PointLen() int        { return g.plen() }
func (g *Group) Point() kyber.Point {
	if g.Hsh {
		return &HPoint{Point{g: g, t: g.W.lconst(0)}}
	}
	return &Point{g: g, t: g.W.lconst(0)}
}

func (w *World) lconst(v int64) *Term { w.mu.Lock(); defer w.mu.Unlock(); return w.Const(v) }

// token returns the 32-byte wire token of the semantic equivalence class of t.
// A new term gets the token of an earlier one iff the solver proves them equal.
func (w *World) token(kind string, t *Term) []byte {
	w.mu.Lock()
	defer w.mu.Unlock()
	fk := fmt.Sprintf("%s|%x|%x", kind, t.fp[0], t.fp[1])
	for _, c := range w.byFP[fk] {
		if c.rep.id == t.id || w.Equal(c.rep, t) {
			return c.token
		}
	}
	h := sha256.Sum256([]byte(fmt.Sprintf("symtoken|%s|%d", kind, w.nclass)))
	w.nclass++
	c := &class{rep: t, token: h[:], kind: kind}
	w.byFP[fk] = append(w.byFP[fk], c)
	w.byTok[kind+string(c.token)] = c
	return c.token
}

func (w *World) fromToken(kind string, b []byte) *Term {
	w.mu.Lock()
	defer w.mu.Unlock()
	if c, ok := w.byTok[kind+string(b)]; ok {
		return c.rep
	}
	// any byte string is some group element / scalar: adversarial variable keyed by the bytes
	return w.Var("adv:" + kind + ":" + hex.EncodeToString(b))
}

// ---------- Scalar ----------
type Scalar struct {
	g *Group
	t *Term
}

// T exposes the term (for harness assertions).
func (s *Scalar) T() *Term     { return s.t }
func (s *Scalar) w() *World    { return s.g.W }
func (s *Scalar) lock() func() { s.g.W.mu.Lock(); return s.g.W.mu.Unlock }

func us(s kyber.Scalar) *Scalar {
	v, ok := s.(*Scalar)
	if !ok {
		panic("sym: foreign scalar")
	}
	return v
}

func (s *Scalar) MarshalBinary() ([]byte, error) {
	return append([]byte{}, s.w().token("S", s.t)...), nil
}
func (s *Scalar) UnmarshalBinary(b []byte) error {
	if len(b) != 32 {
		return errors.New("sym: wrong scalar length")
	}
	s.t = s.w().fromToken("S", b)
	return nil
}
func (s *Scalar) String() string                     { return fmt.Sprintf("s#%d", s.t.id) }
func (s *Scalar) MarshalSize() int                   { return 32 }
func (s *Scalar) MarshalTo(w io.Writer) (int, error) { b, _ := s.MarshalBinary(); return w.Write(b) }
func (s *Scalar) UnmarshalFrom(r io.Reader) (int, error) {
	if strm, ok := r.(cipher.Stream); ok {
		s.Pick(strm)
		return -1, nil
	}
	buf := make([]byte, 32)
	n, err := io.ReadFull(r, buf)
	if err != nil {
		return n, err
	}
	return n, s.UnmarshalBinary(buf)
}
func (s *Scalar) Equal(o kyber.Scalar) bool       { defer s.lock()(); return s.w().Equal(s.t, us(o).t) }
func (s *Scalar) Set(a kyber.Scalar) kyber.Scalar { s.t = us(a).t; return s }
func (s *Scalar) Clone() kyber.Scalar             { return &Scalar{s.g, s.t} }
func (s *Scalar) SetInt64(v int64) kyber.Scalar   { defer s.lock()(); s.t = s.w().Const(v); return s }
func (s *Scalar) Zero() kyber.Scalar              { return s.SetInt64(0) }
func (s *Scalar) One() kyber.Scalar               { return s.SetInt64(1) }
func (s *Scalar) Add(a, b kyber.Scalar) kyber.Scalar {
	defer s.lock()()
	s.t = s.w().Add(us(a).t, us(b).t)
	return s
}
func (s *Scalar) Sub(a, b kyber.Scalar) kyber.Scalar {
	defer s.lock()()
	s.t = s.w().Sub(us(a).t, us(b).t)
	return s
}
func (s *Scalar) Mul(a, b kyber.Scalar) kyber.Scalar {
	defer s.lock()()
	s.t = s.w().Mul(us(a).t, us(b).t)
	return s
}
func (s *Scalar) Neg(a kyber.Scalar) kyber.Scalar { defer s.lock()(); s.t = s.w().Neg(us(a).t); return s }
func (s *Scalar) Inv(a kyber.Scalar) kyber.Scalar { defer s.lock()(); s.t = s.w().Inv(us(a).t); return s }
func (s *Scalar) Div(a, b kyber.Scalar) kyber.Scalar {
	defer s.lock()()
	s.t = s.w().Mul(us(a).t, s.w().Inv(us(b).t))
	return s
}
func (s *Scalar) Pick(rand cipher.Stream) kyber.Scalar {
	b := make([]byte, 32)
	rand.XORKeyStream(b, b)
	defer s.lock()()
	s.t = s.w().Var("pick:S:" + hex.EncodeToString(b[:8]))
	return s
}

// SetBytes: a known scalar token is that scalar; up to 8 bytes are a small
// little-endian integer constant; anything else is a random-oracle variable
// keyed by the bytes (same bytes => same variable, other bytes => independent variable).
func (s *Scalar) SetBytes(b []byte) kyber.Scalar {
	if len(b) == 32 {
		s.w().mu.Lock()
		c, ok := s.w().byTok["S"+string(b)]
		s.w().mu.Unlock()
		if ok {
			s.t = c.rep
			return s
		}
	}
	defer s.lock()()
	if len(b) <= 8 {
		var v uint64
		for i := len(b) - 1; i >= 0; i-- {
			v = v<<8 | uint64(b[i])
		}
		if v < 1<<62 {
			s.t = s.w().Const(int64(v))
			return s
		}
	}
	s.t = s.w().Var("ro:S:" + hex.EncodeToString(b))
	return s
}
func (s *Scalar) ByteOrder() kyber.ByteOrder { return kyber.LittleEndian }

// GroupOrder returns a 253-bit prime (only its bit length is ever used by protocol code).
func (s *Scalar) GroupOrder() *compatiblemod.Mod {
	m, _ := compatiblemod.FromString("7237005577332262213973186563042994240857116359379907606001950938285454250989", 10)
	return m
}

// ---------- Point ----------
type Point struct {
	g    *Group
	t    *Term
	data []byte
}

func (p *Point) T() *Term     { return p.t }
func (p *Point) w() *World    { return p.g.W }
func (p *Point) lock() func() { p.g.W.mu.Lock(); return p.g.W.mu.Unlock }
func (p *Point) MarshalBinary() ([]byte, error) {
	tok := p.w().token("P"+p.g.Name, p.t)
	if n := p.g.plen(); n != 32 {
		out := make([]byte, n)
		out[0] = 4
		copy(out[1:], tok)
		return out, nil
	}
	return append([]byte{}, tok...), nil
}
func (p *Point) UnmarshalBinary(b []byte) error {
	if len(b) != p.g.plen() {
		return errors.New("sym: wrong point length")
	}
	if p.g.plen() != 32 {
		if b[0] != 4 {
			return errors.New("sym: wrong point format byte")
		}
		for _, x := range b[33:] {
			if x != 0 {
				return errors.New("sym: malformed point encoding")
			}
		}
		b = b[1:33]
	}
	p.t = p.w().fromToken("P"+p.g.Name, b)
	p.data = nil
	return nil
}
func (p *Point) String() string                     { return fmt.Sprintf("p#%d", p.t.id) }
func (p *Point) MarshalSize() int                   { return p.g.plen() }
func (p *Point) MarshalTo(w io.Writer) (int, error) { b, _ := p.MarshalBinary(); return w.Write(b) }
func (p *Point) UnmarshalFrom(r io.Reader) (int, error) {
	if strm, ok := r.(cipher.Stream); ok {
		p.Pick(strm)
		return -1, nil
	}
	buf := make([]byte, p.g.plen())
	n, err := io.ReadFull(r, buf)
	if err != nil {
		return n, err
	}
	return n, p.UnmarshalBinary(buf)
}
func (p *Point) Equal(o kyber.Point) bool { defer p.lock()(); return p.w().Equal(p.t, un(o).t) }
func (p *Point) Null() kyber.Point        { defer p.lock()(); p.t = p.w().Const(0); return p }
func (p *Point) Base() kyber.Point        { defer p.lock()(); p.t = p.w().Const(1); return p }
func (p *Point) Pick(rand cipher.Stream) kyber.Point {
	b := make([]byte, 32)
	rand.XORKeyStream(b, b)
	defer p.lock()()
	p.t = p.w().Var("pick:P" + p.g.Name + ":" + hex.EncodeToString(b[:8]))
	p.data = nil
	return p
}
func (p *Point) Set(o kyber.Point) kyber.Point { p.t = un(o).t; p.data = un(o).data; return p }
func (p *Point) Clone() kyber.Point            { return &Point{p.g, p.t, p.data} }
func (p *Point) EmbedLen() int                 { return 29 }
func (p *Point) Embed(data []byte, r cipher.Stream) kyber.Point {
	if data == nil {
		return p.Pick(r)
	}
	b := make([]byte, 32)
	r.XORKeyStream(b, b)
	if len(data) > 29 {
		data = data[:29]
	}
	defer p.lock()()
	p.t = p.w().Var("embed:" + hex.EncodeToString(data) + ":" + hex.EncodeToString(b[:8]))
	p.data = append([]byte{}, data...)
	return p
}
func (p *Point) Data() ([]byte, error) { return p.data, nil }
func (p *Point) Add(a, b kyber.Point) kyber.Point {
	defer p.lock()()
	p.t = p.w().Add(un(a).t, un(b).t)
	p.data = nil
	return p
}
func (p *Point) Sub(a, b kyber.Point) kyber.Point {
	defer p.lock()()
	p.t = p.w().Sub(un(a).t, un(b).t)
	p.data = nil
	return p
}
func (p *Point) Neg(a kyber.Point) kyber.Point {
	defer p.lock()()
	p.t = p.w().Neg(un(a).t)
	p.data = nil
	return p
}
func (p *Point) Mul(s kyber.Scalar, q kyber.Point) kyber.Point {
	defer p.lock()()
	st := us(s).t
	p.data = nil
	if q == nil {
		p.t = st
		return p
	}
	p.t = p.w().Mul(st, un(q).t)
	return p
}

// HPoint is a Point that also implements kyber.HashablePoint (random oracle into the group).
type HPoint struct{ Point }

func (p *HPoint) Hash(m []byte) kyber.Point {
	defer p.lock()()
	p.t = p.w().Var("h2p:" + p.g.Name + ":" + hex.EncodeToString(m))
	p.data = nil
	return p
}
func (p *HPoint) Clone() kyber.Point { return &HPoint{Point{p.g, p.t, p.data}} }

func un(p kyber.Point) *Point {
	switch v := p.(type) {
	case *Point:
		return v
	case *HPoint:
		return &v.Point
	}
	panic("sym: foreign point")
}

// TermOfPoint / TermOfScalar give harnesses access to the terms.
func TermOfPoint(p kyber.Point) *Term   { return un(p).t }
func TermOfScalar(s kyber.Scalar) *Term { return us(s).t }

// ---------- Suite ----------
type Suite struct {
	*Group
}

func NewSuite(w *World) *Suite {
	return &Suite{Group: &Group{W: w, Name: "G"}}
}
func (s *Suite) Hash() hash.Hash                      { return sha256.New() }
func (s *Suite) XOF(key []byte) kyber.XOF             { return blake2xb.New(key) }
func (s *Suite) RandomStream() cipher.Stream          { return &ctrStream{s.W} }
func (s *Suite) Read(r io.Reader, objs ...any) error  { return fixbuf.Read(r, s, objs...) }
func (s *Suite) Write(w io.Writer, objs ...any) error { return fixbuf.Write(w, objs...) }

var tScalar = reflect.TypeFor[kyber.Scalar]()
var tPoint = reflect.TypeFor[kyber.Point]()

func (s *Suite) New(t reflect.Type) any {
	switch t {
	case tScalar:
		return s.Scalar()
	case tPoint:
		return s.Point()
	}
	return nil
}

// ctrStream is the suite's coin source: a deterministic counter stream, so
// every draw is a fresh variable and runs are reproducible.
type ctrStream struct{ w *World }

func (c *ctrStream) XORKeyStream(dst, src []byte) {
	c.w.mu.Lock()
	c.w.ctr++
	n := c.w.ctr
	c.w.mu.Unlock()
	var seed [16]byte
	copy(seed[:], "symcoin:")
	binary.LittleEndian.PutUint64(seed[8:], n)
	blake2xb.New(seed[:]).XORKeyStream(dst, src)
}

// ---------- pairing suite ----------

// PSuite is a symbolic pairing suite: G1, G2, GT with e(a·G1, b·G2) = ab·GT.
type PSuite struct {
	*Suite
	g1, g2, gt *Group
}

func NewPSuite(w *World) *PSuite {
	s := NewSuite(w)
	return &PSuite{Suite: s, g1: &Group{W: w, Name: "G1", Hsh: true}, g2: &Group{W: w, Name: "G2", Hsh: true}, gt: &Group{W: w, Name: "GT", Hsh: true}}
}
func (s *PSuite) G1() kyber.Group { return s.g1 }
func (s *PSuite) G2() kyber.Group { return s.g2 }
func (s *PSuite) GT() kyber.Group { return s.gt }
func (s *PSuite) Pair(p1, p2 kyber.Point) kyber.Point {
	w := s.W
	w.mu.Lock()
	defer w.mu.Unlock()
	if un(p1).g != s.g1 || un(p2).g != s.g2 {
		panic("sym: Pair called with points of the wrong groups")
	}
	return &HPoint{Point{g: s.gt, t: w.Mul(un(p1).t, un(p2).t)}}
}
func (s *PSuite) ValidatePairing(p1, p2, i1, i2 kyber.Point) bool {
	return s.Pair(p1, p2).Equal(s.Pair(i1, i2))
}

// Locked wrappers for harness-side assertions.
func (w *World) LValidEq(a, b *Term) bool { w.mu.Lock(); defer w.mu.Unlock(); return w.ValidEq(a, b) }
func (w *World) LCanEqual(a, b *Term, nz []*Term) bool {
	w.mu.Lock()
	defer w.mu.Unlock()
	return w.CanEqual(a, b, nz)
}
func (w *World) LPCSat() bool { w.mu.Lock(); defer w.mu.Unlock(); return w.PCSat() }
func (w *World) LSub(a, b *Term) *Term {
	w.mu.Lock()
	defer w.mu.Unlock()
	return w.Sub(a, b)
}
