package vss

// Verification hook (injected with go build -overlay, never committed to the repository):
// lets a harness play a malicious dealer through the real encryption path.

// VerifEncryptDeal encrypts an arbitrary Deal for verifier i under the dealer's keys.
func (d *Dealer) VerifEncryptDeal(i int, deal *Deal) (*EncryptedDeal, error) {
	old := d.deals[i]
	d.deals[i] = deal
	defer func() { d.deals[i] = old }()
	return d.EncryptedDeal(i)
}
