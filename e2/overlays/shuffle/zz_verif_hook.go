package shuffle

// Verification hook (injected with go build -overlay, never committed to the repository): a cheating prover written
// outside the package reads the verifier's challenges into the library's OWN message objects, so that it sees exactly
// the challenge vector a PairShuffle initialised by Init would see (and not an idealised copy of it).

// VerifChallengeMessages returns the two challenge messages (rho vector, lambda) of an initialised PairShuffle.
func (ps *PairShuffle) VerifChallengeMessages() (v2, v4 any) { return &ps.v2, &ps.v4 }
