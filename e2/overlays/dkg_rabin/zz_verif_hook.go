package dkg

import vss "go.dedis.ch/kyber/v4/share/vss/rabin"

// Verification hook (injected with go build -overlay, never committed to the repository): lets a harness play a
// malicious participant of the Rabin DKG through the real encryption path of its own dealer.

// VerifDealer returns the VSS dealer this participant deals its secret with.
func (d *DistKeyGenerator) VerifDealer() *vss.Dealer { return d.dealer }
