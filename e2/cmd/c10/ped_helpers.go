package main

import (
	"go.dedis.ch/kyber/v4"
	"go.dedis.ch/kyber/v4/share"
	vss "go.dedis.ch/kyber/v4/share/vss/pedersen"

	"verif/e2/hx"
)

func pedCopyDeal(d *vss.Deal) *vss.Deal {
	return &vss.Deal{SessionID: d.SessionID, SecShare: &share.PriShare{I: d.SecShare.I, V: d.SecShare.V.Clone()}, T: d.T, Commitments: append([]kyber.Point{}, d.Commitments...)}
}
func pedSetShares(d, o *vss.Deal)       { d.SecShare = o.SecShare }
func pedSetIndex(d *vss.Deal, i uint32) { d.SecShare = &share.PriShare{I: i, V: d.SecShare.V} }
func pedDHBytes(e *vss.EncryptedDeal) []byte {
	return e.DHKey
}
func pedCheckCommit0(x *hx.Ctx, s vss.Suite, commits []kyber.Point, secret kyber.Scalar) {
	x.ValidP("commit[0] == secret*G", commits[0], s.Point().Mul(secret, nil))
}

// the two sides of the share check for share+delta
func pedShareSides(s vss.Suite, vp []kyber.Point, d *vss.Deal, delta kyber.Scalar) (kyber.Point, kyber.Point) {
	return s.Point().Mul(s.Scalar().Add(d.SecShare.V, delta), nil), share.NewPubPoly(s, nil, d.Commitments).Eval(d.SecShare.I).V
}
func pedOnPoly(s vss.Suite, vp []kyber.Point, commits []kyber.Point, d *vss.Deal) bool {
	return share.NewPubPoly(s, nil, commits).Check(d.SecShare)
}

// a deal that is consistent with its OWN (fresh) commitments, not with the certified ones
func pedOtherCommitsDeal(s vss.Suite, vp []kyber.Point, t, i int, tmpl *vss.Deal) *vss.Deal {
	p2 := share.NewPriPoly(s, uint32(t), nil, s.RandomStream())
	_, c2 := p2.Commit(nil).Info()
	return &vss.Deal{SessionID: tmpl.SessionID, SecShare: p2.Eval(uint32(i)), T: tmpl.T, Commitments: c2}
}

// pedAggregator drives the exported Aggregator API directly (share/dkg-style use without a Verifier).
func pedAggregator(x *hx.Ctx, n, t int) {
	s := x.S.(vss.Suite)
	var vp []kyber.Point
	for i := 0; i < n; i++ {
		vp = append(vp, s.Point().Mul(s.Scalar().Pick(s.RandomStream()), nil))
	}
	dk := s.Scalar().Pick(s.RandomStream())
	dealer, err := vss.NewDealer(s, dk, s.Scalar().Pick(s.RandomStream()), vp, uint32(t))
	if !x.NoErr("NewDealer", err) {
		return
	}
	poly := dealer.PrivatePoly()
	pd, _ := dealer.PlaintextDeal(0)
	for i := 0; i < n; i++ {
		d, _ := dealer.PlaintextDeal(i)
		x.NoErr("VerifyDeal honest", vss.NewEmptyAggregator(s, vp).VerifyDeal(d, true))
	}
	// a share that lies on the polynomial but at an index no verifier owns
	for _, idx := range []uint32{uint32(n), uint32(n + 5)} {
		d := pedCopyDeal(pd)
		d.SecShare = poly.Eval(idx)
		x.Err("VerifyDeal index out of bounds", vss.NewEmptyAggregator(s, vp).VerifyDeal(d, true))
	}
	d := pedCopyDeal(pd)
	d.T = uint32(n + 1)
	x.Err("VerifyDeal T too large", vss.NewEmptyAggregator(s, vp).VerifyDeal(d, true))
	d = pedCopyDeal(pd)
	d.T = 1
	x.Err("VerifyDeal T too small", vss.NewEmptyAggregator(s, vp).VerifyDeal(d, true))
	a := vss.NewEmptyAggregator(s, vp)
	x.NoErr("first deal", a.VerifyDeal(pd, true))
	x.Err("second deal with inclusion", a.VerifyDeal(pd, true))
	x.Require("not certified without responses", !a.DealCertified())
	_, err = vss.NewDealer(s, dk, nil, vp, 1)
	x.Err("NewDealer t=1", err)
	_, err = vss.NewDealer(s, dk, nil, vp, uint32(n+1))
	x.Err("NewDealer t=n+1", err)
	_, err = vss.NewVerifier(s, s.Scalar().Pick(s.RandomStream()), s.Point().Mul(dk, nil), vp)
	x.Err("NewVerifier with a key outside the list", err)
}
