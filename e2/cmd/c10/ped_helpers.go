package main

import (
	"go.dedis.ch/kyber/v4"
	"go.dedis.ch/kyber/v4/share"
	vss "go.dedis.ch/kyber/v4/share/vss/pedersen"

	"verif/e2/hx"
)

func pedCopyDeal(d *vss.Deal) *vss.Deal {
	return &vss.Deal{SessionID: d.SessionID, SecShare: &share.PriShare{I: d.SecShare.I, V: d.SecShare.V.Clone()}, T: d.T, Commitments: append([]kyber.Point{}, d.Commitments...)}
}
func pedSetShares(d, o *vss.Deal)       { d.SecShare = o.SecShare }
func pedSetIndex(d *vss.Deal, i uint32) { d.SecShare = &share.PriShare{I: i, V: d.SecShare.V} }
func pedDHBytes(e *vss.EncryptedDeal) []byte {
	return e.DHKey
}
func pedCheckCommit0(x *hx.Ctx, s vss.Suite, commits []kyber.Point, secret kyber.Scalar) {
	x.ValidP("commit[0] == secret*G", commits[0], s.Point().Mul(secret, nil))
}

// the two sides of the share check for share+delta
func pedShareSides(s vss.Suite, vp []kyber.Point, d *vss.Deal, delta kyber.Scalar) (kyber.Point, kyber.Point) {
	return s.Point().Mul(s.Scalar().Add(d.SecShare.V, delta), nil), share.NewPubPoly(s, nil, d.Commitments).Eval(d.SecShare.I).V
}
func pedOnPoly(s vss.Suite, vp []kyber.Point, commits []kyber.Point, d *vss.Deal) bool {
	return share.NewPubPoly(s, nil, commits).Check(d.SecShare)
}

// a deal that is consistent with its OWN (fresh) commitments, not with the certified ones
func pedOtherCommitsDeal(s vss.Suite, vp []kyber.Point, t, i int, tmpl *vss.Deal) *vss.Deal {
	p2 := share.NewPriPoly(s, uint32(t), nil, s.RandomStream())
	_, c2 := p2.Commit(nil).Info()
	return &vss.Deal{SessionID: tmpl.SessionID, SecShare: p2.Eval(uint32(i)), T: tmpl.T, Commitments: c2}
}
