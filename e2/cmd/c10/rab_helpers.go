package main

import (
	"bytes"

	"go.dedis.ch/kyber/v4"
	"go.dedis.ch/kyber/v4/share"
	vss "go.dedis.ch/kyber/v4/share/vss/rabin"

	"verif/e2/hx"
)

func rabCopyDeal(d *vss.Deal) *vss.Deal {
	return &vss.Deal{SessionID: d.SessionID, SecShare: &share.PriShare{I: d.SecShare.I, V: d.SecShare.V.Clone()}, RndShare: &share.PriShare{I: d.RndShare.I, V: d.RndShare.V.Clone()}, T: d.T, Commitments: append([]kyber.Point{}, d.Commitments...)}
}
func rabSetShares(d, o *vss.Deal) { d.SecShare, d.RndShare = o.SecShare, o.RndShare }
func rabSetIndex(d *vss.Deal, i uint32) {
	d.SecShare = &share.PriShare{I: i, V: d.SecShare.V}
	d.RndShare = &share.PriShare{I: i, V: d.RndShare.V}
}
func rabDHBytes(e *vss.EncryptedDeal) []byte {
	b, _ := e.DHKey.MarshalBinary()
	return b
}
func rabCheckCommit0(x *hx.Ctx, s vss.Suite, commits []kyber.Point, secret kyber.Scalar) {}

// second generator of the Rabin commitments, as share/vss/rabin derives it
func rabH(s vss.Suite, vp []kyber.Point) kyber.Point {
	var b bytes.Buffer
	for _, v := range vp {
		_, _ = v.MarshalTo(&b)
	}
	return s.Point().Pick(s.XOF(b.Bytes()))
}
func rabShareSides(s vss.Suite, vp []kyber.Point, d *vss.Deal, delta kyber.Scalar) (kyber.Point, kyber.Point) {
	l := s.Point().Add(s.Point().Mul(s.Scalar().Add(d.SecShare.V, delta), nil), s.Point().Mul(d.RndShare.V, rabH(s, vp)))
	return l, share.NewPubPoly(s, nil, d.Commitments).Eval(d.SecShare.I).V
}
func rabOnPoly(s vss.Suite, vp []kyber.Point, commits []kyber.Point, d *vss.Deal) bool {
	l := s.Point().Add(s.Point().Mul(d.SecShare.V, nil), s.Point().Mul(d.RndShare.V, rabH(s, vp)))
	return l.Equal(share.NewPubPoly(s, nil, commits).Eval(d.SecShare.I).V)
}
func rabOtherCommitsDeal(s vss.Suite, vp []kyber.Point, t, i int, tmpl *vss.Deal) *vss.Deal {
	f := share.NewPriPoly(s, uint32(t), nil, s.RandomStream())
	g := share.NewPriPoly(s, uint32(t), nil, s.RandomStream())
	C, _ := f.Commit(nil).Add(g.Commit(rabH(s, vp)))
	_, c2 := C.Info()
	return &vss.Deal{SessionID: tmpl.SessionID, SecShare: f.Eval(uint32(i)), RndShare: g.Eval(uint32(i)), T: tmpl.T, Commitments: c2}
}
