package main

import (
	"fmt"
	"strings"

	"verif/e2/hx"
)

func main() { hx.Main("C10", gen) }

type hist struct {
	n, t      int
	deal      []string
	respFault string
	just      string
	timeout   string
	order     string
	justThenGood bool // an invalid justification is followed by the correct one
}

func (h hist) String() string {
	sfx := ""
	if h.justThenGood {
		sfx = "+thenCorrect"
	}
	return fmt.Sprintf("n=%d t=%d deals=%s resp=%s just=%s%s timeout=%s order=%s", h.n, h.t, strings.Join(h.deal, ","), h.respFault, h.just, sfx, h.timeout, h.order)
}

var dealKinds = []string{"honest", "share+d", "commit+d", "wrongidx", "bigidx", "T=1", "T=n+1", "otherrcpt", "badsig", "dhswap", "truncated", "replay", "none"}
var justKinds = []string{"correct", "none", "wrongshare", "otherindex", "othercommits"}

func gen(tier string, seed int64) []hx.Scenario {
	rng := hx.NewRng(seed)
	var hs []hist
	maxN := 4
	if tier == "thorough" {
		maxN = 6
	}
	for n := 2; n <= maxN; n++ {
		for t := 2; t <= n; t++ {
			honest := make([]string, n)
			for i := range honest {
				honest[i] = "honest"
			}
			// all-honest under every response fault, order and timeout
			for _, rf := range []string{"none", "forged:0", "wrongsid:1", "dup:0", fmt.Sprintf("absent:%d", n-1), "absent:0"} {
				for _, to := range []string{"none", "before", "after"} {
					for _, o := range []string{"id", "rev", "rot"} {
						hs = append(hs, hist{n, t, honest, rf, "correct", to, o, false})
					}
				}
			}
			// one faulty deal of every kind at every position, every justification behaviour
			for i := 0; i < n; i++ {
				for _, k := range dealKinds[1:] {
					js := []string{"correct"}
					if k == "share+d" || k == "commit+d" || k == "T=1" || k == "T=n+1" {
						js = justKinds
					}
					for _, j := range js {
						for _, to := range []string{"none", "after"} {
							d := append([]string{}, honest...)
							d[i] = k
							hs = append(hs, hist{n, t, d, "none", j, to, []string{"id", "rev", "rot"}[(i+len(j))%3], false})
							if j != "correct" && j != "none" && k == "share+d" {
								hs = append(hs, hist{n, t, d, "none", j, to, "id", true})
							}
						}
					}
				}
			}
			// responses that reach only the dealer: two (or three) verifiers stay silent towards the others, one of them
			// holds a bad share and complains to the dealer; the timeout passes, then the dealer justifies that complaint
			if n >= 3 {
				for a := 0; a < n; a++ {
					for _, kind := range []string{"share+d", "honest"} {
						d := append([]string{}, honest...)
						d[a] = kind
						b := (a + 1) % n
						hs = append(hs, hist{n, t, d, fmt.Sprintf("silent:%d+%d", a, b), "correct", "before", "id", false})
						if n >= 4 {
							hs = append(hs, hist{n, t, d, fmt.Sprintf("silent:%d+%d+%d", a, b, (a+2)%n), "correct", "before", "rev", false})
						}
					}
				}
			}
			// two faulty deals (exhaustive over the complaint-producing kinds for n = 3, seeded sample otherwise)
			ck := []string{"share+d", "commit+d", "T=n+1", "none", "wrongidx"}
			if n >= 3 {
				cnt := 0
				for a := 0; a < n; a++ {
					for b := a + 1; b < n; b++ {
						for _, ka := range ck {
							for _, kb := range ck {
								for _, j := range justKinds {
									if n > 3 && rng.Intn(6) != 0 {
										continue
									}
									d := append([]string{}, honest...)
									d[a], d[b] = ka, kb
									hs = append(hs, hist{n, t, d, "none", j, []string{"none", "before", "after"}[cnt%3], []string{"id", "rev", "rot"}[cnt%3], cnt%4 == 1})
									cnt++
								}
							}
						}
					}
				}
			}
		}
	}
	var out []hx.Scenario
	for n := 2; n <= maxN; n++ {
		for t := 2; t <= n; t++ {
			out = append(out, hx.Scenario{Name: "pedersen-aggregator", Cfg: fmt.Sprintf("n=%d t=%d", n, t), Run: func(x *hx.Ctx) { pedAggregator(x, n, t) }})
		}
	}
	for _, h := range hs {
		out = append(out, hx.Scenario{Name: "pedersen", Cfg: h.String(), Run: func(x *hx.Ctx) { pedRun(x, h) }})
		out = append(out, hx.Scenario{Name: "rabin", Cfg: h.String(), Run: func(x *hx.Ctx) { rabRun(x, h) }})
	}
	for n := 2; n <= 4; n++ {
		for t := (n + 1) / 2; t <= n; t++ {
			if t < 2 {
				continue
			}
			for _, bad := range []int{1, n + 1} {
				out = append(out, hx.Scenario{Name: "pedersen-uniform-badT", Cfg: fmt.Sprintf("n=%d t=%d T=%d", n, t, bad), Run: func(x *hx.Ctx) { pedUniformBadT(x, n, t, bad) }})
				out = append(out, hx.Scenario{Name: "rabin-uniform-badT", Cfg: fmt.Sprintf("n=%d t=%d T=%d", n, t, bad), Run: func(x *hx.Ctx) { rabUniformBadT(x, n, t, bad) }})
			}
		}
	}
	return out
}
