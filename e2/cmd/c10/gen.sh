#!/bin/sh
# regenerate rab.go (Rabin variant of the harness) from ped.go
cd "$(dirname "$0")"
sed -e 's#share/vss/pedersen"#share/vss/rabin"#' -e 's/pedRun/rabRun/g' -e 's/StatusApproved/Approved/g' -e 's/\bped\([A-Z]\)/rab\1/g' \
    -e 's#^// C10 — Pedersen VSS: the real share/vss/pedersen#// GENERATED from ped.go by gen.sh: C10 — Rabin VSS: the real share/vss/rabin#' ped.go > rab.go
