// C10 — Pedersen VSS: the real share/vss/pedersen under a (possibly malicious) dealer, symbolic values.
package main

import (
	"strings"
	"fmt"

	"go.dedis.ch/kyber/v4"
	vss "go.dedis.ch/kyber/v4/share/vss/pedersen"
	"go.dedis.ch/kyber/v4/sign/schnorr"

	"verif/e2/hx"
)

func pedRun(x *hx.Ctx, h hist) {
	s := x.S.(vss.Suite)
	n, t := h.n, h.t
	var vk []kyber.Scalar
	var vp []kyber.Point
	for i := 0; i < n; i++ {
		k := s.Scalar().Pick(s.RandomStream())
		vk, vp = append(vk, k), append(vp, s.Point().Mul(k, nil))
	}
	dk := s.Scalar().Pick(s.RandomStream())
	dp := s.Point().Mul(dk, nil)
	secret := s.Scalar().Pick(s.RandomStream())
	dealer, err := vss.NewDealer(s, dk, secret, vp, uint32(t))
	if !x.NoErr("NewDealer", err) {
		return
	}
	vs := make([]*vss.Verifier, n)
	for i := range vs {
		vs[i], err = vss.NewVerifier(s, vk[i], dp, vp)
		x.NoErr("NewVerifier", err)
	}
	pd0, _ := dealer.PlaintextDeal(0)
	commits := pd0.Commitments
	pedCheckCommit0(x, s, commits, secret)
	outsider := s.Scalar().Pick(s.RandomStream())

	// ---- phase 1: deals
	resp := make([]*vss.Response, n)
	hasDeal := make([]bool, n)
	goodShare := make([]bool, n) // verifier holds a share on the committed polynomial
	// the session id binds dealer, verifiers, commitments and T: a verifier whose deal carries other
	// commitments or another T lives in another session and its responses are refused by everybody else
	sidClass := make([]string, n+1)
	for i := range sidClass {
		sidClass[i] = "dealt"
		if i < n {
			switch h.deal[i] {
			case "commit+d":
				sidClass[i] = fmt.Sprintf("commit+d#%d", i)
			case "T=1", "T=n+1":
				sidClass[i] = h.deal[i]
			}
		}
	}
	for i := 0; i < n; i++ {
		pd, _ := dealer.PlaintextDeal(i)
		mk := func(f func(d *vss.Deal)) *vss.EncryptedDeal {
			d := pedCopyDeal(pd)
			f(d)
			e, err := dealer.VerifEncryptDeal(i, d)
			x.NoErr("VerifEncryptDeal", err)
			return e
		}
		var e *vss.EncryptedDeal
		expect := "approve"
		kind := h.deal[i]
		switch kind {
		case "honest", "replay":
			e, err = dealer.EncryptedDeal(i)
			x.NoErr("EncryptedDeal", err)
		case "share+d":
			delta := s.Scalar().Pick(s.RandomStream())
			e = mk(func(d *vss.Deal) { d.SecShare.V = s.Scalar().Add(d.SecShare.V, delta) })
			expect = "complain"
			// strength: the share check can never pass for delta != 0
			lhs, rhs := pedShareSides(s, vp, pd, delta)
			x.NeverP(fmt.Sprintf("share+d for verifier %d never satisfies the commitment check", i), lhs, rhs, delta)
		case "commit+d":
			dP := s.Point().Pick(s.RandomStream())
			e = mk(func(d *vss.Deal) { d.Commitments[len(d.Commitments)-1] = s.Point().Add(d.Commitments[len(d.Commitments)-1], dP) })
			expect = "complain"
		case "wrongidx":
			e = mk(func(d *vss.Deal) { o, _ := dealer.PlaintextDeal((i + 1) % n); pedSetShares(d, o) })
			expect = "error"
		case "bigidx":
			e = mk(func(d *vss.Deal) { pedSetIndex(d, uint32(n)) })
			expect = "error"
		case "T=1":
			e = mk(func(d *vss.Deal) { d.T = 1 })
			expect = "complain"
		case "T=n+1":
			e = mk(func(d *vss.Deal) { d.T = uint32(n + 1) })
			expect = "complain"
		case "otherrcpt":
			e, err = dealer.EncryptedDeal((i + 1) % n)
			x.NoErr("EncryptedDeal", err)
			expect = "error"
		case "badsig":
			e, err = dealer.EncryptedDeal(i)
			x.NoErr("EncryptedDeal", err)
			e.Signature, _ = schnorr.Sign(s, outsider, pedDHBytes(e))
			expect = "error"
		case "dhswap":
			e, err = dealer.EncryptedDeal(i)
			x.NoErr("EncryptedDeal", err)
			e2, _ := dealer.EncryptedDeal(i)
			e.DHKey, e.Signature = e2.DHKey, e2.Signature // authentic DH key of another encryption: AEAD must fail
			expect = "error"
		case "truncated":
			e, err = dealer.EncryptedDeal(i)
			x.NoErr("EncryptedDeal", err)
			e.Cipher = e.Cipher[:len(e.Cipher)-1]
			expect = "error"
		case "none":
			continue
		}
		r, err := vs[i].ProcessEncryptedDeal(e)
		switch expect {
		case "approve":
			if x.NoErr(fmt.Sprintf("deal %d (%s) processed", i, kind), err) {
				x.Require(fmt.Sprintf("verifier %d approves an honest deal", i), r.StatusApproved)
				resp[i], hasDeal[i], goodShare[i] = r, true, true
			}
		case "complain":
			if x.NoErr(fmt.Sprintf("deal %d (%s) processed", i, kind), err) {
				x.Require(fmt.Sprintf("verifier %d never approves deal kind %s", i, kind), !r.StatusApproved)
				resp[i], hasDeal[i] = r, true
			}
		case "error":
			x.Err(fmt.Sprintf("deal %d (%s) refused", i, kind), err)
			x.Require("no response for a refused deal", r == nil)
		}
		if kind == "replay" {
			e2, _ := dealer.EncryptedDeal(i)
			_, err = vs[i].ProcessEncryptedDeal(e2)
			x.Err("second deal refused", err)
		}
	}

	// ---- phase 2: responses, delivered to the dealer and to every other verifier
	type view struct {
		ok      map[int]bool // verifier index -> approved or correctly justified (as seen by this party)
		bad     bool         // saw an invalid justification
		present map[int]bool
	}
	views := make([]*view, n+1) // n = dealer
	for i := range views {
		views[i] = &view{ok: map[int]bool{}, present: map[int]bool{}}
	}
	for i := 0; i < n; i++ { // every verifier has recorded its own response
		if resp[i] != nil {
			views[i].present[i] = true
			views[i].ok[i] = resp[i].StatusApproved
		}
	}
	order := hx.Seq(n)
	switch h.order {
	case "rev":
		order = hx.Rev(order)
	case "rot":
		order = append(order[1:], order[0])
	}
	// "silent:a+b": the responses of verifiers a and b reach the dealer only (the other verifiers never see them and,
	// after the timeout, count them as complaints)
	silent := map[int]bool{}
	if strings.HasPrefix(h.respFault, "silent:") {
		for _, f := range strings.Split(strings.TrimPrefix(h.respFault, "silent:"), "+") {
			var k int
			fmt.Sscanf(f, "%d", &k)
			silent[k] = true
		}
	}
	justs := map[int]*vss.Justification{}
	deliver := func(to int, r *vss.Response) error {
		if to == n {
			j, err := dealer.ProcessResponse(r)
			if err == nil && j != nil {
				justs[int(r.Index)] = j
			}
			return err
		}
		return vs[to].ProcessResponse(r)
	}
	for _, i := range order {
		r := resp[i]
		if r == nil {
			continue
		}
		if h.respFault == fmt.Sprintf("absent:%d", i) {
			continue
		}
		for to := 0; to <= n; to++ {
			if to == i || (silent[i] && to < n) {
				continue
			}
			if to < n && !hasDeal[to] {
				x.Err(fmt.Sprintf("response to verifier %d without a deal", to), deliver(to, r))
				continue
			}
			// the receiver compares with the SessionID FIELD of the deal it holds (always the dealt one in this
			// menu); the response carries the id its sender recomputed from the commitments and T it received
			if sidClass[i] != "dealt" {
				x.Err(fmt.Sprintf("response of %d (session %s) refused by %d (session %s)", i, sidClass[i], to, sidClass[to]), deliver(to, r))
				continue
			}
			switch h.respFault {
			case fmt.Sprintf("forged:%d", i):
				f := *r
				f.StatusApproved = !r.StatusApproved // flipped status under the original signature
				x.Err(fmt.Sprintf("response of %d with flipped status refused by %d", i, to), deliver(to, &f))
				f2 := *r
				f2.Signature, _ = schnorr.Sign(s, outsider, f2.Hash(s))
				x.Err(fmt.Sprintf("response of %d signed by an outsider refused by %d", i, to), deliver(to, &f2))
				f3 := *r
				f3.Index = uint32((i + 1) % n)
				x.Err(fmt.Sprintf("response of %d relabelled refused by %d", i, to), deliver(to, &f3))
				f4 := *r
				f4.Index = uint32(n)
				x.Err(fmt.Sprintf("response with index n refused by %d", to), deliver(to, &f4))
			case fmt.Sprintf("wrongsid:%d", i):
				f := *r
				f.SessionID = append([]byte{}, r.SessionID...)
				f.SessionID[0] ^= 1
				f.Signature, _ = schnorr.Sign(s, vk[i], f.Hash(s))
				x.Err(fmt.Sprintf("response of %d for another session refused by %d", i, to), deliver(to, &f))
			}
			cp := *r
			x.NoErr(fmt.Sprintf("response of %d accepted by %d", i, to), deliver(to, &cp))
			views[to].present[i] = true
			views[to].ok[i] = r.StatusApproved
			if h.respFault == fmt.Sprintf("dup:%d", i) {
				cp2 := *r
				x.Err(fmt.Sprintf("duplicate response of %d refused by %d", i, to), deliver(to, &cp2))
			}
		}
	}
	if h.timeout == "before" {
		for i := range vs {
			vs[i].SetTimeout()
		}
		dealer.SetTimeout()
	}

	// ---- phase 3: justifications
	for _, i := range order {
		j, ok := justs[i]
		if !ok {
			continue
		}
		x.Require(fmt.Sprintf("justification for %d reveals the committed share", i), pedOnPoly(s, vp, commits, j.Deal))
		valid := true
		switch h.just {
		case "none":
			continue
		case "correct":
		case "wrongshare":
			delta := s.Scalar().Pick(s.RandomStream())
			nd := pedCopyDeal(j.Deal)
			nd.SecShare.V = s.Scalar().Add(nd.SecShare.V, delta)
			j = &vss.Justification{SessionID: j.SessionID, Index: j.Index, Deal: nd}
			j.Signature, _ = schnorr.Sign(s, dk, j.Hash(s))
			valid = false
		case "otherindex":
			o, _ := dealer.PlaintextDeal((i + 1) % n)
			j = &vss.Justification{SessionID: j.SessionID, Index: j.Index, Deal: o}
			j.Signature, _ = schnorr.Sign(s, dk, j.Hash(s))
			valid = false
		case "othercommits":
			// a fresh polynomial of the same threshold: share consistent with ITS commitments, not with the certified ones
			j = &vss.Justification{SessionID: j.SessionID, Index: j.Index, Deal: pedOtherCommitsDeal(s, vp, t, i, j.Deal)}
			j.Signature, _ = schnorr.Sign(s, dk, j.Hash(s))
			valid = false
		}
		goodJ := justs[i]
		for to := 0; to < n; to++ {
			if silent[i] && h.timeout == "before" && hasDeal[to] && to != i && sidClass[to] == "dealt" {
				// the complaint never reached this verifier, which counted i as a complaint when the timeout passed; the
				// dealer's (correct) justification for i arrives afterwards. Whether it is accepted is recorded; if it is,
				// it clears the complaint of verifier i and of nobody else.
				err := vs[to].ProcessJustification(j)
				x.Outcome(fmt.Sprintf("justification for silent verifier %d accepted by %d after the timeout", i, to), err == nil)
				if err == nil && valid {
					views[to].ok[i] = true
				} else if !valid {
					views[to].bad = true
				}
				continue
			}
			if !hasDeal[to] || !views[to].present[i] {
				continue
			}
			err := vs[to].ProcessJustification(j)
			if !valid && h.justThenGood && sidClass[to] == "dealt" {
				// the dealer follows its invalid justification with the correct one: the dealer stays bad for good
				_ = vs[to].ProcessJustification(goodJ)
				x.Outcome(fmt.Sprintf("correct justification after an invalid one delivered to %d", to), true)
			}
			if sidClass[to] != "dealt" {
				// this verifier was itself dealt other commitments / another T by the (malicious) dealer:
				// what it makes of justifications for the dealt session is recorded, not prescribed
				x.Outcome(fmt.Sprintf("justification for %d at out-of-session verifier %d accepted", i, to), err == nil)
				if err != nil {
					views[to].bad = true
				} else if valid {
					views[to].ok[i] = true
				}
				continue
			}
			if valid {
				x.NoErr(fmt.Sprintf("correct justification for %d accepted by %d", i, to), err)
				views[to].ok[i] = true
			} else {
				x.Err(fmt.Sprintf("invalid justification (%s) for %d refused by %d", h.just, i, to), err)
				views[to].bad = true
			}
		}
		if valid {
			// a justification for an approval / unknown complaint is refused
			for to := 0; to < n; to++ {
				if hasDeal[to] && views[to].present[i] && sidClass[to] == "dealt" {
					x.Err(fmt.Sprintf("second justification for %d refused by %d", i, to), vs[to].ProcessJustification(j))
					break
				}
			}
		}
	}
	if h.timeout == "after" {
		for i := range vs {
			vs[i].SetTimeout()
		}
		dealer.SetTimeout()
	}

	// ---- evaluation
	allHonest := true
	for _, k := range h.deal {
		allHonest = allHonest && (k == "honest" || k == "replay")
	}
	var certDeals []*vss.Deal
	for i := 0; i <= n; i++ {
		var cert bool
		if i == n {
			cert = dealer.DealCertified()
		} else {
			if !hasDeal[i] {
				continue
			}
			cert = vs[i].DealCertified()
		}
		v := views[i]
		okc := 0
		for _, b := range v.ok {
			if b {
				okc++
			}
		}
		// necessary condition of the property
		if cert {
			x.Require(fmt.Sprintf("party %d: certified only with >= t approvals or correct justifications (has %d)", i, okc), okc >= t)
			x.Require(fmt.Sprintf("party %d: certified only without an invalid justification", i), !v.bad)
		}
		if v.bad {
			x.Require(fmt.Sprintf("party %d: dealer stays bad for good", i), !cert)
		}
		x.Outcome(fmt.Sprintf("party %d certified", i), cert)
		if allHonest && len(silent) == 0 {
			missing := 0
			var a int
			if _, err := fmt.Sscanf(h.respFault, "absent:%d", &a); err == nil && a != i {
				missing = 1
			}
			want := missing == 0 || (h.timeout != "none" && n-missing >= t)
			x.Require(fmt.Sprintf("party %d: honest run is certified iff every response arrived or the timeout passed with >= t approvals", i), cert == want, cert)
		}
		if i < n {
			d := vs[i].Deal()
			x.Require(fmt.Sprintf("Deal() non-nil iff certified at %d", i), (d != nil) == cert)
			if cert && goodShare[i] {
				certDeals = append(certDeals, d)
			}
		}
	}
	if dealer.DealCertified() {
		x.ValidP("dealer SecretCommit == secret*G", dealer.SecretCommit(), s.Point().Mul(secret, nil))
	} else {
		x.Require("no SecretCommit when not certified", dealer.SecretCommit() == nil)
	}
	if len(certDeals) >= t {
		// any t approved shares recover the dealer's secret: all t-subsets (bounded by n <= 6)
		for _, sub := range hx.Subsets(len(certDeals), t, t) {
			var ds []*vss.Deal
			for _, k := range sub {
				ds = append(ds, certDeals[k])
			}
			rec, err := vss.RecoverSecret(s, ds, uint32(n), uint32(t))
			if x.NoErr(fmt.Sprintf("RecoverSecret %v", sub), err) {
				x.ValidS(fmt.Sprintf("recovered secret == dealt secret %v", sub), rec, secret)
			}
		}
		_, err := vss.RecoverSecret(s, certDeals[:t-1], uint32(n), uint32(t))
		x.Err("RecoverSecret with t-1 deals", err)
	}
}

// pedUniformBadT: a malicious dealer that consistently deals an OUT-OF-RANGE threshold to every verifier and then
// "justifies" every complaint by revealing that very deal. No verifier may accept such a justification, nobody may
// end up with a certified deal.
func pedUniformBadT(x *hx.Ctx, n, t, badT int) {
	s := x.S.(vss.Suite)
	var vk []kyber.Scalar
	var vp []kyber.Point
	for i := 0; i < n; i++ {
		k := s.Scalar().Pick(s.RandomStream())
		vk, vp = append(vk, k), append(vp, s.Point().Mul(k, nil))
	}
	dk := s.Scalar().Pick(s.RandomStream())
	dp := s.Point().Mul(dk, nil)
	dealer, err := vss.NewDealer(s, dk, s.Scalar().Pick(s.RandomStream()), vp, uint32(t))
	if !x.NoErr("NewDealer", err) {
		return
	}
	vs := make([]*vss.Verifier, n)
	sent := make([]*vss.Deal, n)
	resp := make([]*vss.Response, n)
	for i := range vs {
		vs[i], err = vss.NewVerifier(s, vk[i], dp, vp)
		x.NoErr("NewVerifier", err)
		pd, _ := dealer.PlaintextDeal(i)
		d := pedCopyDeal(pd)
		d.T = uint32(badT)
		sent[i] = d
		e, err := dealer.VerifEncryptDeal(i, d)
		x.NoErr("VerifEncryptDeal", err)
		r, err := vs[i].ProcessEncryptedDeal(e)
		if err != nil {
			x.Outcome(fmt.Sprintf("deal with T=%d refused outright by %d", badT, i), true)
			continue
		}
		x.Require(fmt.Sprintf("verifier %d never approves a deal with T=%d", i, badT), !r.StatusApproved)
		resp[i] = r
	}
	for i, r := range resp {
		if r == nil {
			continue
		}
		for to := 0; to < n; to++ {
			if to != i && resp[to] != nil {
				cp := *r
				_ = vs[to].ProcessResponse(&cp)
			}
		}
	}
	for i, r := range resp {
		if r == nil {
			continue
		}
		j := &vss.Justification{SessionID: r.SessionID, Index: uint32(i), Deal: sent[i]}
		j.Signature, _ = schnorr.Sign(s, dk, j.Hash(s))
		for to := 0; to < n; to++ {
			if resp[to] == nil {
				continue
			}
			x.Err(fmt.Sprintf("justification revealing the out-of-range deal of %d refused by %d", i, to), vs[to].ProcessJustification(j))
		}
	}
	for i := range vs {
		vs[i].SetTimeout()
		x.Require(fmt.Sprintf("verifier %d: a deal with T=%d is never certified", i, badT), !vs[i].DealCertified())
		x.Require(fmt.Sprintf("verifier %d: no deal handed out", i), vs[i].Deal() == nil)
	}
}
