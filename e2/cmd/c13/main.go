// C13 — PVSS and DLEQ: real share/pvss and proof/dleq over symbolic values.
package main

import (
	"strings"
	"fmt"

	"go.dedis.ch/kyber/v4"
	"go.dedis.ch/kyber/v4/proof/dleq"
	"go.dedis.ch/kyber/v4/share"
	"go.dedis.ch/kyber/v4/share/pvss"

	"verif/e2/hx"
)

func main() { hx.Main("C13", gen) }

var encMuts = []string{"S.V", "P.C", "P.R", "P.VG", "P.VH", "S.I", "commit0", "commitLast", "key", "sH", "swap", "H"}
var decMuts = []string{"S.V", "P.C", "P.R", "P.VG", "P.VH", "swap", "key", "encS.V", "S.I"}

func gen(tier string, seed int64) []hx.Scenario {
	maxN := 5
	if tier == "thorough" {
		maxN = 8
	}
	rng := hx.NewRng(seed)
	var out []hx.Scenario
	for n := 2; n <= maxN; n++ {
		for t := 1; t <= n; t++ {
			var subs [][]int
			if n <= 5 {
				subs = hx.Subsets(n, max(t-1, 1), n)
			} else {
				subs = [][]int{hx.Seq(n), hx.Seq(t), hx.Seq(n)[n-t:]}
				if t > 1 {
					subs = append(subs, hx.Seq(t-1))
				}
				for i := 0; i < 6; i++ {
					subs = append(subs, hx.BitsOf(1+rng.Intn(1<<n-1), n))
				}
			}
			for si, sub := range subs {
				ords := [][]int{sub}
				if si%2 == 0 {
					ords = append(ords, hx.Rev(sub))
				}
				if si%5 == 0 && len(sub) > 2 {
					ords = append(ords, rng.Perm(sub))
				}
				for _, o := range ords {
					out = append(out, hx.Scenario{Name: "pvss-honest", Cfg: fmt.Sprintf("n=%d t=%d dec=%v", n, t, o), Run: func(x *hx.Ctx) { honest(x, n, t, o) }})
				}
			}
		}
	}
	for _, kind := range []string{"zero", "one"} {
		for _, sh := range [][2]int{{2, 1}, {3, 2}, {4, 4}} {
			n, t := sh[0], sh[1]
			out = append(out, hx.Scenario{Name: "pvss-honest", Cfg: fmt.Sprintf("n=%d t=%d dec=%v secret=%s", n, t, hx.Seq(t), kind), Run: func(x *hx.Ctx) { honest(x, n, t, hx.Seq(t)) }})
		}
	}
	shapes := [][2]int{{3, 2}, {4, 3}}
	if tier == "thorough" {
		shapes = append(shapes, [2]int{5, 3}, [2]int{6, 4}, [2]int{4, 4})
	}
	for _, sh := range shapes {
		n, t := sh[0], sh[1]
		for j := 0; j < n; j++ {
			for _, m := range encMuts {
				out = append(out, hx.Scenario{Name: "pvss-enc-mut", Cfg: fmt.Sprintf("n=%d t=%d j=%d mut=%s", n, t, j, m), Run: func(x *hx.Ctx) { encMut(x, n, t, j, m) }})
			}
			for _, m := range decMuts {
				out = append(out, hx.Scenario{Name: "pvss-dec-mut", Cfg: fmt.Sprintf("n=%d t=%d j=%d mut=%s", n, t, j, m), Run: func(x *hx.Ctx) { decMut(x, n, t, j, m) }})
			}
		}
	}
	for _, m := range []string{"honest", "xH", "xG", "C", "R", "VG", "VH", "G", "H", "swapGH", "xHnull", "xHisxG'"} {
		out = append(out, hx.Scenario{Name: "dleq", Cfg: "mut=" + m, Run: func(x *hx.Ctx) { dleqCase(x, m, "indep") }})
	}
	// degenerate statements: equal bases, one base a known multiple of the other
	for _, rel := range []string{"same", "multiple"} {
		for _, m := range []string{"honest", "xH", "xG", "C", "R", "VG", "VH", "xHnull", "xHisxG'"} {
			out = append(out, hx.Scenario{Name: "dleq", Cfg: "bases=" + rel + " mut=" + m, Run: func(x *hx.Ctx) { dleqCase(x, m, rel) }})
		}
	}
	for k := 1; k <= 3; k++ {
		out = append(out, hx.Scenario{Name: "dleq-batch", Cfg: fmt.Sprintf("k=%d", k), Run: func(x *hx.Ctx) { dleqBatch(x, k) }})
	}
	return out
}

type setup struct {
	s      hx.Suite
	n, t   int
	G, H   kyber.Point
	x      []kyber.Scalar
	X      []kyber.Point
	secret kyber.Scalar
	enc    []*pvss.PubVerShare
	pub    *share.PubPoly
	sH     []kyber.Point
}

// secretKind selects the dealt secret of a scenario: "" random, "zero", "one" (legal degenerate values)
func dealSecret(x *hx.Ctx, kind string) kyber.Scalar {
	switch kind {
	case "zero":
		return x.S.Scalar().Zero()
	case "one":
		return x.S.Scalar().One()
	}
	return x.S.Scalar().Pick(x.S.RandomStream())
}

func deal(x *hx.Ctx, n, t int) *setup {
	s := x.S
	st := &setup{s: s, n: n, t: t, G: s.Point().Base(), H: s.Point().Pick(s.RandomStream())}
	for i := 0; i < n; i++ {
		k := s.Scalar().Pick(s.RandomStream())
		st.x = append(st.x, k)
		st.X = append(st.X, s.Point().Mul(k, nil))
	}
	kind := ""
	if strings.Contains(x.Cfg, "secret=zero") {
		kind = "zero"
	} else if strings.Contains(x.Cfg, "secret=one") {
		kind = "one"
	}
	st.secret = dealSecret(x, kind)
	given := st.secret.Clone()
	defer func() { x.Require("EncShares leaves the caller's secret unchanged", st.secret.Equal(given)) }()
	var err error
	st.enc, st.pub, err = pvss.EncShares(s, st.H, st.X, st.secret, uint32(t))
	x.NoErr("EncShares", err)
	for i := 0; i < n; i++ {
		st.sH = append(st.sH, st.pub.Eval(st.enc[i].S.I).V)
	}
	return st
}

func cloneShare(s hx.Suite, p *pvss.PubVerShare) *pvss.PubVerShare {
	return &pvss.PubVerShare{S: share.PubShare{I: p.S.I, V: p.S.V.Clone()}, P: dleq.Proof{C: p.P.C.Clone(), R: p.P.R.Clone(), VG: p.P.VG.Clone(), VH: p.P.VH.Clone()}}
}

func honest(x *hx.Ctx, n, t int, decIdx []int) {
	st := deal(x, n, t)
	s := st.s
	K, E, err := pvss.VerifyEncShareBatch(s, st.H, st.X, st.sH, st.pub, st.enc)
	x.NoErr("VerifyEncShareBatch", err)
	x.Require("all encrypted shares verify", len(E) == n && len(K) == n, len(E))
	x.ValidP("commitment polynomial commits to secret*H", st.pub.Commit(), s.Point().Mul(st.secret, st.H))
	dec := make([]*pvss.PubVerShare, n)
	for i := 0; i < n; i++ {
		d, err := pvss.DecShare(s, st.H, st.X[i], st.sH[i], st.x[i], st.enc[i].P.C, st.enc[i])
		if !x.NoErr(fmt.Sprintf("DecShare%d", i), err) {
			return
		}
		dec[i] = d
		x.NoErr(fmt.Sprintf("VerifyDecShare%d", i), pvss.VerifyDecShare(s, st.G, st.X[i], st.enc[i], d))
		x.ValidP(fmt.Sprintf("x_%d * dec == enc", i), s.Point().Mul(st.x[i], d.S.V), st.enc[i].S.V)
	}
	var Xs []kyber.Point
	var Es, Ds []*pvss.PubVerShare
	for _, i := range decIdx {
		Xs = append(Xs, st.X[i])
		Es = append(Es, st.enc[i])
		Ds = append(Ds, dec[i])
	}
	rec, err := pvss.RecoverSecret(s, st.G, Xs, Es, Ds, uint32(t), uint32(n))
	if len(decIdx) >= t {
		if x.NoErr("RecoverSecret", err) {
			x.ValidP("RecoverSecret == secret*G", rec, s.Point().Mul(st.secret, nil))
		}
	} else {
		x.Err("RecoverSecret with fewer than t", err)
	}
	// batch decryption by trustee 0 of everything: only its own share decrypts
	ch := make([]kyber.Scalar, n)
	for i := range ch {
		ch[i] = st.enc[i].P.C
	}
	Xrep := make([]kyber.Point, n)
	for i := range Xrep {
		Xrep[i] = st.X[i]
	}
	_, _, D, err := pvss.DecShareBatch(s, st.H, Xrep, st.sH, st.x[0], ch, st.enc)
	x.NoErr("DecShareBatch", err)
	x.Require("DecShareBatch yields n (each enc share is valid for its own key)", len(D) == n, len(D))
}

func contains(E []*pvss.PubVerShare, p *pvss.PubVerShare) bool {
	for _, e := range E {
		if e == p {
			return true
		}
	}
	return false
}

func encMut(x *hx.Ctx, n, t, j int, mut string) {
	st := deal(x, n, t)
	s := st.s
	enc := make([]*pvss.PubVerShare, n)
	for i := range enc {
		enc[i] = cloneShare(s, st.enc[i])
	}
	X := append([]kyber.Point{}, st.X...)
	sH := append([]kyber.Point{}, st.sH...)
	pub := st.pub
	H := st.H
	dS := s.Scalar().Pick(s.RandomStream())
	dP := s.Point().Pick(s.RandomStream())
	k := (j + 1) % n
	all := false // true when the mutation changes the global challenge: then every share must fail
	switch mut {
	case "S.V":
		enc[j].S.V = s.Point().Add(enc[j].S.V, dP)
		all = true
	case "P.C":
		enc[j].P.C = s.Scalar().Add(enc[j].P.C, dS)
	case "P.R":
		enc[j].P.R = s.Scalar().Add(enc[j].P.R, dS)
	case "P.VG":
		enc[j].P.VG = s.Point().Add(enc[j].P.VG, dP)
		all = true
	case "P.VH":
		enc[j].P.VH = s.Point().Add(enc[j].P.VH, dP)
		all = true
	case "S.I":
		enc[j].S.I = uint32(k) // index is not used by the verification equation, sH is supplied by the caller
	case "commit0", "commitLast":
		b, cs := st.pub.Info()
		cs2 := make([]kyber.Point, len(cs))
		for i := range cs {
			cs2[i] = cs[i].Clone()
		}
		w := 0
		if mut == "commitLast" {
			w = len(cs2) - 1
		}
		cs2[w] = s.Point().Add(cs2[w], dP)
		pub = share.NewPubPoly(s, b, cs2)
		for i := range sH {
			sH[i] = pub.Eval(enc[i].S.I).V
		}
		all = true
	case "key":
		X[j] = s.Point().Add(X[j], dP)
	case "sH":
		sH[j] = s.Point().Add(sH[j], dP)
	case "swap":
		enc[j], enc[k] = enc[k], enc[j]
		all = true
	case "H":
		H = s.Point().Add(H, dP)
		all = true
	}
	Xc, sHc, encc := append([]kyber.Point{}, X...), append([]kyber.Point{}, sH...), append([]*pvss.PubVerShare{}, enc...)
	_, E, err := pvss.VerifyEncShareBatch(s, H, X, sH, pub, enc)
	x.NoErr("VerifyEncShareBatch", err)
	sameLists := len(X) == len(Xc) && len(sH) == len(sHc) && len(enc) == len(encc)
	for i := 0; sameLists && i < len(Xc); i++ {
		sameLists = X[i] == Xc[i] && sH[i] == sHc[i] && enc[i] == encc[i]
	}
	x.Require("VerifyEncShareBatch leaves the caller's lists unchanged (entries and order)", sameLists)
	_, E2, err := pvss.VerifyEncShareBatch(s, H, X, sH, pub, enc)
	x.Require("a second VerifyEncShareBatch over the same lists gives the same result", err == nil && len(E2) == len(E))
	if mut == "S.I" {
		x.Outcome("S.I mutation accepted count", len(E))
		return
	}
	x.Require("mutated encrypted share excluded", !contains(E, enc[j]), mut)
	if mut == "swap" {
		x.Require("swapped partner excluded", !contains(E, enc[k]))
	}
	if all {
		x.Require("challenge-changing mutation invalidates the whole batch", len(E) == 0, len(E))
	} else {
		x.Require("other shares unaffected", len(E) == n-1, len(E))
	}
	// a trustee does not decrypt a share that fails verification
	_, err = pvss.DecShare(s, H, X[j], sH[j], st.x[j], st.enc[0].P.C, enc[j])
	x.Err("DecShare refuses mutated share", err)
}

func decMut(x *hx.Ctx, n, t, j int, mut string) {
	st := deal(x, n, t)
	s := st.s
	dec := make([]*pvss.PubVerShare, n)
	for i := 0; i < n; i++ {
		d, err := pvss.DecShare(s, st.H, st.X[i], st.sH[i], st.x[i], st.enc[i].P.C, st.enc[i])
		if !x.NoErr(fmt.Sprintf("DecShare%d", i), err) {
			return
		}
		dec[i] = d
	}
	enc := make([]*pvss.PubVerShare, n)
	for i := range enc {
		enc[i] = cloneShare(s, st.enc[i])
	}
	X := append([]kyber.Point{}, st.X...)
	dS := s.Scalar().Pick(s.RandomStream())
	dP := s.Point().Pick(s.RandomStream())
	k := (j + 1) % n
	switch mut {
	case "S.V":
		dec[j].S.V = s.Point().Add(dec[j].S.V, dP)
	case "P.C":
		dec[j].P.C = s.Scalar().Add(dec[j].P.C, dS)
	case "P.R":
		dec[j].P.R = s.Scalar().Add(dec[j].P.R, dS)
	case "P.VG":
		dec[j].P.VG = s.Point().Add(dec[j].P.VG, dP)
	case "P.VH":
		dec[j].P.VH = s.Point().Add(dec[j].P.VH, dP)
	case "swap":
		dec[j], dec[k] = dec[k], dec[j]
	case "key":
		X[j] = s.Point().Add(X[j], dP)
	case "encS.V":
		enc[j].S.V = s.Point().Add(enc[j].S.V, dP)
	case "S.I":
		dec[j].S.I = uint32(k)
	}
	Xc, encc, decc := append([]kyber.Point{}, X...), append([]*pvss.PubVerShare{}, enc...), append([]*pvss.PubVerShare{}, dec...)
	D, err := pvss.VerifyDecShareBatch(s, st.G, X, enc, dec)
	x.NoErr("VerifyDecShareBatch", err)
	sameLists := len(X) == len(Xc) && len(enc) == len(encc) && len(dec) == len(decc)
	for i := 0; sameLists && i < len(Xc); i++ {
		sameLists = X[i] == Xc[i] && enc[i] == encc[i] && dec[i] == decc[i]
	}
	x.Require("VerifyDecShareBatch leaves the caller's lists unchanged (entries and order)", sameLists)
	D2, err := pvss.VerifyDecShareBatch(s, st.G, X, enc, dec)
	x.Require("a second VerifyDecShareBatch over the same lists gives the same result", err == nil && len(D2) == len(D))
	if mut == "S.I" {
		// the index is not covered by the decryption proof; with a wrong index recovery must not return the secret
		rec, err := pvss.RecoverSecret(s, st.G, X[:t], enc[:t], dec[:t], uint32(t), uint32(n))
		if j < t && k != j && err == nil && t > 1 {
			x.Require("share with forged index does not recover the secret", !rec.Equal(s.Point().Mul(st.secret, nil)))
		}
		return
	}
	x.Require("mutated decrypted share excluded", !contains(D, dec[j]), mut)
	if mut == "swap" {
		x.Require("swapped partner excluded", !contains(D, dec[k]))
		x.Require("others unaffected", len(D) == n-2 || n == 2 && len(D) == 0, len(D))
	} else {
		x.Require("others unaffected", len(D) == n-1, len(D))
	}
	// exactly t shares of which one is bad: refused
	idx := []int{j}
	for i := 0; len(idx) < t && i < n; i++ {
		if i != j && !(mut == "swap" && i == k) {
			idx = append(idx, i)
		}
	}
	if len(idx) == t {
		var Xs []kyber.Point
		var Es, Ds []*pvss.PubVerShare
		for _, i := range idx {
			Xs, Es, Ds = append(Xs, X[i]), append(Es, enc[i]), append(Ds, dec[i])
		}
		_, err = pvss.RecoverSecret(s, st.G, Xs, Es, Ds, uint32(t), uint32(n))
		x.Err("RecoverSecret refuses t shares with one invalid", err)
	}
}

// rel: relation between the two bases: "indep" (independent), "same" (H = G), "multiple" (H = k*G)
func dleqCase(x *hx.Ctx, mut, rel string) {
	s := x.S
	G := s.Point().Pick(s.RandomStream())
	H := s.Point().Pick(s.RandomStream())
	switch rel {
	case "same":
		H = G.Clone()
	case "multiple":
		H = s.Point().Mul(s.Scalar().Pick(s.RandomStream()), G)
	}
	sec := s.Scalar().Pick(s.RandomStream())
	p, xG, xH, err := dleq.NewDLEQProof(s, G, H, sec)
	x.NoErr("NewDLEQProof", err)
	x.ValidP("xG", xG, s.Point().Mul(sec, G))
	x.ValidP("xH", xH, s.Point().Mul(sec, H))
	dS := s.Scalar().Pick(s.RandomStream())
	dP := s.Point().Pick(s.RandomStream())
	switch mut {
	case "honest":
		x.NoErr("Verify", p.Verify(s, G, H, xG, xH))
		return
	case "xH":
		// proof for x checked against (xG, x'H), x' = x+d: second equation is c*d*H = 0
		xH2 := s.Point().Mul(s.Scalar().Add(sec, dS), H)
		x.Err("Verify(xG, x'H)", p.Verify(s, G, H, xG, xH2))
		rhs := s.Point().Add(s.Point().Mul(p.R, H), s.Point().Mul(p.C, xH2))
		x.NeverP("never accepted for x' != x (c, H non-zero)", p.VH, rhs, dS, p.C, H)
		return
	case "xG":
		xG2 := s.Point().Mul(s.Scalar().Add(sec, dS), G)
		x.Err("Verify(x'G, xH)", p.Verify(s, G, H, xG2, xH))
		rhs := s.Point().Add(s.Point().Mul(p.R, G), s.Point().Mul(p.C, xG2))
		x.NeverP("never accepted for x' != x (c, G non-zero)", p.VG, rhs, dS, p.C, G)
		return
	case "C":
		p.C = s.Scalar().Add(p.C, dS)
	case "R":
		p.R = s.Scalar().Add(p.R, dS)
	case "VG":
		p.VG = s.Point().Add(p.VG, dP)
	case "VH":
		p.VH = s.Point().Add(p.VH, dP)
	case "G":
		G = s.Point().Add(G, dP)
	case "H":
		H = s.Point().Add(H, dP)
	case "swapGH":
		G, H = H, G
	case "xHnull":
		xH = s.Point().Null()
	case "xHisxG'":
		// the second claimed point replaced by a valid-looking multiple of the FIRST base with another exponent
		xH = s.Point().Mul(s.Scalar().Add(sec, dS), G)
	}
	x.Err("Verify after mutation "+mut, p.Verify(s, G, H, xG, xH))
}

func dleqBatch(x *hx.Ctx, k int) {
	s := x.S
	var G, H []kyber.Point
	var secs []kyber.Scalar
	for i := 0; i < k; i++ {
		G = append(G, s.Point().Pick(s.RandomStream()))
		H = append(H, s.Point().Pick(s.RandomStream()))
		secs = append(secs, s.Scalar().Pick(s.RandomStream()))
	}
	ps, xG, xH, err := dleq.NewDLEQProofBatch(s, G, H, secs)
	x.NoErr("NewDLEQProofBatch", err)
	for i := 0; i < k; i++ {
		x.NoErr(fmt.Sprintf("Verify%d", i), ps[i].Verify(s, G[i], H[i], xG[i], xH[i]))
		if k > 1 {
			j := (i + 1) % k
			x.Err(fmt.Sprintf("proof %d against statement %d", i, j), ps[i].Verify(s, G[j], H[j], xG[j], xH[j]))
		}
	}
	_, _, _, err = dleq.NewDLEQProofBatch(s, G, H[:k-1], secs)
	x.Err("different lengths", err)
}
