package main

import (
	"errors"
	"time"
	"fmt"
	"sync"

	"go.dedis.ch/kyber/v4"
	dkg "go.dedis.ch/kyber/v4/share/dkg/pedersen"
	"go.dedis.ch/kyber/v4/share"
	"go.dedis.ch/kyber/v4/sign/schnorr"
	"go.dedis.ch/kyber/v4/xof/blake2xb"

	"verif/e2/hx"
)

// The goroutine-driven Protocol driver (share/dkg/pedersen/protocol.go) under a deterministic board: every node runs
// the real Protocol.Start loop; the harness is the network and the clock. It hands each node one event at a time
// (a bundle on one of its three channels, or a phase tick) and waits until the node is back at its select, so a
// schedule is exactly a per-node delivery order plus the points where the phaser ticks. Fast-sync transitions are the
// driver's own.

type pBoard struct {
	id    int
	deals chan dkg.DealBundle
	resps chan dkg.ResponseBundle
	justs chan dkg.JustificationBundle
	out   *pOut
}

type pOut struct {
	mu    sync.Mutex
	deals []*dkg.DealBundle
	resps []*dkg.ResponseBundle
	justs []*dkg.JustificationBundle
}

func (b *pBoard) PushDeals(d *dkg.DealBundle)                   { b.out.mu.Lock(); b.out.deals = append(b.out.deals, d); b.out.mu.Unlock() }
func (b *pBoard) IncomingDeal() <-chan dkg.DealBundle           { return b.deals }
func (b *pBoard) PushResponses(r *dkg.ResponseBundle)           { b.out.mu.Lock(); b.out.resps = append(b.out.resps, r); b.out.mu.Unlock() }
func (b *pBoard) IncomingResponse() <-chan dkg.ResponseBundle   { return b.resps }
func (b *pBoard) PushJustifications(j *dkg.JustificationBundle) { b.out.mu.Lock(); b.out.justs = append(b.out.justs, j); b.out.mu.Unlock() }
func (b *pBoard) IncomingJustification() <-chan dkg.JustificationBundle { return b.justs }

type pPhaser struct{ ch chan dkg.Phase }

func (p *pPhaser) NextPhase() chan dkg.Phase { return p.ch }

type pNode struct {
	name   string
	oldIdx int
	newIdx int
	priv   kyber.Scalar
	pub    kyber.Point
	absent bool
	board  *pBoard
	ph     *pPhaser
	proto  *dkg.Protocol
	done   chan struct{}
	res    dkg.OptionResult
	got    dkg.OptionResult // written by the waiting goroutine before done is closed
	stalled bool
	k      int // position among the running nodes (selects the delivery order)
}

// stallAfter: a node that neither takes the next input nor finishes within this time is declared stalled (the driver
// under test is blocked for good); the scenario then reports it as "does not complete" instead of dead-locking the harness.
const stallAfter = 40 * time.Second

// tick hands a phase to the node (unless it already finished) and then a no-op phase: when the second send returns the
// node has finished handling the first.
func (n *pNode) tick(p dkg.Phase) {
	if n.stalled {
		return
	}
	select {
	case n.ph.ch <- p:
	case <-n.done:
		return
	case <-time.After(stallAfter):
		n.stalled = true
		return
	}
	n.barrier()
}
func (n *pNode) barrier() {
	if n.stalled {
		return
	}
	select {
	case n.ph.ch <- dkg.InitPhase:
	case <-n.done:
	case <-time.After(stallAfter):
		n.stalled = true
	}
}

// finished waits for the node's result; a stalled node has none.
func (n *pNode) finished() {
	if !n.stalled {
		select {
		case <-n.done:
			n.res = n.got
			return
		case <-time.After(stallAfter):
			n.stalled = true
		}
	}
	n.res = dkg.OptionResult{Error: errors.New("stalled: the Protocol driver neither finished nor accepted further input")}
}

type protoCfg struct {
	n0, t0 int    // fresh DKG: the group; resharing: the old group
	reshare string // "" | "same" | "shrink" | "shrink-absent" | "grow"
	t1     int
	fast   bool
	absent int // fresh DKG only: index of a node that never shows up, or -1
	order  string
}

func (c protoCfg) String() string {
	return fmt.Sprintf("n=%d t=%d reshare=%s t1=%d fast=%v absent=%d order=%s", c.n0, c.t0, c.reshare, c.t1, c.fast, c.absent, c.order)
}

func pOrder[T any](in []T, kind string, k int) []T {
	out := append([]T{}, in...)
	switch kind {
	case "rev":
		for i, j := 0, len(out)-1; i < j; i, j = i+1, j-1 {
			out[i], out[j] = out[j], out[i]
		}
	case "rot": // every node sees another rotation
		if len(out) > 0 {
			r := k % len(out)
			out = append(out[r:], out[:r]...)
		}
	case "mixed": // even nodes in order, odd nodes reversed
		if k%2 == 1 {
			for i, j := 0, len(out)-1; i < j; i, j = i+1, j-1 {
				out[i], out[j] = out[j], out[i]
			}
		}
	}
	return out
}

// runProtocols drives one DKG (fresh or resharing) among nodes and returns when every running node has finished.
func runProtocols(x *hx.Ctx, nodes []*pNode, mk func(n *pNode) *dkg.Config, fast bool, order string) bool {
	out := &pOut{}
	var running []*pNode
	for _, n := range nodes {
		if n.absent {
			continue
		}
		n.board = &pBoard{id: len(running), deals: make(chan dkg.DealBundle), resps: make(chan dkg.ResponseBundle), justs: make(chan dkg.JustificationBundle), out: out}
		n.ph = &pPhaser{ch: make(chan dkg.Phase)}
		n.done = make(chan struct{})
		n.k = len(running)
		p, err := dkg.NewProtocol(mk(n), n.board, n.ph, false)
		if !x.NoErr("NewProtocol "+n.name, err) {
			return false
		}
		n.proto = p
		go func(n *pNode) {
			n.got = <-p.WaitEnd()
			close(n.done)
		}(n)
		running = append(running, n)
	}
	for _, n := range running {
		n.tick(dkg.DealPhase)
	}
	out.mu.Lock()
	deals := append([]*dkg.DealBundle{}, out.deals...)
	out.mu.Unlock()
	for _, n := range running {
		for _, d := range pOrder(deals, order, n.k) {
			if n.stalled {
				continue
			}
			select {
			case n.board.deals <- *d:
				n.barrier()
			case <-n.done:
			case <-time.After(stallAfter):
				n.stalled = true
			}
		}
		n.tick(dkg.ResponsePhase) // the clock: a no-op for a node that already moved on in fast-sync (wrong phase => it aborts only if out of step)
	}
	out.mu.Lock()
	resps := append([]*dkg.ResponseBundle{}, out.resps...)
	out.mu.Unlock()
	for _, n := range running {
		for _, r := range pOrder(resps, order, n.k) {
			if n.stalled {
				continue
			}
			select {
			case n.board.resps <- *r:
				n.barrier()
			case <-n.done:
			case <-time.After(stallAfter):
				n.stalled = true
			}
		}
		n.tick(dkg.JustifPhase)
	}
	out.mu.Lock()
	justs := append([]*dkg.JustificationBundle{}, out.justs...)
	out.mu.Unlock()
	x.Outcome("bundles", fmt.Sprintf("deals=%d resps=%d justs=%d", len(deals), len(resps), len(justs)))
	for _, n := range running {
		for _, j := range pOrder(justs, order, n.k) {
			if n.stalled {
				continue
			}
			select {
			case n.board.justs <- *j:
				n.barrier()
			case <-n.done:
			case <-time.After(stallAfter):
				n.stalled = true
			}
		}
		n.tick(dkg.FinishPhase)
	}
	for _, n := range running {
		n.finished()
	}
	_ = fast
	return true
}

func protoCase(x *hx.Ctx, c protoCfg) {
	s := x.S.(dkg.Suite)
	nonce := make([]byte, 32)
	copy(nonce, "verif-c11-proto")
	var old []*pNode
	var oldNodes []dkg.Node
	for i := 0; i < c.n0; i++ {
		k := s.Scalar().Pick(s.RandomStream())
		n := &pNode{name: fmt.Sprintf("old%d", i), oldIdx: i, newIdx: i, priv: k, pub: s.Point().Mul(k, nil)}
		old = append(old, n)
		oldNodes = append(oldNodes, dkg.Node{Index: uint32(i), Public: n.pub})
	}
	if c.reshare == "" && c.absent >= 0 {
		old[c.absent].absent = true
	}
	mkFresh := func(n *pNode) *dkg.Config {
		return &dkg.Config{Suite: s, Longterm: n.priv, NewNodes: oldNodes, Threshold: uint32(c.t0), Nonce: nonce, Auth: schnorr.NewScheme(s), FastSync: c.fast,
			Reader: blake2xb.New([]byte("c11-proto-" + n.name)), UserReaderOnly: true}
	}
	// the clock ticks of a fast-sync run that is already ahead are refused by the driver ("wrong phase" => the node
	// stops): in fast-sync the harness therefore only ticks when a node cannot advance by itself. That is decided per node
	// by the driver's own phase test, so the fresh run below uses the plain schedule for !fast and the event-driven one for fast.
	if !runProtocolsAuto(x, old, mkFresh, c.fast, c.order) {
		return
	}
	var ref *dkg.Result
	var shares []*share.PriShare
	honest := 0
	for _, n := range old {
		if n.absent {
			continue
		}
		honest++
		if !x.Require(n.name+" completes the fresh DKG", n.res.Error == nil && n.res.Result != nil, n.res.Error) {
			continue
		}
		r := n.res.Result
		if ref == nil {
			ref = r
		}
		x.Require(n.name+": same QUAL", qualString(r.QUAL) == qualString(ref.QUAL), qualString(r.QUAL))
		x.ValidP(n.name+": same distributed public key", r.Key.Public(), ref.Key.Public())
		pub := share.NewPubPoly(s, s.Point().Base(), r.Key.Commits)
		x.ValidP(n.name+": share lies on the public polynomial", s.Point().Mul(r.Key.Share.V, nil), pub.Eval(uint32(n.newIdx)).V)
		shares = append(shares, r.Key.Share)
	}
	if ref == nil {
		return
	}
	wantQ := 0
	for _, n := range old {
		if !n.absent {
			wantQ++
		}
	}
	x.Require("QUAL = the nodes that took part", len(ref.QUAL) == wantQ, qualString(ref.QUAL))
	if len(shares) >= c.t0 {
		sec, err := share.RecoverSecret(s, shares[:c.t0], uint32(c.t0), uint32(c.n0))
		if x.NoErr("RecoverSecret", err) {
			x.ValidP("t shares recover the secret of the public key", s.Point().Mul(sec, nil), ref.Key.Public())
		}
	}
	if c.reshare == "" {
		return
	}
	// ---- resharing
	oldPub := ref.Key.Public()
	var members []*pNode // the new group
	keep := c.n0
	if c.reshare == "shrink" || c.reshare == "shrink-absent" {
		keep = c.n0 - 2
	}
	if c.reshare == "replace" {
		keep = c.n0 - 1 // the last old member leaves; a newcomer (another key) takes over its index
	}
	for i := 0; i < keep; i++ {
		members = append(members, old[i])
	}
	var freshNodes []*pNode
	addFresh := func(absent bool) {
		k := s.Scalar().Pick(s.RandomStream())
		n := &pNode{name: fmt.Sprintf("new%d", len(freshNodes)), oldIdx: -1, priv: k, pub: s.Point().Mul(k, nil), absent: absent}
		freshNodes = append(freshNodes, n)
		members = append(members, n)
	}
	switch c.reshare {
	case "grow", "replace":
		addFresh(false)
	case "shrink-absent":
		addFresh(true) // a new share holder that never shows up: in fast-sync every dealer has to justify its share
	}
	var newNodes []dkg.Node
	for i, n := range members {
		n.newIdx = i
		newNodes = append(newNodes, dkg.Node{Index: uint32(i), Public: n.pub})
	}
	inNew := map[*pNode]bool{}
	for _, n := range members {
		inNew[n] = true
	}
	for _, n := range old {
		if !inNew[n] {
			n.newIdx = -1
		}
	}
	results := map[*pNode]*dkg.Result{}
	for _, n := range old {
		if n.res.Result != nil {
			results[n] = n.res.Result
		}
	}
	nonce2 := make([]byte, 32)
	copy(nonce2, "verif-c11-proto-reshare")
	mkRe := func(n *pNode) *dkg.Config {
		conf := &dkg.Config{Suite: s, Longterm: n.priv, OldNodes: oldNodes, NewNodes: newNodes, Threshold: uint32(c.t1), OldThreshold: uint32(c.t0), Nonce: nonce2, Auth: schnorr.NewScheme(s), FastSync: c.fast,
			Reader: blake2xb.New([]byte("c11-proto-re-" + n.name)), UserReaderOnly: true}
		if n.oldIdx >= 0 {
			conf.Share = results[n].Key
		} else {
			conf.PublicCoeffs = ref.Key.Commits
		}
		return conf
	}
	all := append(append([]*pNode{}, old...), freshNodes...)
	for _, n := range all {
		n.res = dkg.OptionResult{}
	}
	if !runProtocolsAuto(x, all, mkRe, c.fast, c.order) {
		return
	}
	var ref2 *dkg.Result
	var nshares []*share.PriShare
	present := 0
	for _, n := range members {
		if n.absent {
			continue
		}
		present++
		if !x.Require(n.name+" completes the resharing", n.res.Error == nil && n.res.Result != nil, n.res.Error) {
			continue
		}
		r := n.res.Result
		if ref2 == nil {
			ref2 = r
		}
		x.Require(n.name+": same QUAL after resharing", qualString(r.QUAL) == qualString(ref2.QUAL), qualString(r.QUAL))
		x.ValidP(n.name+": distributed public key unchanged by resharing", r.Key.Public(), oldPub)
		pub := share.NewPubPoly(s, s.Point().Base(), r.Key.Commits)
		x.ValidP(n.name+": new share lies on the new polynomial", s.Point().Mul(r.Key.Share.V, nil), pub.Eval(uint32(n.newIdx)).V)
		nshares = append(nshares, r.Key.Share)
	}
	if ref2 != nil {
		if c.fast {
			x.Require("QUAL after resharing = the new members that took part", len(ref2.QUAL) == present, qualString(ref2.QUAL))
		} else {
			// without fast-sync a silent share holder is indistinguishable from a satisfied one (only complaints are sent)
			x.Outcome("QUAL after resharing", qualString(ref2.QUAL))
		}
		if len(nshares) >= c.t1 {
			sec, err := share.RecoverSecret(s, nshares[:c.t1], uint32(c.t1), uint32(len(members)))
			if x.NoErr("RecoverSecret new", err) {
				x.ValidP("new shares recover the secret of the OLD public key", s.Point().Mul(sec, nil), oldPub)
			}
		}
	}
}

// runProtocolsAuto: like runProtocols, but the clock only ticks for a node that did not advance by itself (fast-sync
// moves on as soon as it has every bundle it can expect; a tick for a phase it already left makes the driver abort by design).
func runProtocolsAuto(x *hx.Ctx, nodes []*pNode, mk func(n *pNode) *dkg.Config, fast bool, order string) bool {
	if !fast {
		return runProtocols(x, nodes, mk, fast, order)
	}
	out := &pOut{}
	var running []*pNode
	dealers, holders := 0, 0
	for _, n := range nodes {
		if n.absent {
			continue
		}
		n.board = &pBoard{id: len(running), deals: make(chan dkg.DealBundle), resps: make(chan dkg.ResponseBundle), justs: make(chan dkg.JustificationBundle), out: out}
		n.ph = &pPhaser{ch: make(chan dkg.Phase)}
		n.done = make(chan struct{})
		n.k = len(running)
		conf := mk(n)
		p, err := dkg.NewProtocol(conf, n.board, n.ph, false)
		if !x.NoErr("NewProtocol "+n.name, err) {
			return false
		}
		n.proto = p
		go func(n *pNode) {
			n.got = <-p.WaitEnd()
			close(n.done)
		}(n)
		running = append(running, n)
		if len(conf.OldNodes) == 0 {
			dealers, holders = len(conf.NewNodes), len(conf.NewNodes)
		} else {
			dealers, holders = len(conf.OldNodes), len(conf.NewNodes)
		}
	}
	for _, n := range running {
		n.tick(dkg.DealPhase)
	}
	out.mu.Lock()
	deals := append([]*dkg.DealBundle{}, out.deals...)
	out.mu.Unlock()
	for _, n := range running {
		for _, d := range pOrder(deals, order, n.k) {
			if n.stalled {
				continue
			}
			select {
			case n.board.deals <- *d:
				n.barrier()
			case <-n.done:
			case <-time.After(stallAfter):
				n.stalled = true
			}
		}
		if len(deals) < dealers {
			n.tick(dkg.ResponsePhase) // some dealer is absent: the period expires
		}
	}
	out.mu.Lock()
	resps := append([]*dkg.ResponseBundle{}, out.resps...)
	out.mu.Unlock()
	for _, n := range running {
		for _, r := range pOrder(resps, order, n.k) {
			if n.stalled {
				continue
			}
			select {
			case n.board.resps <- *r:
				n.barrier()
			case <-n.done:
			case <-time.After(stallAfter):
				n.stalled = true
			}
		}
		if len(resps) < holders {
			n.tick(dkg.JustifPhase)
		}
	}
	out.mu.Lock()
	justs := append([]*dkg.JustificationBundle{}, out.justs...)
	out.mu.Unlock()
	x.Outcome("bundles", fmt.Sprintf("deals=%d resps=%d justs=%d", len(deals), len(resps), len(justs)))
	for _, n := range running {
		for _, j := range pOrder(justs, order, n.k) {
			if n.stalled {
				continue
			}
			select {
			case n.board.justs <- *j:
				n.barrier()
			case <-n.done:
			case <-time.After(stallAfter):
				n.stalled = true
			}
		}
		n.tick(dkg.FinishPhase) // the last period expires (ignored by a node that already finished)
	}
	for _, n := range running {
		n.finished()
	}
	return true
}
