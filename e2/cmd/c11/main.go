package main

import (
	"fmt"

	"verif/e2/hx"
)

func main() { hx.Main("C11", gen) }

func gen(tier string, seed int64) []hx.Scenario {
	var out []hx.Scenario
	maxN := 4
	if tier == "thorough" {
		maxN = 6
	}
	orders := []string{"id", "rev", "rot"}
	k := 0
	for n := 2; n <= maxN; n++ {
		for t := n/2 + 1; t <= n; t++ {
			for _, fast := range []bool{false, true} {
				for _, o := range orders {
					c := pedCfg{n: n, t: t, fast: fast, fault: "none", order: o}
					out = append(out, hx.Scenario{Name: "pedersen", Cfg: c.String(), Run: func(x *hx.Ctx) { pedRun(x, c) }})
				}
				if n-t < 1 {
					continue
				}
				for _, f := range pedFaults[1:] {
					for who := 0; who < n; who++ {
						if n > 3 && (who+k)%2 == 1 && tier != "thorough" {
							k++
							continue
						}
						k++
						c := pedCfg{n: n, t: t, fast: fast, fault: f, faulty: []int{who}, order: orders[k%3]}
						out = append(out, hx.Scenario{Name: "pedersen", Cfg: c.String(), Run: func(x *hx.Ctx) { pedRun(x, c) }})
					}
				}
				if n-t >= 2 {
					for _, f := range []string{"absent", "badshare-nojust", "false-complaint", "shortpoly"} {
						c := pedCfg{n: n, t: t, fast: fast, fault: f, faulty: []int{0, n - 1}, order: orders[k%3]}
						k++
						out = append(out, hx.Scenario{Name: "pedersen", Cfg: c.String(), Run: func(x *hx.Ctx) { pedRun(x, c) }})
					}
				}
			}
		}
	}
	// resharing
	shapes := []string{"same", "plus1", "minus1", "disjoint", "plus2"}
	type sh struct{ n0, t0 int }
	olds := []sh{{3, 2}, {4, 3}}
	if tier == "thorough" {
		olds = append(olds, sh{5, 3}, sh{4, 2})
	}
	for _, o := range olds {
		for _, shape := range shapes {
			n1 := map[string]int{"same": o.n0, "plus1": o.n0 + 1, "minus1": o.n0 - 1, "disjoint": o.n0, "plus2": o.n0 + 2}[shape]
			for t1 := n1/2 + 1; t1 <= n1; t1++ {
				for _, fast := range []bool{false, true} {
					c := reshCfg{n0: o.n0, t0: o.t0, shape: shape, t1: t1, fault: "none", fast: fast, order: orders[k%3]}
					k++
					out = append(out, hx.Scenario{Name: "pedersen-reshare", Cfg: c.String(), Run: func(x *hx.Ctx) { pedReshare(x, c) }})
					if n1-t1 >= 1 && t1 >= 2 {
						for who := 0; who < o.n0; who += 2 {
							c := reshCfg{n0: o.n0, t0: o.t0, shape: shape, t1: t1, fault: "false-complaints", who: who, fast: fast, order: orders[k%3]}
							k++
							out = append(out, hx.Scenario{Name: "pedersen-reshare", Cfg: c.String(), Run: func(x *hx.Ctx) { pedReshare(x, c) }})
						}
					}
					if o.n0-o.t0 < 1 {
						continue
					}
					for _, f := range []string{"absent", "badshare-nojust", "badshare-justified", "wrongsecret", "shortpoly"} {
						for who := 0; who < o.n0; who++ {
							if (who+k)%2 == 1 && tier != "thorough" {
								k++
								continue
							}
							k++
							c := reshCfg{n0: o.n0, t0: o.t0, shape: shape, t1: t1, fault: f, who: who, fast: fast, order: orders[k%3]}
							out = append(out, hx.Scenario{Name: "pedersen-reshare", Cfg: c.String(), Run: func(x *hx.Ctx) { pedReshare(x, c) }})
						}
					}
				}
			}
		}
	}
	// the goroutine-driven Protocol driver under a deterministic board
	for _, fast := range []bool{false, true} {
		for _, order := range []string{"id", "rev", "rot", "mixed"} {
			for _, pc := range []protoCfg{
				{n0: 3, t0: 2, absent: -1}, {n0: 3, t0: 2, absent: 2}, {n0: 4, t0: 3, absent: -1}, {n0: 4, t0: 3, absent: 0},
				{n0: 3, t0: 2, absent: -1, reshare: "same", t1: 2}, {n0: 3, t0: 2, absent: -1, reshare: "grow", t1: 3},
				{n0: 4, t0: 3, absent: -1, reshare: "shrink", t1: 2}, {n0: 3, t0: 2, absent: -1, reshare: "replace", t1: 2}, {n0: 4, t0: 3, absent: -1, reshare: "replace", t1: 3}, {n0: 4, t0: 3, absent: -1, reshare: "shrink-absent", t1: 2},
			} {
				if tier != "thorough" && (order == "rev" || (order == "mixed" && pc.reshare == "" )) {
					continue
				}
				c := pc
				c.fast, c.order = fast, order
				out = append(out, hx.Scenario{Name: "pedersen-protocol", Cfg: c.String(), Run: func(x *hx.Ctx) { protoCase(x, c) }})
			}
		}
	}
	out = append(out, rabScenarios(tier)...)
	_ = fmt.Sprint
	return out
}
