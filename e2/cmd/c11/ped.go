// C11 — Pedersen DKG (fresh, fast-sync, resharing) over symbolic values: the real
// share/dkg/pedersen state machines, real ECIES on token bytes, bundles delivered as slices.
package main

import (
	"crypto/sha256"
	"fmt"
	"sort"

	"go.dedis.ch/kyber/v4"
	"go.dedis.ch/kyber/v4/encrypt/ecies"
	"go.dedis.ch/kyber/v4/share"
	dkg "go.dedis.ch/kyber/v4/share/dkg/pedersen"
	"go.dedis.ch/kyber/v4/sign/schnorr"
	"go.dedis.ch/kyber/v4/xof/blake2xb"

	"verif/e2/hx"
)

type pedCfg struct {
	n, t   int
	fast   bool
	fault  string // behaviour of the faulty node(s)
	faulty []int
	order  string // id | rev | rot : order of the bundle slices (per receiver rotated further)
}

func (c pedCfg) String() string {
	return fmt.Sprintf("n=%d t=%d fast=%v fault=%s faulty=%v order=%s", c.n, c.t, c.fast, c.fault, c.faulty, c.order)
}

var pedFaults = []string{"none", "absent", "absent-after-deal", "badshare-justified", "badshare-nojust", "badshare-badjust", "badshare-all-nojust", "garbled-share-justified",
	"shortpoly", "longpoly", "wrongsid-deal", "dup-deal", "conflict-deal", "bigshareindex", "misdirected",
	"false-complaint", "false-complaint-all", "wrongsid-resp", "dup-resp", "badshare-dupjust", "badshare-wrongsidjust", "badshare-just-bigindex",
	"false-complaint+badidx", "false-complaint+success"}

// expectation for the faulty dealer: is it in QUAL of the honest nodes?
func faultyInQual(f string) (inQual bool, defined bool) {
	switch f {
	case "none", "badshare-justified", "garbled-share-justified", "false-complaint", "false-complaint-all":
		return true, true
	case "absent", "badshare-nojust", "badshare-badjust", "badshare-all-nojust", "shortpoly", "longpoly", "wrongsid-deal", "dup-deal", "conflict-deal", "bigshareindex", "badshare-dupjust", "badshare-wrongsidjust", "badshare-just-bigindex":
		return false, true
		// "wrongsid-resp", "dup-resp", "absent-after-deal", "misdirected": the property does not say; agreement is still required
	}
	return false, false
}

type pedNet struct {
	x      *hx.Ctx
	s      dkg.Suite
	c      pedCfg
	privs  []kyber.Scalar
	nodes  []dkg.Node
	gens   []*dkg.DistKeyGenerator
	nonce  []byte
	isBad  map[int]bool
}

func reorder[T any](in []T, order string, k int) []T {
	out := append([]T{}, in...)
	switch order {
	case "rev":
		for i, j := 0, len(out)-1; i < j; i, j = i+1, j-1 {
			out[i], out[j] = out[j], out[i]
		}
	case "rot":
		if len(out) > 0 {
			r := k % len(out)
			out = append(out[r:], out[:r]...)
		}
	}
	return out
}

func newPedNet(x *hx.Ctx, c pedCfg) *pedNet {
	s := x.S.(dkg.Suite)
	p := &pedNet{x: x, s: s, c: c, nonce: make([]byte, 32), isBad: map[int]bool{}}
	copy(p.nonce, "verif-c11-nonce")
	for _, f := range c.faulty {
		p.isBad[f] = true
	}
	for i := 0; i < c.n; i++ {
		k := s.Scalar().Pick(s.RandomStream())
		p.privs = append(p.privs, k)
		p.nodes = append(p.nodes, dkg.Node{Index: uint32(i), Public: s.Point().Mul(k, nil)})
	}
	for i := 0; i < c.n; i++ {
		conf := &dkg.Config{Suite: s, Longterm: p.privs[i], NewNodes: p.nodes, Threshold: uint32(c.t), Nonce: p.nonce, Auth: schnorr.NewScheme(s), FastSync: c.fast,
			Reader: blake2xb.New([]byte(fmt.Sprintf("c11-secret-%d", i))), UserReaderOnly: true}
		g, err := dkg.NewDistKeyHandler(conf)
		if !x.NoErr("NewDistKeyHandler", err) {
			return nil
		}
		p.gens = append(p.gens, g)
	}
	return p
}

func (p *pedNet) sign(i int, pk dkg.Packet) []byte {
	h, _ := pk.Hash()
	sg, err := schnorr.NewScheme(p.s).Sign(p.privs[i], h)
	if err != nil {
		panic(err)
	}
	return sg
}

func (p *pedNet) encShare(to int, v kyber.Scalar) []byte {
	msg, _ := v.MarshalBinary()
	ct, err := ecies.Encrypt(p.s, p.nodes[to].Public, msg, sha256.New)
	if err != nil {
		panic(err)
	}
	return ct
}

// victim of a single bad share: the first honest node after f
func (p *pedNet) victim(f int) int {
	for k := 1; k < p.c.n; k++ {
		v := (f + k) % p.c.n
		if !p.isBad[v] {
			return v
		}
	}
	return (f + 1) % p.c.n
}

func pedRun(x *hx.Ctx, c pedCfg) {
	p := newPedNet(x, c)
	if p == nil {
		return
	}
	s, n, t := p.s, c.n, c.t
	// ---------------- deals
	var deals []*dkg.DealBundle
	own := map[int]*dkg.DealBundle{}
	for i, g := range p.gens {
		d, err := g.Deals()
		if !x.NoErr(fmt.Sprintf("Deals%d", i), err) {
			return
		}
		own[i] = d
		if p.isBad[i] {
			switch c.fault {
			case "absent":
				continue
			case "badshare-justified", "badshare-nojust", "badshare-badjust", "badshare-dupjust", "badshare-wrongsidjust", "badshare-just-bigindex":
				v := p.victim(i)
				for k := range d.Deals {
					if int(d.Deals[k].ShareIndex) == v {
						d.Deals[k].EncryptedShare = p.encShare(v, s.Scalar().Pick(s.RandomStream()))
					}
				}
			case "garbled-share-justified":
				v := p.victim(i)
				for k := range d.Deals {
					if int(d.Deals[k].ShareIndex) == v {
						d.Deals[k].EncryptedShare[len(d.Deals[k].EncryptedShare)-1] ^= 1
					}
				}
			case "badshare-all-nojust":
				for k := range d.Deals {
					d.Deals[k].EncryptedShare = p.encShare(int(d.Deals[k].ShareIndex), s.Scalar().Pick(s.RandomStream()))
				}
			case "shortpoly":
				d.Public = d.Public[:len(d.Public)-1]
			case "longpoly":
				d.Public = append(append([]kyber.Point{}, d.Public...), s.Point().Pick(s.RandomStream()))
			case "wrongsid-deal":
				d.SessionID = append([]byte("x"), d.SessionID[1:]...)
			case "bigshareindex":
				d.Deals[0].ShareIndex = uint32(n + 3)
			case "misdirected":
				if len(d.Deals) >= 2 {
					d.Deals[0].EncryptedShare, d.Deals[1].EncryptedShare = d.Deals[1].EncryptedShare, d.Deals[0].EncryptedShare
				}
			}
			d.Signature = p.sign(i, d)
		}
		deals = append(deals, d)
		if p.isBad[i] {
			switch c.fault {
			case "dup-deal":
				deals = append(deals, d)
			case "conflict-deal":
				d2 := *d
				d2.Public = append([]kyber.Point{}, d.Public...)
				d2.Public[len(d2.Public)-1] = s.Point().Add(d2.Public[len(d2.Public)-1], s.Point().Base())
				d2.Signature = p.sign(i, &d2)
				deals = append(deals, &d2)
			}
		}
	}
	// ---------------- responses
	var resps []*dkg.ResponseBundle
	for i, g := range p.gens {
		r, err := g.ProcessDeals(reorder(deals, c.order, i))
		if !x.NoErr(fmt.Sprintf("ProcessDeals%d", i), err) {
			return
		}
		if p.isBad[i] {
			switch c.fault {
			case "absent", "absent-after-deal":
				continue
			case "false-complaint", "false-complaint-all":
				var rs []dkg.Response
				for d := 0; d < n; d++ {
					if d == i {
						continue
					}
					if c.fault == "false-complaint-all" || d == p.victim(i) {
						rs = append(rs, dkg.Response{DealerIndex: uint32(d), Status: dkg.Complaint})
					} else if c.fast {
						rs = append(rs, dkg.Response{DealerIndex: uint32(d), Status: dkg.Success})
					}
				}
				if c.fast {
					rs = append(rs, dkg.Response{DealerIndex: uint32(i), Status: dkg.Success})
				}
				r = &dkg.ResponseBundle{ShareIndex: uint32(i), Responses: rs, SessionID: p.nonce}
				r.Signature = p.sign(i, r)
			case "false-complaint+badidx", "false-complaint+success":
				// one bundle that carries a false complaint against an honest dealer AND a response that is itself a
				// protocol violation (unknown dealer index / an explicit Success outside fast-sync)
				second := dkg.Response{DealerIndex: uint32(n + 5), Status: dkg.Complaint}
				if c.fault == "false-complaint+success" {
					second = dkg.Response{DealerIndex: uint32((p.victim(i) + 1) % n), Status: dkg.Success}
				}
				rs := []dkg.Response{{DealerIndex: uint32(p.victim(i)), Status: dkg.Complaint}, second}
				if c.fast {
					for d := 0; d < n; d++ {
						if d != p.victim(i) && d != int(second.DealerIndex) {
							rs = append(rs, dkg.Response{DealerIndex: uint32(d), Status: dkg.Success})
						}
					}
				}
				r = &dkg.ResponseBundle{ShareIndex: uint32(i), Responses: rs, SessionID: p.nonce}
				r.Signature = p.sign(i, r)
			case "wrongsid-resp":
				if r == nil {
					r = &dkg.ResponseBundle{ShareIndex: uint32(i), Responses: []dkg.Response{{DealerIndex: uint32(p.victim(i)), Status: dkg.Complaint}}}
				}
				r.SessionID = []byte("another session id, 32 bytes long")[:32]
				r.Signature = p.sign(i, r)
			case "dup-resp":
				if r != nil {
					resps = append(resps, r)
				}
			}
		}
		if r != nil {
			resps = append(resps, r)
		}
	}
	// ---------------- justifications / early results
	results := map[int]*dkg.Result{}
	errs := map[int]error{}
	var justs []*dkg.JustificationBundle
	for i, g := range p.gens {
		res, j, err := g.ProcessResponses(reorder(resps, c.order, i+1))
		if err != nil {
			errs[i] = err
			continue
		}
		if res != nil {
			results[i] = res
		}
		if j != nil {
			if p.isBad[i] {
				switch c.fault {
				case "badshare-nojust", "badshare-all-nojust", "absent", "absent-after-deal":
					continue
				case "badshare-badjust":
					for k := range j.Justifications {
						j.Justifications[k].Share = s.Scalar().Add(j.Justifications[k].Share, s.Scalar().Pick(s.RandomStream()))
					}
					j.Signature = p.sign(i, j)
				case "badshare-dupjust":
					justs = append(justs, j)
				case "badshare-wrongsidjust":
					j.SessionID = []byte("another session id, 32 bytes long")[:32]
					j.Signature = p.sign(i, j)
				case "badshare-just-bigindex":
					j.Justifications = append(j.Justifications, dkg.Justification{ShareIndex: uint32(n + 2), Share: s.Scalar().Pick(s.RandomStream())})
					j.Signature = p.sign(i, j)
				}
			}
			justs = append(justs, j)
		}
	}
	for i, g := range p.gens {
		if _, done := results[i]; done {
			continue
		}
		if _, bad := errs[i]; bad {
			continue
		}
		res, err := g.ProcessJustifications(reorder(justs, c.order, i+2))
		if err != nil {
			errs[i] = err
			continue
		}
		if res != nil {
			results[i] = res
		}
	}
	pedEvaluate(x, p, c, deals, own, results, errs)
	_ = t
}

func qualString(q []dkg.Node) string {
	var ix []int
	for _, n := range q {
		ix = append(ix, int(n.Index))
	}
	sort.Ints(ix)
	return fmt.Sprint(ix)
}

func pedEvaluate(x *hx.Ctx, p *pedNet, c pedCfg, deals []*dkg.DealBundle, own map[int]*dkg.DealBundle, results map[int]*dkg.Result, errs map[int]error) {
	s, n, t := p.s, c.n, c.t
	var ref *dkg.Result
	refIdx := -1
	var honest []int
	for i := 0; i < n; i++ {
		if p.isBad[i] {
			continue
		}
		honest = append(honest, i)
		r, ok := results[i]
		x.Outcome(fmt.Sprintf("honest node %d completes", i), ok)
		if !ok {
			x.Outcome(fmt.Sprintf("honest node %d error", i), errs[i] != nil)
			continue
		}
		if ref == nil {
			ref, refIdx = r, i
		}
	}
	if c.fault == "none" {
		for _, i := range honest {
			x.Require(fmt.Sprintf("all honest: node %d completes", i), results[i] != nil, errs[i])
		}
	}
	// with at most n-t faulty participants every honest node completes
	if len(c.faulty) <= n-t {
		for _, i := range honest {
			x.Require(fmt.Sprintf("node %d completes despite %d faulty", i, len(c.faulty)), results[i] != nil, errs[i])
		}
	}
	if ref == nil {
		return
	}
	x.Outcome("QUAL", qualString(ref.QUAL))
	inQ := map[int]bool{}
	for _, nd := range ref.QUAL {
		inQ[int(nd.Index)] = true
	}
	// agreement among honest nodes that completed
	var shares []*share.PriShare
	for _, i := range honest {
		r := results[i]
		if r == nil {
			continue
		}
		x.Require(fmt.Sprintf("node %d: same QUAL as node %d", i, refIdx), qualString(r.QUAL) == qualString(ref.QUAL), qualString(r.QUAL))
		if x.Require(fmt.Sprintf("node %d: same number of commitments", i), len(r.Key.Commits) == len(ref.Key.Commits)) {
			for k := range r.Key.Commits {
				x.ValidP(fmt.Sprintf("node %d: commitment %d equals node %d's", i, k, refIdx), r.Key.Commits[k], ref.Key.Commits[k])
			}
		}
		x.Require(fmt.Sprintf("node %d: PublicEqual", i), r.PublicEqual(ref) || i == refIdx)
		x.Require(fmt.Sprintf("node %d: share index", i), int(r.Key.Share.I) == i)
		pub := share.NewPubPoly(s, s.Point().Base(), r.Key.Commits)
		x.ValidP(fmt.Sprintf("node %d: share lies on the public polynomial", i), s.Point().Mul(r.Key.Share.V, nil), pub.Eval(uint32(i)).V)
		shares = append(shares, r.Key.Share)
	}
	x.Require("threshold many commitments", len(ref.Key.Commits) == t, len(ref.Key.Commits))
	// key = sum of the qualified dealers' contributions (all coefficients)
	for k := 0; k < t && k < len(ref.Key.Commits); k++ {
		sum := s.Point().Null()
		for d := 0; d < n; d++ {
			if inQ[d] && own[d] != nil && k < len(own[d].Public) {
				sum = s.Point().Add(sum, own[d].Public[k])
			}
		}
		x.ValidP(fmt.Sprintf("commitment %d == sum over QUAL of the dealers' commitments", k), ref.Key.Commits[k], sum)
	}
	// any t honest shares reconstruct a secret matching the public key
	if len(shares) >= t {
		for _, sub := range hx.Subsets(len(shares), t, t) {
			var ss []*share.PriShare
			for _, k := range sub {
				ss = append(ss, shares[k])
			}
			sec, err := share.RecoverSecret(s, ss, uint32(t), uint32(n))
			if x.NoErr(fmt.Sprintf("RecoverSecret %v", sub), err) {
				x.ValidP(fmt.Sprintf("recovered secret %v matches the public key", sub), s.Point().Mul(sec, nil), ref.Key.Public())
			}
		}
	}
	// qualified set: honest dealers stay, misbehaving dealers go
	for _, i := range honest {
		x.Require(fmt.Sprintf("honest dealer %d is qualified", i), inQ[i])
	}
	for _, f := range c.faulty {
		if want, ok := faultyInQual(c.fault); ok {
			x.Require(fmt.Sprintf("faulty dealer %d (%s) qualified == %v", f, c.fault, want), inQ[f] == want)
		} else {
			x.Outcome(fmt.Sprintf("faulty dealer %d qualified", f), inQ[f])
		}
	}
}

// ---------------------------------------------------------------- resharing
type reshCfg struct {
	n0, t0 int
	shape  string // same | plus1 | minus1 | disjoint
	t1     int
	fault  string // none | absent | badshare-nojust | badshare-justified | wrongsecret | shortpoly
	who    int    // faulty old dealer
	fast   bool
	order  string
}

func (c reshCfg) String() string {
	return fmt.Sprintf("old n=%d t=%d shape=%s new t=%d fault=%s who=%d fast=%v order=%s", c.n0, c.t0, c.shape, c.t1, c.fault, c.who, c.fast, c.order)
}

func pedReshare(x *hx.Ctx, c reshCfg) {
	// phase A: an honest fresh DKG among the old group
	p := newPedNet(x, pedCfg{n: c.n0, t: c.t0})
	if p == nil {
		return
	}
	s := p.s
	var deals []*dkg.DealBundle
	for _, g := range p.gens {
		d, err := g.Deals()
		if !x.NoErr("old Deals", err) {
			return
		}
		deals = append(deals, d)
	}
	var resps []*dkg.ResponseBundle
	for _, g := range p.gens {
		r, err := g.ProcessDeals(deals)
		x.NoErr("old ProcessDeals", err)
		if r != nil {
			resps = append(resps, r)
		}
	}
	old := make([]*dkg.Result, c.n0)
	for i, g := range p.gens {
		res, _, err := g.ProcessResponses(resps)
		if !x.NoErr("old ProcessResponses", err) || res == nil {
			return
		}
		old[i] = res
	}
	oldPub := old[0].Key.Public()
	// phase B: the new group
	type member struct {
		priv     kyber.Scalar
		pub      kyber.Point
		oldIdx   int // -1 if not in the old group
		newIdx   int // -1 if not in the new group
	}
	var ms []*member
	for i := 0; i < c.n0; i++ {
		ms = append(ms, &member{priv: p.privs[i], pub: p.nodes[i].Public, oldIdx: i, newIdx: -1})
	}
	fresh := func() *member {
		k := s.Scalar().Pick(s.RandomStream())
		m := &member{priv: k, pub: s.Point().Mul(k, nil), oldIdx: -1, newIdx: -1}
		ms = append(ms, m)
		return m
	}
	var newMembers []*member
	switch c.shape {
	case "same":
		newMembers = append(newMembers, ms[:c.n0]...)
	case "plus1":
		newMembers = append(newMembers, ms[:c.n0]...)
		newMembers = append(newMembers, fresh())
	case "plus2":
		newMembers = append(newMembers, ms[:c.n0]...)
		newMembers = append(newMembers, fresh(), fresh())
	case "minus1":
		newMembers = append(newMembers, ms[:c.n0-1]...)
	case "disjoint":
		for i := 0; i < c.n0; i++ {
			newMembers = append(newMembers, fresh())
		}
	}
	var newNodes []dkg.Node
	for i, m := range newMembers {
		m.newIdx = i
		newNodes = append(newNodes, dkg.Node{Index: uint32(i), Public: m.pub})
	}
	n1 := len(newNodes)
	nonce := make([]byte, 32)
	copy(nonce, "verif-c11-reshare")
	gens := map[*member]*dkg.DistKeyGenerator{}
	for _, m := range ms {
		conf := &dkg.Config{Suite: s, Longterm: m.priv, OldNodes: p.nodes, NewNodes: newNodes, Threshold: uint32(c.t1), OldThreshold: uint32(c.t0), Nonce: nonce, Auth: schnorr.NewScheme(s), FastSync: c.fast}
		if m.oldIdx >= 0 {
			conf.Share = old[m.oldIdx].Key
		} else {
			conf.PublicCoeffs = old[0].Key.Commits
		}
		g, err := dkg.NewDistKeyHandler(conf)
		if !x.NoErr("reshare NewDistKeyHandler", err) {
			return
		}
		gens[m] = g
	}
	signAs := func(m *member, pk dkg.Packet) []byte {
		h, _ := pk.Hash()
		sg, _ := schnorr.NewScheme(s).Sign(m.priv, h)
		return sg
	}
	enc := func(to *member, v kyber.Scalar) []byte {
		msg, _ := v.MarshalBinary()
		ct, err := ecies.Encrypt(s, to.pub, msg, sha256.New)
		if err != nil {
			panic(err)
		}
		return ct
	}
	bad := ms[c.who]
	// "false-complaints": the dealer c.who is honest; the last kc members of the new group (as many as the new threshold
	// tolerates, fewer than t1) falsely complain about its deal
	complainer := map[*member]bool{}
	if c.fault == "false-complaints" {
		kc := n1 - c.t1
		if kc > c.t1-1 {
			kc = c.t1 - 1
		}
		for j := n1 - 1; j >= 0 && len(complainer) < kc; j-- {
			if newMembers[j] != bad {
				complainer[newMembers[j]] = true
			}
		}
		x.Outcome("false complainers", len(complainer))
	}
	victim := newMembers[(c.who+1)%n1]
	if victim == bad {
		victim = newMembers[(c.who+2)%n1]
	}
	var rdeals []*dkg.DealBundle
	ownPub := map[int][]kyber.Point{}
	for i := 0; i < c.n0; i++ {
		m := ms[i]
		d, err := gens[m].Deals()
		if !x.NoErr("reshare Deals", err) {
			return
		}
		if m == bad {
			switch c.fault {
			case "absent":
				continue
			case "badshare-nojust", "badshare-justified":
				for k := range d.Deals {
					if int(d.Deals[k].ShareIndex) == victim.newIdx {
						d.Deals[k].EncryptedShare = enc(victim, s.Scalar().Pick(s.RandomStream()))
					}
				}
			case "wrongsecret":
				// a consistent sharing of something that is NOT the dealer's old share
				poly := share.NewPriPoly(s, uint32(c.t1), nil, s.RandomStream())
				_, d.Public = poly.Commit(nil).Info()
				for k := range d.Deals {
					d.Deals[k].EncryptedShare = enc(newMembers[d.Deals[k].ShareIndex], poly.Eval(d.Deals[k].ShareIndex).V)
				}
			case "shortpoly":
				d.Public = d.Public[:len(d.Public)-1]
			}
			d.Signature = signAs(m, d)
		}
		ownPub[i] = d.Public
		rdeals = append(rdeals, d)
	}
	var rresps []*dkg.ResponseBundle
	k := 0
	for _, m := range ms {
		r, err := gens[m].ProcessDeals(reorder(rdeals, c.order, k))
		k++
		if !x.NoErr("reshare ProcessDeals", err) {
			return
		}
		if m == bad && c.fault == "absent" {
			continue
		}
		if complainer[m] {
			rs := []dkg.Response{{DealerIndex: uint32(c.who), Status: dkg.Complaint}}
			if c.fast {
				for d := 0; d < c.n0; d++ {
					if d != c.who {
						rs = append(rs, dkg.Response{DealerIndex: uint32(d), Status: dkg.Success})
					}
				}
			}
			r = &dkg.ResponseBundle{ShareIndex: uint32(m.newIdx), Responses: rs, SessionID: nonce}
			r.Signature = signAs(m, r)
		}
		if r != nil {
			rresps = append(rresps, r)
		}
	}
	results := map[*member]*dkg.Result{}
	errs := map[*member]error{}
	var justs []*dkg.JustificationBundle
	for _, m := range ms {
		res, j, err := gens[m].ProcessResponses(reorder(rresps, c.order, k))
		k++
		if err != nil {
			errs[m] = err
			continue
		}
		if res != nil {
			results[m] = res
		}
		if j != nil {
			if m == bad && (c.fault == "badshare-nojust" || c.fault == "absent") {
				continue
			}
			justs = append(justs, j)
		}
	}
	for _, m := range ms {
		if results[m] != nil || errs[m] != nil || m.newIdx < 0 {
			continue
		}
		res, err := gens[m].ProcessJustifications(reorder(justs, c.order, k))
		k++
		if err != nil {
			errs[m] = err
			continue
		}
		if res != nil {
			results[m] = res
		}
	}
	// evaluation at the honest members of the new group
	var ref *dkg.Result
	var shares []*share.PriShare
	for _, m := range newMembers {
		if m == bad && c.fault != "none" && c.fault != "false-complaints" {
			continue
		}
		if complainer[m] {
			continue
		}
		r := results[m]
		// completion is required when enough compliant members remain on both sides
		badInNew, badCount := 0, 0
		if c.fault == "false-complaints" {
			badInNew = len(complainer)
			for cm := range complainer {
				if cm.oldIdx >= 0 {
					badCount++
				}
			}
		} else if c.fault != "none" {
			badCount = 1
			if bad.newIdx >= 0 && c.fault != "badshare-justified" {
				badInNew = 1
			}
		}
		if c.n0-badCount >= c.t0 && n1-badInNew >= c.t1 {
			x.Require(fmt.Sprintf("new member %d completes", m.newIdx), r != nil, errs[m])
		} else {
			x.Outcome(fmt.Sprintf("new member %d completes", m.newIdx), r != nil)
		}
		if r == nil {
			continue
		}
		if c.fault == "false-complaints" && len(complainer) < c.t1 && bad.newIdx >= 0 {
			in := false
			for _, q := range r.QUAL {
				if int(q.Index) == bad.newIdx {
					in = true
				}
			}
			x.Require(fmt.Sprintf("new member %d: honest dealer %d with %d < t1 false complaints stays in QUAL", m.newIdx, c.who, len(complainer)), in, qualString(r.QUAL))
		}
		if ref == nil {
			ref = r
		}
		x.Require(fmt.Sprintf("new member %d: same QUAL", m.newIdx), qualString(r.QUAL) == qualString(ref.QUAL), qualString(r.QUAL))
		if x.Require(fmt.Sprintf("new member %d: t1 commitments", m.newIdx), len(r.Key.Commits) == c.t1 && len(ref.Key.Commits) == c.t1) {
			for j := range r.Key.Commits {
				x.ValidP(fmt.Sprintf("new member %d: commitment %d agrees", m.newIdx, j), r.Key.Commits[j], ref.Key.Commits[j])
			}
		}
		x.ValidP(fmt.Sprintf("new member %d: distributed public key unchanged by resharing", m.newIdx), r.Key.Public(), oldPub)
		pub := share.NewPubPoly(s, s.Point().Base(), r.Key.Commits)
		x.Require(fmt.Sprintf("new member %d: share index", m.newIdx), int(r.Key.Share.I) == m.newIdx)
		x.ValidP(fmt.Sprintf("new member %d: share lies on the new polynomial", m.newIdx), s.Point().Mul(r.Key.Share.V, nil), pub.Eval(uint32(m.newIdx)).V)
		shares = append(shares, r.Key.Share)
	}
	if ref == nil {
		return
	}
	x.Outcome("QUAL", qualString(ref.QUAL))
	if len(shares) >= c.t1 {
		for _, sub := range hx.Subsets(len(shares), c.t1, c.t1) {
			var ss []*share.PriShare
			for _, j := range sub {
				ss = append(ss, shares[j])
			}
			sec, err := share.RecoverSecret(s, ss, uint32(c.t1), uint32(n1))
			if x.NoErr(fmt.Sprintf("RecoverSecret %v", sub), err) {
				x.ValidP(fmt.Sprintf("secret recovered from new shares %v matches the OLD public key", sub), s.Point().Mul(sec, nil), oldPub)
			}
		}
	}
	// old shares and new shares are sharings of the same secret
	var os []*share.PriShare
	for i := 0; i < c.t0; i++ {
		os = append(os, old[i].Key.Share)
	}
	osec, err := share.RecoverSecret(s, os, uint32(c.t0), uint32(c.n0))
	if x.NoErr("RecoverSecret old", err) && len(shares) >= c.t1 {
		nsec, err := share.RecoverSecret(s, shares[:c.t1], uint32(c.t1), uint32(n1))
		if x.NoErr("RecoverSecret new", err) {
			x.ValidS("old and new shares encode the same secret", osec, nsec)
		}
	}
}
