package main

import (
	"fmt"
	"sort"

	"go.dedis.ch/kyber/v4"
	"go.dedis.ch/kyber/v4/share"
	rdkg "go.dedis.ch/kyber/v4/share/dkg/rabin"

	"verif/e2/hx"
)

// C11 — Rabin DKG (share/dkg/rabin): the real DistKeyGenerator of every participant runs over symbolic keys, deals
// (real encryption of the VSS deals), responses, secret commitments. Faults: a participant that never deals, a deal that
// arrives garbled at one receiver, a deal delivered twice; deals, responses and commitments delivered in several orders.
type rabCfg struct {
	n, t  int
	fault string // none | absent:k | garbled:k>j
	order string
}

func (c rabCfg) String() string { return fmt.Sprintf("n=%d t=%d fault=%s order=%s", c.n, c.t, c.fault, c.order) }

func rabScenarios(tier string) []hx.Scenario {
	var out []hx.Scenario
	maxN := 4
	if tier == "thorough" {
		maxN = 5
	}
	for n := 3; n <= maxN; n++ {
		for t := n/2 + 1; t <= n; t++ {
			for _, o := range []string{"id", "rev", "rot"} {
				fs := []string{"none"}
				if n-t >= 1 {
					fs = append(fs, "absent:0", fmt.Sprintf("absent:%d", n-1), fmt.Sprintf("garbled:0>%d", n-1), "garbled:1>0")
				}
				for _, f := range fs {
					c := rabCfg{n, t, f, o}
					out = append(out, hx.Scenario{Name: "rabin-dkg", Cfg: c.String(), Run: func(x *hx.Ctx) { rabDKG(x, c) }})
				}
			}
		}
	}
	return out
}

func rabQual(q []uint32) string {
	ix := make([]int, 0, len(q))
	for _, v := range q {
		ix = append(ix, int(v))
	}
	sort.Ints(ix)
	return fmt.Sprint(ix)
}

func rabDKG(x *hx.Ctx, c rabCfg) {
	s := x.S.(rdkg.Suite)
	n, t := c.n, c.t
	var xs []kyber.Scalar
	var Xs []kyber.Point
	for i := 0; i < n; i++ {
		k := s.Scalar().Pick(s.RandomStream())
		xs, Xs = append(xs, k), append(Xs, s.Point().Mul(k, nil))
	}
	gens := make([]*rdkg.DistKeyGenerator, n)
	for i := range gens {
		g, err := rdkg.NewDistKeyGenerator(s, xs[i], Xs, uint32(t))
		if !x.NoErr("NewDistKeyGenerator", err) {
			return
		}
		gens[i] = g
	}
	absent, gk, gj := -1, -1, -1
	fmt.Sscanf(c.fault, "absent:%d", &absent)
	fmt.Sscanf(c.fault, "garbled:%d>%d", &gk, &gj)
	ord := pOrder(hx.Seq(n), c.order, 1)
	// deals
	var resps []*rdkg.Response
	for _, i := range ord {
		if i == absent {
			continue
		}
		deals, err := gens[i].Deals()
		if !x.NoErr(fmt.Sprintf("Deals of %d", i), err) {
			return
		}
		x.Require(fmt.Sprintf("dealer %d deals to everybody else", i), len(deals) == n-1, len(deals))
		for _, j := range ord {
			d, ok := deals[j]
			if !ok {
				continue
			}
			if i == gk && j == gj {
				cp := *d.Deal
				cp.Cipher = append([]byte{}, d.Deal.Cipher...)
				cp.Cipher[len(cp.Cipher)/2] ^= 0x40
				bad := &rdkg.Deal{Index: d.Index, Deal: &cp}
				_, err := gens[j].ProcessDeal(bad)
				x.Err(fmt.Sprintf("garbled deal of %d refused by %d", i, j), err)
				continue
			}
			r, err := gens[j].ProcessDeal(d)
			if x.NoErr(fmt.Sprintf("deal of %d processed by %d", i, j), err) {
				x.Require(fmt.Sprintf("%d approves the deal of %d", j, i), r.Response.Approved)
				resps = append(resps, r)
			}
			_, err = gens[j].ProcessDeal(d)
			x.Err(fmt.Sprintf("deal of %d delivered twice to %d", i, j), err)
		}
	}
	// responses to everybody but their author
	for _, r := range pOrder(resps, c.order, 2) {
		for _, i := range ord {
			if r.Response.Index == uint32(i) {
				continue
			}
			j, err := gens[i].ProcessResponse(r)
			if r.Index == uint32(gk) && i == gj || int(r.Index) == absent {
				continue // the receiver never got that dealer's deal: whatever it answers is recorded by the final agreement
			}
			x.NoErr(fmt.Sprintf("response of %d about dealer %d processed by %d", r.Response.Index, r.Index, i), err)
			x.Require("no justification for an approval", j == nil)
		}
	}
	// timeout, certification, secret commitments
	var scs []*rdkg.SecretCommits
	for _, i := range ord {
		gens[i].SetTimeout()
		cert := gens[i].Certified()
		x.Outcome(fmt.Sprintf("node %d certified", i), cert)
		if c.fault == "none" {
			x.Require(fmt.Sprintf("node %d: an all-honest run is certified", i), cert)
		}
		if !cert || i == absent {
			continue
		}
		sc, err := gens[i].SecretCommits()
		x.Outcome(fmt.Sprintf("node %d publishes secret commitments", i), err == nil)
		if err == nil {
			scs = append(scs, sc)
		}
	}
	for _, sc := range pOrder(scs, c.order, 3) {
		for _, i := range ord {
			if sc.Index == uint32(i) {
				continue
			}
			cc, err := gens[i].ProcessSecretCommits(sc)
			if gens[i].Certified() {
				x.Outcome(fmt.Sprintf("commitments of %d accepted by %d", sc.Index, i), err == nil && cc == nil)
			}
		}
	}
	// agreement among everybody who completes
	var ref *rdkg.DistKeyShare
	var refQ string
	var shares []*share.PriShare
	done := 0
	for i := 0; i < n; i++ {
		k, err := gens[i].DistKeyShare()
		x.Outcome(fmt.Sprintf("node %d completes", i), err == nil)
		if c.fault == "none" {
			x.NoErr(fmt.Sprintf("node %d completes an all-honest run", i), err)
		}
		if err != nil {
			continue
		}
		done++
		q := rabQual(gens[i].QUAL()) // QUAL() iterates over a map: compare as a set
		if ref == nil {
			ref, refQ = k, q
		}
		x.Require(fmt.Sprintf("node %d: same QUAL as the first completing node", i), q == refQ, q, refQ)
		x.ValidP(fmt.Sprintf("node %d: same public key", i), k.Public(), ref.Public())
		if x.Require(fmt.Sprintf("node %d: same number of commitments", i), len(k.Commits) == len(ref.Commits) && len(k.Commits) == t) {
			for j := range k.Commits {
				x.ValidP(fmt.Sprintf("node %d: same commitment %d", i, j), k.Commits[j], ref.Commits[j])
			}
		}
		pub := share.NewPubPoly(s, s.Point().Base(), k.Commits)
		x.ValidP(fmt.Sprintf("node %d: share lies on the public polynomial", i), s.Point().Mul(k.Share.V, nil), pub.Eval(uint32(i)).V)
		x.Require(fmt.Sprintf("node %d: share carries its own index", i), k.Share.I == uint32(i))
		shares = append(shares, k.Share)
	}
	if c.fault == "none" {
		x.Require("everybody completes", done == n)
		x.Require("QUAL = everybody", refQ == fmt.Sprint(hx.Seq(n)), refQ)
	}
	if absent >= 0 && ref != nil {
		for _, q := range gens[(absent+1)%n].QUAL() {
			x.Require("a participant that never dealt is not in QUAL", int(q) != absent)
		}
	}
	if len(shares) >= t && ref != nil {
		for _, sub := range hx.Subsets(len(shares), t, t) {
			var ss []*share.PriShare
			for _, k := range sub {
				ss = append(ss, shares[k])
			}
			sec, err := share.RecoverSecret(s, ss, uint32(t), uint32(n))
			if x.NoErr(fmt.Sprintf("RecoverSecret %v", sub), err) {
				x.ValidP(fmt.Sprintf("t shares %v recover the secret of the public key", sub), s.Point().Mul(sec, nil), ref.Public())
			}
		}
	}
}
