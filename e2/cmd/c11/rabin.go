package main

import (
	"fmt"
	"sort"

	"go.dedis.ch/kyber/v4"
	"go.dedis.ch/kyber/v4/share"
	rdkg "go.dedis.ch/kyber/v4/share/dkg/rabin"
	rvss "go.dedis.ch/kyber/v4/share/vss/rabin"
	"go.dedis.ch/kyber/v4/sign/schnorr"

	"verif/e2/hx"
)

// C11 — Rabin DKG (share/dkg/rabin): the real DistKeyGenerator of every participant runs over symbolic keys, deals
// (real encryption of the VSS deals), responses, secret commitments. Faults: a participant that never deals, a deal that
// arrives garbled at one receiver, a deal delivered twice; deals, responses and commitments delivered in several orders.
type rabCfg struct {
	n, t  int
	fault string // none | absent:k | garbled:k>j
	order string
}

func (c rabCfg) String() string { return fmt.Sprintf("n=%d t=%d fault=%s order=%s", c.n, c.t, c.fault, c.order) }

func rabScenarios(tier string) []hx.Scenario {
	var out []hx.Scenario
	maxN := 4
	if tier == "thorough" {
		maxN = 5
	}
	for n := 3; n <= maxN; n++ {
		for t := n/2 + 1; t <= n; t++ {
			for _, o := range []string{"id", "rev", "rot"} {
				fs := []string{"none"}
				if n-t >= 1 {
					fs = append(fs, "absent:0", fmt.Sprintf("absent:%d", n-1), fmt.Sprintf("garbled:0>%d", n-1), "garbled:1>0")
				}
				if n-t >= 1 && n >= 4 {
					fs = append(fs, "cheat:0>1", fmt.Sprintf("cheat:%d>0", n-1))
				}
				for _, f := range fs {
					c := rabCfg{n, t, f, o}
					out = append(out, hx.Scenario{Name: "rabin-dkg", Cfg: c.String(), Run: func(x *hx.Ctx) { rabDKG(x, c) }})
				}
			}
		}
	}
	return out
}

// rabCheatDelivery: the complaint against the cheating dealer and the dealer's INVALID justification reach the honest
// nodes at different points of the response phase: even-numbered nodes see them before any approval of that dealer,
// odd-numbered nodes after all of them. Whatever the order, every honest node must end with the same QUAL.
func rabCheatDelivery(x *hx.Ctx, s rdkg.Suite, c rabCfg, gens []*rdkg.DistKeyGenerator, xs []kyber.Scalar, resps []*rdkg.Response, ck, cj int, badDeal *rvss.Deal) {
	n := c.n
	var complaint *rdkg.Response
	var about, other []*rdkg.Response // approvals concerning the cheating dealer / everything else
	for _, r := range resps {
		switch {
		case int(r.Index) == ck && int(r.Response.Index) == cj:
			complaint = r
		case int(r.Index) == ck:
			about = append(about, r)
		default:
			other = append(other, r)
		}
	}
	if !x.Require("the victim's complaint exists", complaint != nil) {
		return
	}
	// the invalid justification: the share the victim really received, which is off the committed polynomial
	jb := &rvss.Justification{SessionID: complaint.Response.SessionID, Index: uint32(cj), Deal: badDeal}
	sig, err := schnorr.Sign(s, xs[ck], jb.Hash(s))
	x.NoErr("sign the invalid justification", err)
	jb.Signature = sig
	bad := &rdkg.Justification{Index: uint32(ck), Justification: jb}
	deliver := func(i int, r *rdkg.Response) {
		if int(r.Response.Index) == i {
			return
		}
		_, _ = gens[i].ProcessResponse(rabCopy(r))
	}
	for i := 0; i < n; i++ {
		if i == ck {
			for _, r := range append(append([]*rdkg.Response{}, about...), other...) {
				deliver(i, r)
			}
			_, _ = gens[i].ProcessResponse(rabCopy(complaint))
			continue
		}
		early := i%2 == 0
		if early && i != cj {
			_, err := gens[i].ProcessResponse(rabCopy(complaint))
			x.NoErr(fmt.Sprintf("complaint accepted by %d (before the approvals)", i), err)
			x.Err(fmt.Sprintf("node %d refuses the invalid justification (seen before the approvals)", i), gens[i].ProcessJustification(bad))
		}
		for _, r := range pOrder(about, c.order, i) {
			deliver(i, r)
		}
		for _, r := range pOrder(other, c.order, i) {
			deliver(i, r)
		}
		if !early || i == cj {
			if i != cj {
				_, err := gens[i].ProcessResponse(rabCopy(complaint))
				x.NoErr(fmt.Sprintf("complaint accepted by %d (after the approvals)", i), err)
			}
			x.Err(fmt.Sprintf("node %d refuses the invalid justification (seen after the approvals)", i), gens[i].ProcessJustification(bad))
		}
	}
}

// every node receives its own copy of a broadcast message (the library stores the pointer it is handed and later flips
// Approved in place when a justification arrives: sharing one object between nodes would be an artefact of the harness)
func rabCopy(r *rdkg.Response) *rdkg.Response {
	in := *r.Response
	return &rdkg.Response{Index: r.Index, Response: &in}
}

func rabQual(q []uint32) string {
	ix := make([]int, 0, len(q))
	for _, v := range q {
		ix = append(ix, int(v))
	}
	sort.Ints(ix)
	return fmt.Sprint(ix)
}

func rabDKG(x *hx.Ctx, c rabCfg) {
	s := x.S.(rdkg.Suite)
	n, t := c.n, c.t
	var xs []kyber.Scalar
	var Xs []kyber.Point
	for i := 0; i < n; i++ {
		k := s.Scalar().Pick(s.RandomStream())
		xs, Xs = append(xs, k), append(Xs, s.Point().Mul(k, nil))
	}
	gens := make([]*rdkg.DistKeyGenerator, n)
	for i := range gens {
		g, err := rdkg.NewDistKeyGenerator(s, xs[i], Xs, uint32(t))
		if !x.NoErr("NewDistKeyGenerator", err) {
			return
		}
		gens[i] = g
	}
	absent, gk, gj := -1, -1, -1
	fmt.Sscanf(c.fault, "absent:%d", &absent)
	fmt.Sscanf(c.fault, "garbled:%d>%d", &gk, &gj)
	ck, cj := -1, -1 // cheating dealer ck hands victim cj a share off the committed polynomial and answers the complaint with an invalid justification
	fmt.Sscanf(c.fault, "cheat:%d>%d", &ck, &cj)
	var badDeal *rvss.Deal
	ord := pOrder(hx.Seq(n), c.order, 1)
	// deals
	var resps []*rdkg.Response
	for _, i := range ord {
		if i == absent {
			continue
		}
		deals, err := gens[i].Deals()
		if !x.NoErr(fmt.Sprintf("Deals of %d", i), err) {
			return
		}
		x.Require(fmt.Sprintf("dealer %d deals to everybody else", i), len(deals) == n-1, len(deals))
		for _, j := range ord {
			d, ok := deals[j]
			if !ok {
				continue
			}
			if i == ck && j == cj {
				dl := gens[i].VerifDealer()
				pd, err := dl.PlaintextDeal(j)
				x.NoErr("PlaintextDeal", err)
				bd := *pd
				sh := *pd.SecShare
				sh.V = s.Scalar().Add(pd.SecShare.V, s.Scalar().Pick(s.RandomStream()))
				bd.SecShare = &sh
				badDeal = &bd
				enc, err := dl.VerifEncryptDeal(j, &bd)
				x.NoErr("VerifEncryptDeal", err)
				r, err := gens[j].ProcessDeal(&rdkg.Deal{Index: d.Index, Deal: enc})
				if x.NoErr(fmt.Sprintf("bad deal of %d processed by %d", i, j), err) {
					x.Require(fmt.Sprintf("%d complains about the deal of %d", j, i), !r.Response.Approved)
					resps = append(resps, r)
				}
				continue
			}
			if i == gk && j == gj {
				cp := *d.Deal
				cp.Cipher = append([]byte{}, d.Deal.Cipher...)
				cp.Cipher[len(cp.Cipher)/2] ^= 0x40
				bad := &rdkg.Deal{Index: d.Index, Deal: &cp}
				_, err := gens[j].ProcessDeal(bad)
				x.Err(fmt.Sprintf("garbled deal of %d refused by %d", i, j), err)
				continue
			}
			r, err := gens[j].ProcessDeal(d)
			if x.NoErr(fmt.Sprintf("deal of %d processed by %d", i, j), err) {
				x.Require(fmt.Sprintf("%d approves the deal of %d", j, i), r.Response.Approved)
				resps = append(resps, r)
			}
			_, err = gens[j].ProcessDeal(d)
			x.Err(fmt.Sprintf("deal of %d delivered twice to %d", i, j), err)
		}
	}
	if ck >= 0 {
		rabCheatDelivery(x, s, c, gens, xs, resps, ck, cj, badDeal)
		resps = nil
	}
	// responses to everybody but their author
	for _, r := range pOrder(resps, c.order, 2) {
		for _, i := range ord {
			if r.Response.Index == uint32(i) {
				continue
			}
			j, err := gens[i].ProcessResponse(rabCopy(r))
			if r.Index == uint32(gk) && i == gj || int(r.Index) == absent {
				continue // the receiver never got that dealer's deal: whatever it answers is recorded by the final agreement
			}
			x.NoErr(fmt.Sprintf("response of %d about dealer %d processed by %d", r.Response.Index, r.Index, i), err)
			x.Require("no justification for an approval", j == nil)
		}
	}
	// timeout, certification, secret commitments
	var scs []*rdkg.SecretCommits
	for _, i := range ord {
		gens[i].SetTimeout()
		cert := gens[i].Certified()
		x.Outcome(fmt.Sprintf("node %d certified", i), cert)
		if c.fault == "none" {
			x.Require(fmt.Sprintf("node %d: an all-honest run is certified", i), cert)
		}
		if !cert || i == absent {
			continue
		}
		sc, err := gens[i].SecretCommits()
		x.Outcome(fmt.Sprintf("node %d publishes secret commitments", i), err == nil)
		if err == nil {
			scs = append(scs, sc)
		}
	}
	for _, sc := range pOrder(scs, c.order, 3) {
		for _, i := range ord {
			if sc.Index == uint32(i) {
				continue
			}
			cc, err := gens[i].ProcessSecretCommits(sc)
			if gens[i].Certified() {
				x.Outcome(fmt.Sprintf("commitments of %d accepted by %d", sc.Index, i), err == nil && cc == nil)
			}
		}
	}
	// agreement among everybody who completes
	var ref *rdkg.DistKeyShare
	var refQ string
	var shares []*share.PriShare
	done := 0
	for i := 0; i < n; i++ {
		if i == ck {
			continue // the cheating participant's own view is not part of the agreement among honest participants
		}
		k, err := gens[i].DistKeyShare()
		x.Outcome(fmt.Sprintf("node %d completes", i), err == nil)
		if c.fault == "none" {
			x.NoErr(fmt.Sprintf("node %d completes an all-honest run", i), err)
		}
		if err != nil {
			continue
		}
		done++
		q := rabQual(gens[i].QUAL()) // QUAL() iterates over a map: compare as a set
		if ref == nil {
			ref, refQ = k, q
		}
		x.Require(fmt.Sprintf("node %d: same QUAL as the first completing node", i), q == refQ, q, refQ)
		x.ValidP(fmt.Sprintf("node %d: same public key", i), k.Public(), ref.Public())
		if x.Require(fmt.Sprintf("node %d: same number of commitments", i), len(k.Commits) == len(ref.Commits) && len(k.Commits) == t) {
			for j := range k.Commits {
				x.ValidP(fmt.Sprintf("node %d: same commitment %d", i, j), k.Commits[j], ref.Commits[j])
			}
		}
		pub := share.NewPubPoly(s, s.Point().Base(), k.Commits)
		x.ValidP(fmt.Sprintf("node %d: share lies on the public polynomial", i), s.Point().Mul(k.Share.V, nil), pub.Eval(uint32(i)).V)
		x.Require(fmt.Sprintf("node %d: share carries its own index", i), k.Share.I == uint32(i))
		shares = append(shares, k.Share)
	}
	if c.fault == "none" {
		x.Require("everybody completes", done == n)
		x.Require("QUAL = everybody", refQ == fmt.Sprint(hx.Seq(n)), refQ)
	}
	if ck >= 0 && ref != nil {
		for i := 0; i < n; i++ {
			if i == ck {
				continue
			}
			for _, q := range gens[i].QUAL() {
				x.Require(fmt.Sprintf("node %d: a dealer that answered a complaint with an invalid justification is not in QUAL", i), int(q) != ck)
			}
		}
	}
	if absent >= 0 && ref != nil {
		for _, q := range gens[(absent+1)%n].QUAL() {
			x.Require("a participant that never dealt is not in QUAL", int(q) != absent)
		}
	}
	if len(shares) >= t && ref != nil {
		for _, sub := range hx.Subsets(len(shares), t, t) {
			var ss []*share.PriShare
			for _, k := range sub {
				ss = append(ss, shares[k])
			}
			sec, err := share.RecoverSecret(s, ss, uint32(t), uint32(n))
			if x.NoErr(fmt.Sprintf("RecoverSecret %v", sub), err) {
				x.ValidP(fmt.Sprintf("t shares %v recover the secret of the public key", sub), s.Point().Mul(sec, nil), ref.Public())
			}
		}
	}
}
