// C12 — threshold Schnorr (DSS): real sign/dss over symbolic distributed keys.
package main

import (
	"bytes"
	"crypto/ed25519"
	"fmt"

	"go.dedis.ch/kyber/v4"
	dkg "go.dedis.ch/kyber/v4/share/dkg/pedersen"
	"go.dedis.ch/kyber/v4/share"
	"go.dedis.ch/kyber/v4/sign/dss"
	"go.dedis.ch/kyber/v4/sign/eddsa"
	"go.dedis.ch/kyber/v4/sign/schnorr"

	"verif/e2/hx"
	"verif/e2/scen"
)

func main() { hx.Main("C12", gen) }

func gen(tier string, seed int64) []hx.Scenario {
	var out []hx.Scenario
	maxN := 4
	if tier == "thorough" {
		maxN = 6
	}
	rng := hx.NewRng(seed)
	for n := 2; n <= maxN; n++ {
		for t := 1; t <= n; t++ {
			// every participant collects t-1 other partials in some order (all (t-1)-subsets for n <= 5)
			var subs [][]int
			if n <= 5 {
				subs = hx.Subsets(n, t, t)
			} else {
				for i := 0; i < 8; i++ {
					subs = append(subs, rng.Perm(hx.Seq(n))[:t])
				}
			}
			for si, sub := range subs {
				ords := [][]int{sub, hx.Rev(sub)}
				if len(sub) > 2 && si%2 == 0 {
					ords = append(ords, rng.Perm(sub))
				}
				for _, o := range ords {
					out = append(out, hx.Scenario{Name: "dss", Cfg: fmt.Sprintf("n=%d t=%d signers=%v keys=poly", n, t, o), Run: func(x *hx.Ctx) { honest(x, n, t, o, false) }})
				}
			}
			for _, f := range []string{"value+d", "forged-sig", "other-session", "duplicate", "bigidx", "idx-swapped", "unsigned", "other-msg", "own-again", "late-value+d", "late-forged", "own-first"} {
				out = append(out, hx.Scenario{Name: "dss-fault", Cfg: fmt.Sprintf("n=%d t=%d fault=%s", n, t, f), Run: func(x *hx.Ctx) { fault(x, n, t, f) }})
			}
		}
	}
	// the long-term key is refreshed (same secret and public key, new sharing polynomial) between two signing sessions
	for _, sh := range [][2]int{{3, 2}, {4, 3}} {
		n, t := sh[0], sh[1]
		out = append(out, hx.Scenario{Name: "dss-refresh", Cfg: fmt.Sprintf("n=%d t=%d", n, t), Run: func(x *hx.Ctx) { refreshCase(x, n, t) }})
	}
	// keys produced by a symbolic run of the real Pedersen DKG
	shapes := [][2]int{{3, 2}, {4, 3}}
	if tier == "thorough" {
		shapes = append(shapes, [2]int{5, 3}, [2]int{5, 4})
	}
	for _, sh := range shapes {
		n, t := sh[0], sh[1]
		out = append(out, hx.Scenario{Name: "dss", Cfg: fmt.Sprintf("n=%d t=%d signers=%v keys=dkg", n, t, hx.Seq(n)), Run: func(x *hx.Ctx) { honest(x, n, t, hx.Seq(n), true) }})
	}
	return out
}

// refreshCase: a signing session on one sharing of the long-term key, then the key is refreshed - a NEW polynomial with
// the same secret, hence the same public key - and a second session runs on the new shares in the same process: nothing
// of the first session may leak into the second (partials of the new sharing verify, every combiner obtains the standard
// signature, partials made from the OLD shares are refused).
func refreshCase(x *hx.Ctx, n, t int) {
	w := setup(x, n, t, false)
	s := w.s
	msg := []byte("dss message")
	run := func(tag string) []byte {
		var ds []*dss.DSS
		var ps []*dss.PartialSig
		for i := 0; i < n; i++ {
			d := w.newDSS(x, i, msg)
			p, err := d.PartialSig()
			x.NoErr(tag+": PartialSig", err)
			ds, ps = append(ds, d), append(ps, p)
		}
		var first []byte
		for i := 0; i < n; i++ {
			for j := 0; j < n; j++ {
				if i != j {
					x.NoErr(fmt.Sprintf("%s: partial of %d accepted by %d", tag, j, i), ds[i].ProcessPartialSig(ps[j]))
				}
			}
			sig, err := ds[i].Signature()
			if x.NoErr(fmt.Sprintf("%s: combiner %d", tag, i), err) {
				x.NoErr(fmt.Sprintf("%s: signature of combiner %d verifies", tag, i), schnorr.Verify(s, w.long[0].Public(), msg, sig))
				if first == nil {
					first = sig
				}
				x.Require(fmt.Sprintf("%s: combiner %d derives the same signature", tag, i), bytes.Equal(sig, first))
			}
		}
		return first
	}
	run("first sharing")
	oldLong := w.long
	oldPub := w.long[0].Public()
	// refresh: same secret, fresh polynomial
	np := share.NewPriPoly(s, uint32(t), w.longX, s.RandomStream())
	_, commits := np.Commit(nil).Info()
	var fresh []*dkg.DistKeyShare
	for _, sh := range np.Shares(uint32(n)) {
		fresh = append(fresh, &dkg.DistKeyShare{Commits: commits, Share: sh})
	}
	w.long = fresh
	x.ValidP("the refreshed key has the same public key", w.long[0].Public(), oldPub)
	w.rnd, _ = polyKeys(s, n, t)
	run("refreshed sharing")
	// a partial made from an OLD long-term share is refused in the refreshed session
	if t > 1 {
		comb := w.newDSS(x, 0, msg)
		stale, err := dss.NewDSS(s, w.ps[1].priv, w.pubs, oldLong[1], w.rnd[1], msg, uint32(t))
		x.NoErr("NewDSS on the old share", err)
		sp, err := stale.PartialSig()
		x.NoErr("PartialSig from the old share", err)
		x.Err("partial made from a pre-refresh share is refused", comb.ProcessPartialSig(sp))
	}
}

type party struct {
	priv kyber.Scalar
	pub  kyber.Point
}

type world struct {
	s      hx.Suite
	n, t   int
	ps     []party
	pubs   []kyber.Point
	long   []*dkg.DistKeyShare
	rnd    []*dkg.DistKeyShare
	longX  kyber.Scalar // nil when keys come from the DKG
}

// polyKeys builds distributed keys directly from a symbolic sharing polynomial
// (what a DKG outputs: shares of a degree t-1 polynomial and its commitments).
func polyKeys(s hx.Suite, n, t int) ([]*dkg.DistKeyShare, kyber.Scalar) {
	p := share.NewPriPoly(s, uint32(t), nil, s.RandomStream())
	_, commits := p.Commit(nil).Info()
	var out []*dkg.DistKeyShare
	for _, sh := range p.Shares(uint32(n)) {
		out = append(out, &dkg.DistKeyShare{Commits: commits, Share: sh})
	}
	return out, p.Secret()
}

func setup(x *hx.Ctx, n, t int, fromDKG bool) *world {
	s := x.S
	w := &world{s: s, n: n, t: t}
	for i := 0; i < n; i++ {
		k := s.Scalar().Pick(s.RandomStream())
		w.ps = append(w.ps, party{k, s.Point().Mul(k, nil)})
		w.pubs = append(w.pubs, w.ps[i].pub)
	}
	if fromDKG {
		privs := make([]kyber.Scalar, n)
		for i := range privs {
			privs[i] = w.ps[i].priv
		}
		w.long = scen.HonestPedersenDKG(x, privs, t, []byte("nonce-long"))
		w.rnd = scen.HonestPedersenDKG(x, privs, t, []byte("nonce-rand"))
	} else {
		w.long, w.longX = polyKeys(s, n, t)
		w.rnd, _ = polyKeys(s, n, t)
	}
	return w
}

func (w *world) newDSS(x *hx.Ctx, i int, msg []byte) *dss.DSS {
	d, err := dss.NewDSS(w.s, w.ps[i].priv, w.pubs, w.long[i], w.rnd[i], msg, uint32(w.t))
	x.NoErr(fmt.Sprintf("NewDSS%d", i), err)
	return d
}

func honest(x *hx.Ctx, n, t int, signers []int, fromDKG bool) {
	w := setup(x, n, t, fromDKG)
	s := w.s
	msg := []byte("dss message")
	ds := make([]*dss.DSS, n)
	pss := make([]*dss.PartialSig, n)
	for i := 0; i < n; i++ {
		ds[i] = w.newDSS(x, i, msg)
	}
	for _, i := range signers {
		p, err := ds[i].PartialSig()
		x.NoErr(fmt.Sprintf("PartialSig%d", i), err)
		pss[i] = p
	}
	var sigs [][]byte
	for _, i := range signers {
		// participant i processes the other signers' partials in the given order
		have := 1
		for _, j := range signers {
			if j == i {
				continue
			}
			x.Require(fmt.Sprintf("EnoughPartialSig at %d iff %d >= t", i, have), ds[i].EnoughPartialSig() == (have >= t))
			have++
			x.NoErr(fmt.Sprintf("%d processes partial of %d", i, j), ds[i].ProcessPartialSig(pss[j]))
		}
		x.Require("EnoughPartialSig", ds[i].EnoughPartialSig())
		sg, err := ds[i].Signature()
		if !x.NoErr(fmt.Sprintf("Signature at %d", i), err) {
			return
		}
		sigs = append(sigs, sg)
	}
	for i := 1; i < len(sigs); i++ {
		x.Require(fmt.Sprintf("participant %d derives the same signature", signers[i]), bytes.Equal(sigs[i], sigs[0]))
	}
	pub := w.long[0].Public()
	x.NoErr("schnorr.Verify under the distributed key", schnorr.Verify(s, pub, msg, sigs[0]))
	x.Err("other message", schnorr.Verify(s, pub, []byte("dss messagf"), sigs[0]))
	x.Err("verify under the nonce key", schnorr.Verify(s, w.rnd[0].Public(), msg, sigs[0]))
	if w.longX != nil {
		// s*G = R + H(R,A,m)*A  with A = x*G : response is r + h*x
		x.ValidP("distributed key == x*G", pub, s.Point().Mul(w.longX, nil))
	}
	// a participant that did not sign and received nothing cannot produce a signature
	for i := 0; i < n; i++ {
		in := false
		for _, j := range signers {
			in = in || i == j
		}
		if !in {
			_, err := ds[i].Signature()
			x.Err(fmt.Sprintf("no signature from 0 partials at %d", i), err)
			break
		}
	}
	x.ConcreteOnly(func() {
		x.NoErr("dss.Verify (eddsa)", dss.Verify(pub, msg, sigs[0]))
		x.NoErr("eddsa.Verify", eddsa.Verify(pub, msg, sigs[0]))
		pb, _ := pub.MarshalBinary()
		x.Require("crypto/ed25519.Verify", ed25519.Verify(ed25519.PublicKey(pb), msg, sigs[0]))
	})
}

func fault(x *hx.Ctx, n, t int, kind string) {
	w := setup(x, n, t, false)
	s := w.s
	msg := []byte("dss message")
	me, other := 0, n-1
	d := w.newDSS(x, me, msg)
	do := w.newDSS(x, other, msg)
	good, err := do.PartialSig()
	x.NoErr("PartialSig", err)
	resign := func(p *dss.PartialSig, k kyber.Scalar) {
		sg, err := schnorr.Sign(s, k, p.Hash(s))
		x.NoErr("resign", err)
		p.Signature = sg
	}
	bad := &dss.PartialSig{Partial: &share.PriShare{I: good.Partial.I, V: good.Partial.V.Clone()}, SessionID: append([]byte{}, good.SessionID...), Signature: append([]byte{}, good.Signature...)}
	switch kind {
	case "value+d":
		// a malicious insider signs a wrong value with its real long-term key
		dl := s.Scalar().Pick(s.RandomStream())
		bad.Partial.V = s.Scalar().Add(bad.Partial.V, dl)
		resign(bad, w.ps[other].priv)
		x.Err("wrong value, correctly authenticated", d.ProcessPartialSig(bad))
		// strength: (V+d)*G never equals the value prescribed by the two public polynomials
		x.NeverP("(V+d)G never equals VG", s.Point().Mul(bad.Partial.V, nil), s.Point().Mul(good.Partial.V, nil), dl)
	case "forged-sig":
		resign(bad, s.Scalar().Pick(s.RandomStream()))
		x.Err("signed by an unknown key", d.ProcessPartialSig(bad))
	case "unsigned":
		bad.Signature = nil
		x.Err("no signature", d.ProcessPartialSig(bad))
		bad.Signature = good.Signature[:len(good.Signature)-1]
		x.Err("truncated signature", d.ProcessPartialSig(bad))
	case "other-session":
		// same long-term key, other one-time key: a partial from another signing session
		w2rnd, _ := polyKeys(s, n, t)
		d2, err := dss.NewDSS(s, w.ps[other].priv, w.pubs, w.long[other], w2rnd[other], msg, uint32(t))
		x.NoErr("NewDSS other session", err)
		p2, err := d2.PartialSig()
		x.NoErr("PartialSig other session", err)
		x.Err("partial of another session", d.ProcessPartialSig(p2))
		// replayed under this session's id, re-signed by the insider
		p2.SessionID = append([]byte{}, good.SessionID...)
		resign(p2, w.ps[other].priv)
		x.Err("partial of another session relabelled", d.ProcessPartialSig(p2))
		// the right value announced under a foreign session identifier (authenticated by the insider)
		bad.SessionID[0] ^= 1
		resign(bad, w.ps[other].priv)
		x.Err("partial labelled with another session id", d.ProcessPartialSig(bad))
		bad.SessionID = nil
		resign(bad, w.ps[other].priv)
		x.Err("partial without session id", d.ProcessPartialSig(bad))
	case "other-msg":
		d2 := w.newDSS(x, other, []byte("another message"))
		p2, err := d2.PartialSig()
		x.NoErr("PartialSig other msg", err)
		if t > 1 || true {
			x.Err("partial for another message", d.ProcessPartialSig(p2))
		}
	case "duplicate":
		x.NoErr("first", d.ProcessPartialSig(good))
		x.Err("duplicate", d.ProcessPartialSig(good))
	case "bigidx":
		bad.Partial.I = uint32(n)
		resign(bad, w.ps[other].priv)
		x.Require("index n is ErrInvalidSignatureIndex", d.ProcessPartialSig(bad) == dss.ErrInvalidSignatureIndex)
		bad.Partial.I = 1 << 31
		x.Require("huge index is ErrInvalidSignatureIndex", d.ProcessPartialSig(bad) == dss.ErrInvalidSignatureIndex)
	case "idx-swapped":
		if n > 2 && t > 1 { // for t = 1 the sharing polynomials are constant and all partial values coincide
			bad.Partial.I = 1
			x.Err("index of another participant, original signature", d.ProcessPartialSig(bad))
			resign(bad, w.ps[other].priv)
			x.Err("index of another participant, signed by the insider", d.ProcessPartialSig(bad))
			resign(bad, w.ps[1].priv)
			x.Err("value of participant n-1 submitted by participant 1", d.ProcessPartialSig(bad))
		}
	case "late-value+d", "late-forged":
		// the combiner (the participant with the HIGHEST index) already holds t valid partials when a bad partial
		// with the LOWEST free index arrives: it must be rejected and must not displace a verified partial
		if n >= 2 {
			comb := w.newDSS(x, n-1, msg)
			_, err := comb.PartialSig()
			x.NoErr("combiner PartialSig", err)
			var goodOnes []*dss.PartialSig
			for j := n - 2; j >= 0 && len(goodOnes) < t-1; j-- {
				dj := w.newDSS(x, j, msg)
				pj, _ := dj.PartialSig()
				x.NoErr("combiner accepts valid partial", comb.ProcessPartialSig(pj))
				goodOnes = append(goodOnes, pj)
			}
			free := n - 1 - len(goodOnes) - 1 // lowest index not yet used (if any)
			if comb.EnoughPartialSig() && free >= 0 {
				before, err := comb.Signature()
				x.NoErr("signature before the late partial", err)
				df := w.newDSS(x, free, msg)
				pf, _ := df.PartialSig()
				late := &dss.PartialSig{Partial: &share.PriShare{I: pf.Partial.I, V: s.Scalar().Add(pf.Partial.V, s.Scalar().Pick(s.RandomStream()))}, SessionID: pf.SessionID}
				if kind == "late-value+d" {
					resign(late, w.ps[free].priv)
				} else {
					resign(late, s.Scalar().Pick(s.RandomStream()))
				}
				x.Err("bad partial arriving after the threshold is rejected", comb.ProcessPartialSig(late))
				after, err := comb.Signature()
				x.NoErr("signature after the late partial", err)
				x.Require("late bad partial does not change the signature", bytes.Equal(before, after))
				x.NoErr("signature still verifies", schnorr.Verify(s, w.long[0].Public(), msg, after))
			}
		}
	case "own-first":
		// the combiner receives its OWN partial first (a second replica holding the same key shares, or a broadcast
		// looping back) and only then signs itself: the index is then held twice. Whatever the arrival order, a
		// signature needs t DISTINCT signers and is the standard one.
		for _, others := range []int{t - 2, t - 1} {
			if others < 0 || others > n-1 {
				continue
			}
			replica := w.newDSS(x, me, msg)
			mineR, err := replica.PartialSig()
			x.NoErr("replica PartialSig", err)
			c := w.newDSS(x, me, msg)
			x.Outcome("own partial accepted before signing", c.ProcessPartialSig(mineR) == nil)
			_, err = c.PartialSig()
			x.NoErr("PartialSig after the own partial looped back", err)
			// the other partials come from the HIGHEST indices, so that the repeated index is among the lowest collected
			for j := n - 1; j > n-1-others; j-- {
				dj := w.newDSS(x, j, msg)
				pj, _ := dj.PartialSig()
				x.NoErr("other partial accepted", c.ProcessPartialSig(pj))
			}
			sig, err := c.Signature()
			if others+1 < t {
				x.Err(fmt.Sprintf("no signature from %d distinct signers (own index held twice)", others+1), err)
			} else if x.NoErr("signature from t distinct signers (own index held twice)", err) {
				x.NoErr("that signature verifies", schnorr.Verify(s, w.long[0].Public(), msg, sig))
			}
		}
		return
	case "own-again":
		mine, err := d.PartialSig()
		x.NoErr("own PartialSig", err)
		x.Err("own partial fed back", d.ProcessPartialSig(mine))
		_, err = d.PartialSig()
		x.NoErr("PartialSig twice", err)
	}
	// nothing that was rejected contributes: d holds only what it accepted
	if kind != "duplicate" {
		if t > 1 {
			x.Require("no partial accepted", !d.EnoughPartialSig() || (kind == "own-again" && t <= 1))
			_, err := d.Signature()
			x.Err("Signature with fewer than t partials", err)
		}
		x.NoErr("the valid partial is still accepted afterwards", d.ProcessPartialSig(good))
	}
	// complete the signature honestly and compare with a clean run
	ref := w.newDSS(x, me, msg)
	_, _ = ref.PartialSig()
	_, _ = d.PartialSig()
	_ = ref.ProcessPartialSig(good)
	for j := 1; j < n-1; j++ {
		dj := w.newDSS(x, j, msg)
		pj, _ := dj.PartialSig()
		x.NoErr("d accepts", d.ProcessPartialSig(pj))
		x.NoErr("ref accepts", ref.ProcessPartialSig(pj))
	}
	a, errA := d.Signature()
	b, errB := ref.Signature()
	if x.Require("both complete", errA == nil && errB == nil, errA, errB) {
		x.Require("signature unaffected by rejected partials", bytes.Equal(a, b))
		x.NoErr("final signature verifies", schnorr.Verify(s, w.long[0].Public(), msg, a))
	}
}
