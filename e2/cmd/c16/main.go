// C16 (E2 part) — ECIES, anonymous-set encryption and IBE over symbolic groups / pairing.
package main

import (
	"bytes"
	"crypto/sha256"
	"fmt"

	"go.dedis.ch/kyber/v4"
	"go.dedis.ch/kyber/v4/encrypt/ecies"
	"go.dedis.ch/kyber/v4/encrypt/ibe"
	"go.dedis.ch/kyber/v4/sign/anon"

	"verif/e2/hx"
)

func main() { hx.Main("C16", gen) }

func msgOf(n int) []byte {
	m := make([]byte, n)
	for i := range m {
		m[i] = byte(0x41 + i%23)
	}
	return m
}

func gen(tier string, seed int64) []hx.Scenario {
	var out []hx.Scenario
	lens := []int{0, 1, 15, 16, 31, 32, 33, 64, 2031, 2032, 4096}
	if tier == "thorough" {
		lens = append(lens, 2, 17, 48, 100, 255, 1000, 2047, 2048, 65536)
	}
	for _, l := range lens {
		out = append(out, hx.Scenario{Name: "ecies", Cfg: fmt.Sprintf("len=%d", l), Run: func(x *hx.Ctx) { eciesCase(x, l) }})
	}
	maxRing := 4
	if tier == "thorough" {
		maxRing = 6
	}
	for n := 1; n <= maxRing; n++ {
		for _, l := range []int{0, 1, 16, 33} {
			out = append(out, hx.Scenario{Name: "anon", Cfg: fmt.Sprintf("ring=%d len=%d", n, l), Run: func(x *hx.Ctx) { anonCase(x, n, l) }})
		}
		out = append(out, hx.Scenario{Name: "anon-malleability", Cfg: fmt.Sprintf("ring=%d", n), Run: func(x *hx.Ctx) { anonMalleable(x, n) }})
	}
	// the same schemes over a group whose point and scalar encodings differ in length (65 / 32 bytes; concrete twin: P-256)
	for _, l := range []int{0, 1, 33} {
		out = append(out, hx.Scenario{Name: "ecies", Cfg: fmt.Sprintf("shape=p256 len=%d", l), Shape: "p256", Run: func(x *hx.Ctx) { eciesCase(x, l) }})
	}
	for n := 1; n <= 3; n++ {
		for _, l := range []int{0, 16} {
			out = append(out, hx.Scenario{Name: "anon", Cfg: fmt.Sprintf("shape=p256 ring=%d len=%d", n, l), Shape: "p256", Run: func(x *hx.Ctx) { anonCase(x, n, l) }})
		}
	}
	for _, g := range []string{"G1", "G2"} {
		for _, l := range []int{0, 1, 16, 31, 32, 33, 64} {
			out = append(out, hx.Scenario{Name: "ibe-cca", Cfg: fmt.Sprintf("on=%s len=%d", g, l), Pairing: true, Run: func(x *hx.Ctx) { detRand(x, func() { ibeCCA(x, g, l) }) }})
		}
		out = append(out, hx.Scenario{Name: "ibe-cca-short-sigma", Cfg: fmt.Sprintf("on=%s len=1", g), Pairing: true, Run: func(x *hx.Ctx) { detRand(x, func() { ibeShortSigma(x, g, 1) }) }})
	}
	for _, l := range []int{0, 1, 16, 32, 33, 48, 80, 65535, 65536} {
		out = append(out, hx.Scenario{Name: "ibe-cpa", Cfg: fmt.Sprintf("len=%d", l), Pairing: true, Run: func(x *hx.Ctx) { detRand(x, func() { ibeCPA(x, l) }) }})
	}
	return out
}

// noBlockInClear: no aligned or unaligned 8-byte window of the plaintext appears in the ciphertext
func noBlockInClear(ct, msg []byte) bool {
	for i := 0; i+8 <= len(msg); i++ {
		if bytes.Contains(ct, msg[i:i+8]) {
			return false
		}
	}
	return true
}

func mutPoint(g kyber.Group, b []byte) []byte {
	p := g.Point()
	if err := p.UnmarshalBinary(b); err != nil {
		panic(err)
	}
	p.Add(p, g.Point().Base())
	o, _ := p.MarshalBinary()
	return o
}

func eciesCase(x *hx.Ctx, l int) {
	s := x.S
	priv := s.Scalar().Pick(s.RandomStream())
	pub := s.Point().Mul(priv, nil)
	msg := msgOf(l)
	ct, err := ecies.Encrypt(s, pub, msg, nil)
	if !x.NoErr("Encrypt", err) {
		return
	}
	pl := s.PointLen()
	x.Require("ciphertext length = point + message + 16-byte tag", len(ct) == pl+l+16, len(ct))
	ctBefore := append([]byte{}, ct...)
	pt, err := ecies.Decrypt(s, priv, ct, nil)
	x.NoErr("Decrypt", err)
	x.Require("round trip", bytes.Equal(pt, msg))
	x.Require("Decrypt leaves the caller's ciphertext unchanged", bytes.Equal(ct, ctBefore))
	pt2, err := ecies.Decrypt(s, priv, ct, nil)
	x.Require("a second Decrypt of the same buffer gives the same plaintext", err == nil && bytes.Equal(pt2, msg))
	pt, err = ecies.Decrypt(s, priv, ct, sha256.New)
	x.Require("nil hash means sha256", err == nil && bytes.Equal(pt, msg))
	x.Require("no plaintext block in the clear", noBlockInClear(ct, msg))
	ct2, _ := ecies.Encrypt(s, pub, msg, nil)
	x.Require("fresh ephemeral key per encryption", !bytes.Equal(ct[:pl], ct2[:pl]))
	// rejections
	other := s.Scalar().Pick(s.RandomStream())
	_, err = ecies.Decrypt(s, other, ct, nil)
	x.Err("other private key", err)
	_, err = ecies.Decrypt(s, s.Scalar().Add(priv, s.Scalar().One()), ct, nil)
	x.Err("private key + 1", err)
	m := append([]byte{}, ct...)
	copy(m, mutPoint(s, ct[:pl]))
	_, err = ecies.Decrypt(s, priv, m, nil)
	x.Err("ephemeral point replaced", err)
	for _, off := range []int{pl, pl + l/2, len(ct) - 16, len(ct) - 1} {
		if off < pl || off >= len(ct) {
			continue
		}
		m := append([]byte{}, ct...)
		m[off] ^= 0x01
		_, err = ecies.Decrypt(s, priv, m, nil)
		x.Err(fmt.Sprintf("bit flipped at offset %d (body/tag)", off), err)
	}
	for _, cut := range []int{0, 1, pl - 1, pl, pl + 1, pl + 15, len(ct) - 1} {
		if cut < 0 || cut >= len(ct) {
			continue
		}
		_, err = ecies.Decrypt(s, priv, ct[:cut], nil)
		x.Err(fmt.Sprintf("truncated to %d bytes", cut), err)
	}
	_, err = ecies.Decrypt(s, priv, append(append([]byte{}, ct...), 0), nil)
	x.Err("one byte appended", err)
	_, err = ecies.Decrypt(s, priv, nil, nil)
	x.Err("nil ciphertext", err)
	// the body of another ciphertext under this ephemeral key
	sw := append(append([]byte{}, ct[:pl]...), ct2[pl:]...)
	_, err = ecies.Decrypt(s, priv, sw, nil)
	x.Err("ephemeral key and body of two ciphertexts mixed", err)
}

func anonCase(x *hx.Ctx, n, l int) {
	s := x.S
	var xs []kyber.Scalar
	var set anon.Set
	for i := 0; i < n; i++ {
		k := s.Scalar().Pick(s.RandomStream())
		xs = append(xs, k)
		set = append(set, s.Point().Mul(k, nil))
	}
	msg := msgOf(l)
	ct, err := anon.Encrypt(s, msg, set)
	if !x.NoErr("Encrypt", err) {
		return
	}
	pl, sl := s.PointLen(), s.ScalarLen()
	hdr := pl + n*sl
	x.Require("ciphertext length = header + message + 16-byte tag", len(ct) == hdr+l+16, len(ct))
	x.Require("no plaintext block in the clear", noBlockInClear(ct, msg))
	orig := append([]byte{}, ct...)
	for i := 0; i < n; i++ {
		pt, err := anon.Decrypt(s, ct, set, i, xs[i])
		x.NoErr(fmt.Sprintf("recipient %d decrypts", i), err)
		x.Require(fmt.Sprintf("recipient %d gets the message", i), bytes.Equal(pt, msg))
		x.Require(fmt.Sprintf("Decrypt by recipient %d leaves the caller's ciphertext unchanged", i), bytes.Equal(ct, orig))
		ct = append([]byte{}, orig...)
	}
	outsider := s.Scalar().Pick(s.RandomStream())
	_, err = anon.Decrypt(s, ct, set, 0, outsider)
	x.Err("key that is not in the set", err)
	if n > 1 {
		_, err = anon.Decrypt(s, ct, set, 0, xs[1])
		x.Err("right key, wrong position", err)
		sw := append(anon.Set{}, set...)
		sw[0], sw[1] = sw[1], sw[0]
		_, err = anon.Decrypt(s, ct, sw, 1, xs[0])
		x.Err("recipients listed in another order", err)
	}
	m := append([]byte{}, orig...)
	copy(m, mutPoint(s, orig[:pl]))
	_, err = anon.Decrypt(s, m, set, 0, xs[0])
	x.Err("ephemeral point replaced", err)
	for i := 0; i < n; i++ {
		m := append([]byte{}, orig...)
		m[pl+i*sl+3] ^= 0x10
		for j := 0; j < n; j++ {
			_, err = anon.Decrypt(s, m, set, j, xs[j])
			x.Err(fmt.Sprintf("key slot %d altered, recipient %d", i, j), err)
		}
	}
	if l > 0 {
		m := append([]byte{}, orig...)
		m[hdr] ^= 1
		_, err = anon.Decrypt(s, m, set, 0, xs[0])
		x.Err("body bit flipped", err)
	}
	m = append([]byte{}, orig...)
	m[len(m)-1] ^= 1
	_, err = anon.Decrypt(s, m, set, 0, xs[0])
	x.Err("tag bit flipped", err)
	for _, cut := range []int{0, pl - 1, pl, hdr - 1, hdr, hdr + 15, len(orig) - 1} {
		if cut < 0 || cut >= len(orig) {
			continue
		}
		_, err = anon.Decrypt(s, append([]byte{}, orig[:cut]...), set, 0, xs[0])
		x.Err(fmt.Sprintf("truncated to %d bytes", cut), err)
	}
	_, err = anon.Decrypt(s, append(append([]byte{}, orig...), 0), set, 0, xs[0])
	x.Err("one byte appended", err)
}

// anonMalleable: body altered and the tag recomputed with the public, unkeyed XOF
func anonMalleable(x *hx.Ctx, n int) {
	s := x.S
	var xs []kyber.Scalar
	var set anon.Set
	for i := 0; i < n; i++ {
		k := s.Scalar().Pick(s.RandomStream())
		xs = append(xs, k)
		set = append(set, s.Point().Mul(k, nil))
	}
	msg := []byte("pay 100 to alice")
	ct, err := anon.Encrypt(s, msg, set)
	if !x.NoErr("Encrypt", err) {
		return
	}
	hdr := s.PointLen() + n*s.ScalarLen()
	m := append([]byte{}, ct...)
	m[hdr+4] ^= '1' ^ '9' // "pay 900 to alice"
	body := m[hdr : len(m)-16]
	tag := make([]byte, 16)
	_, _ = s.XOF(body).Read(tag)
	copy(m[len(m)-16:], tag)
	pt, err := anon.Decrypt(s, m, set, 0, xs[0])
	x.Require("altered body with a tag recomputed by the adversary is rejected", err != nil, fmt.Sprintf("accepted as %q", pt))
}

func ibeSetup(x *hx.Ctx, on string, id []byte) (master, private, otherPrivate kyber.Point) {
	p := x.P
	sk := p.G1().Scalar().Pick(p.RandomStream())
	if on == "G1" {
		master = p.G1().Point().Mul(sk, nil)
		private = p.G2().Point().(kyber.HashablePoint).Hash(id).Mul(sk, nil)
		private = p.G2().Point().Mul(sk, p.G2().Point().(kyber.HashablePoint).Hash(id))
		otherPrivate = p.G2().Point().Mul(sk, p.G2().Point().(kyber.HashablePoint).Hash(append([]byte("x"), id...)))
	} else {
		master = p.G2().Point().Mul(sk, nil)
		private = p.G1().Point().Mul(sk, p.G1().Point().(kyber.HashablePoint).Hash(id))
		otherPrivate = p.G1().Point().Mul(sk, p.G1().Point().(kyber.HashablePoint).Hash(append([]byte("x"), id...)))
	}
	return
}

func ibeCCA(x *hx.Ctx, on string, l int) {
	p := x.P
	id := []byte("identity-42")
	master, private, otherPrivate := ibeSetup(x, on, id)
	enc, dec := ibe.EncryptCCAonG1, ibe.DecryptCCAonG1
	grp := p.G1()
	if on == "G2" {
		enc, dec = ibe.EncryptCCAonG2, ibe.DecryptCCAonG2
		grp = p.G2()
	}
	msg := msgOf(l)
	c, err := enc(p, master, id, msg)
	if l > p.Hash().Size() {
		x.Err("message longer than the hash output is refused", err)
		return
	}
	if !x.NoErr("Encrypt", err) {
		return
	}
	x.Require("V and W have the message length", len(c.V) == l && len(c.W) == l)
	x.Require("no plaintext block in the clear", noBlockInClear(c.W, msg) && noBlockInClear(c.V, msg))
	pt, err := dec(p, private, c)
	x.NoErr("Decrypt", err)
	x.Require("round trip", bytes.Equal(pt, msg))
	_, err = dec(p, otherPrivate, c)
	if l >= minSigma { // shorter messages: sigma has only 8*len(msg) bits, see ibeShortSigma (the empty message has an empty pad: nothing depends on the key)
		x.Err("key of another identity", err)
	}
	c2 := &ibe.Ciphertext{U: grp.Point().Add(c.U, grp.Point().Base()), V: c.V, W: c.W}
	_, err = dec(p, private, c2)
	x.Err("U replaced", err)
	if l > 0 {
		v := append([]byte{}, c.V...)
		v[0] ^= 1
		_, err = dec(p, private, &ibe.Ciphertext{U: c.U, V: v, W: c.W})
		x.Err("V altered", err)
		w := append([]byte{}, c.W...)
		w[l-1] ^= 0x80
		_, err = dec(p, private, &ibe.Ciphertext{U: c.U, V: c.V, W: w})
		x.Err("W altered", err)
		_, err = dec(p, private, &ibe.Ciphertext{U: c.U, V: c.V[:l-1], W: c.W})
		x.Err("V truncated", err)
		_, err = dec(p, private, &ibe.Ciphertext{U: c.U, V: c.V, W: c.W[:l-1]})
		x.Err("W truncated", err)
		_, err = dec(p, private, &ibe.Ciphertext{U: c.U, V: c.V[:l-1], W: c.W[:l-1]})
		x.Err("V and W truncated", err)
	}
	long := make([]byte, p.Hash().Size()+1)
	_, err = dec(p, private, &ibe.Ciphertext{U: c.U, V: long, W: long})
	x.Err("over-long V/W refused", err)
	cB, _ := enc(p, master, id, msg)
	if l >= minSigma { // two encryptions of a shorter message draw the same sigma (hence are the same ciphertext) with probability 2^-8l
		_, err = dec(p, private, &ibe.Ciphertext{U: c.U, V: cB.V, W: cB.W})
		x.Err("components of two ciphertexts mixed", err)
	}
}

// minSigma: below this message length the outcome of the two sigma-dependent rejections of ibeCCA is decided by the
// 8*len(msg) random bits of sigma, not by the scheme; those lengths are the subject of ibeShortSigma.
const minSigma = 16

// detRand makes encrypt/ibe's direct use of crypto/rand a function of the seed and the scenario (and of which twin runs)
func detRand(x *hx.Ctx, f func()) {
	hx.DetRand(fmt.Sprintf("c16|%s|%s|%d|%v", x.Scenario, x.Cfg, x.Seed, x.Symbolic), f)
}

// ibeShortSigma: the CCA scheme draws sigma with the length of the message, so for an l-byte message the re-encryption
// check U = H3(sigma', msg')*P accepts as soon as the l pad bytes derived from a WRONG key coincide with those of the
// right key: one ciphertext in 2^(8l). The acceptance condition is exact (sigma' = sigma <=> accepted, by the valid
// queries of the symbolic run); the witness is searched among the first 8192 encryptions under the deterministic
// crypto/rand of this scenario and replayed on the real suite.
func ibeShortSigma(x *hx.Ctx, on string, l int) {
	p := x.P
	id := []byte("identity-42")
	master, _, otherPrivate := ibeSetup(x, on, id)
	enc, dec := ibe.EncryptCCAonG1, ibe.DecryptCCAonG1
	if on == "G2" {
		enc, dec = ibe.EncryptCCAonG2, ibe.DecryptCCAonG2
	}
	msg := msgOf(l)
	accepted, same := -1, false
	for i := 0; i < 8192 && accepted < 0; i++ {
		c, err := enc(p, master, id, msg)
		if err != nil {
			x.NoErr("Encrypt", err)
			return
		}
		if pt, err := dec(p, otherPrivate, c); err == nil {
			accepted, same = i, bytes.Equal(pt, msg)
		}
	}
	x.Require(fmt.Sprintf("every ciphertext of a %d-byte message is refused under the key of another identity", l), accepted < 0, "accepted at encryption", accepted, "plaintext recovered", same)
}

func ibeCPA(x *hx.Ctx, l int) {
	p := x.P
	id := []byte("round-7")
	master, private, otherPrivate := ibeSetup(x, "G1", id)
	msg := msgOf(l)
	c, err := ibe.EncryptCPAonG1(p, p.G1().Point().Base(), master, id, msg)
	if err != nil {
		x.Outcome("message refused", true)
		x.Require("only messages the scheme cannot protect are refused", l > p.Hash().Size(), err)
		return
	}
	x.Outcome("message refused", false)
	x.Require("ciphertext has the message length", len(c.C) == l)
	// an accepted message must be fully masked
	x.Require("no plaintext block in the clear", noBlockInClear(c.C, msg))
	pt, err := ibe.DecryptCPAonG1(p, private, c)
	x.NoErr("Decrypt", err)
	x.Require("round trip", bytes.Equal(pt, msg))
	if l >= 8 {
		pt, err = ibe.DecryptCPAonG1(p, otherPrivate, c)
		x.Require("key of another identity does not yield the message", err != nil || !bytes.Equal(pt, msg))
	}
}
