// C07 — Shamir sharing: the real share/poly.go executed over symbolic scalars and points.
package main

import (
	"strings"
	"fmt"
	"sort"

	"go.dedis.ch/kyber/v4"
	"go.dedis.ch/kyber/v4/share"

	"verif/e2/hx"
)

func main() { hx.Main("C07", gen) }

type cfg struct {
	t, n    int
	subset  []int // indices present, in presentation order; -1 = nil entry
	base    string // "nil" | "H"
	secret  string // "sym" | "zero"
	label   string
}

func gen(tier string, seed int64) []hx.Scenario {
	maxN, full := 6, 5
	if tier == "thorough" {
		maxN, full = 9, 6
	}
	var out []hx.Scenario
	rng := newRng(seed)
	for n := 1; n <= maxN; n++ {
		for t := 1; t <= n; t++ {
			var subsets [][]int
			if n <= full {
				for m := 1; m < 1<<n; m++ {
					subsets = append(subsets, bitsOf(m, n))
				}
			} else {
				seen := map[int]bool{}
				for len(subsets) < 14 {
					m := 1 + rng.intn(1<<n-1)
					if !seen[m] {
						seen[m] = true
						subsets = append(subsets, bitsOf(m, n))
					}
				}
				subsets = append(subsets, bitsOf(1<<n-1, n), bitsOf(1<<t-1, n), bitsOf((1<<t-1)<<(n-t), n))
			}
			for si, sub := range subsets {
				if len(sub) < t-1 { // far below threshold: one representative is enough
					if len(sub) != 1 {
						continue
					}
				}
				orders := [][]int{sub, rev(sub)}
				if len(sub) >= 3 {
					orders = append(orders, rng.perm(sub))
				}
				if n <= 4 && len(sub) == n && tier == "thorough" {
					orders = allPerms(sub)
				}
				for oi, ord := range orders {
					if oi > 0 && si%3 != 0 && n > 4 {
						continue
					}
					variants := []struct{ base, secret string }{{"nil", "sym"}}
					if oi == 0 {
						variants = append(variants, struct{ base, secret string }{"H", "sym"})
						if si%4 == 0 {
							variants = append(variants, struct{ base, secret string }{"H", "zero"})
						}
					}
					for _, v := range variants {
						// nil entries interleaved for the first ordering; a duplicate for the reversed one
						pres := append([]int{}, ord...)
						lab := "plain"
						if oi == 0 && len(pres) >= 1 {
							pres = append([]int{-1}, pres...)
							pres = append(pres[:len(pres)/2+1], append([]int{-1}, pres[len(pres)/2+1:]...)...)
							lab = "nils"
						} else if oi == 1 {
							pres = append(pres, pres[0])
							lab = "dup"
						}
						c := cfg{t: t, n: n, subset: pres, base: v.base, secret: v.secret, label: lab}
						out = append(out, hx.Scenario{Name: "shamir", Cfg: fmt.Sprintf("t=%d n=%d shares=%v base=%s secret=%s %s", t, n, pres, v.base, v.secret, lab),
							Run: func(x *hx.Ctx) { runShamir(x, c) }})
						if oi == 1 && len(ord) >= 1 {
							// the same share delivered twice, the repeated one being the LOWEST index (it sorts into the first t entries)
							lo := ord[0]
							for _, i := range ord {
								if i < lo {
									lo = i
								}
							}
							pres2 := append(append([]int{}, ord...), lo)
							c2 := cfg{t: t, n: n, subset: pres2, base: v.base, secret: v.secret, label: "dup"}
							out = append(out, hx.Scenario{Name: "shamir", Cfg: fmt.Sprintf("t=%d n=%d shares=%v base=%s secret=%s duplow", t, n, pres2, v.base, v.secret),
								Run: func(x *hx.Ctx) { runShamir(x, c2) }})
						}
					}
				}
			}
			out = append(out, hx.Scenario{Name: "polyops", Cfg: fmt.Sprintf("t=%d n=%d", t, n), Run: func(x *hx.Ctx) { runOps(x, t, n) }})
		}
	}
	return out
}

func runShamir(x *hx.Ctx, c cfg) {
	s := x.S
	t, n := uint32(c.t), uint32(c.n)
	var secret kyber.Scalar
	if c.secret == "zero" {
		secret = s.Scalar().Zero()
	} else {
		secret = s.Scalar().Pick(s.RandomStream())
	}
	p := share.NewPriPoly(s, t, secret, s.RandomStream())
	var B kyber.Point
	if c.base == "H" {
		B = s.Point().Pick(s.RandomStream())
	}
	pub := p.Commit(B)
	sh := p.Shares(n)
	psh := pub.Shares(n)
	x.Require("nshares", len(sh) == c.n && len(psh) == c.n)
	var sub []*share.PriShare
	var psub []*share.PubShare
	distinct := map[int]bool{}
	for _, i := range c.subset {
		if i < 0 {
			sub = append(sub, nil)
			psub = append(psub, nil)
			continue
		}
		distinct[i] = true
		sub = append(sub, sh[i])
		psub = append(psub, psh[i])
	}
	enough := len(distinct) >= c.t
	secretB := s.Point().Mul(secret, B)

	// the recovery functions only read what the caller hands them: same entries, same order, same indices and values
	snap := func() string {
		var sb strings.Builder
		for k := range sub {
			if sub[k] == nil {
				sb.WriteString("nil;")
				continue
			}
			vb, _ := sub[k].V.MarshalBinary()
			pb, _ := psub[k].V.MarshalBinary()
			fmt.Fprintf(&sb, "%d:%x/%d:%x;", sub[k].I, vb, psub[k].I, pb)
		}
		return sb.String()
	}
	before := snap()
	defer func() {
		x.Require("recovery leaves the caller's share lists unchanged (entries, order, indices, values)", snap() == before)
	}()

	rec, err := share.RecoverSecret(s, sub, t, n)
	if enough {
		if x.NoErr("RecoverSecret", err) {
			x.ValidS("RecoverSecret==secret", rec, secret)
		}
	} else {
		x.Err("RecoverSecret<t", err)
	}
	rc, err := share.RecoverCommit(s, psub, t, n)
	if enough {
		if x.NoErr("RecoverCommit", err) {
			x.ValidP("RecoverCommit==secret*B", rc, secretB)
		}
	} else {
		x.Err("RecoverCommit<t", err)
	}
	pp, err := share.RecoverPriPoly(s, sub, t, n)
	if enough {
		if x.NoErr("RecoverPriPoly", err) {
			cs, want := pp.Coefficients(), p.Coefficients()
			if x.Require("RecoverPriPoly.len", len(cs) == len(want)) {
				for i := range cs {
					x.ValidS(fmt.Sprintf("RecoverPriPoly.coef%d", i), cs[i], want[i])
				}
			}
			x.Require("RecoverPriPoly.Equal", pp.Equal(p))
		}
	} else {
		x.Err("RecoverPriPoly<t", err)
	}
	rp, err := share.RecoverPubPoly(s, psub, t, n)
	if enough {
		if x.NoErr("RecoverPubPoly", err) {
			_, cs := rp.Info()
			_, want := pub.Info()
			if x.Require("RecoverPubPoly.len", len(cs) == len(want)) {
				for i := range cs {
					x.ValidP(fmt.Sprintf("RecoverPubPoly.commit%d", i), cs[i], want[i])
				}
			}
			x.Require("RecoverPubPoly.Equal", rp.Equal(pub))
		}
	} else {
		x.Err("RecoverPubPoly<t", err)
	}
	// commitments bind shares
	x.ValidP("Commit()==secret*B", pub.Commit(), secretB)
	for i := 0; i < c.n; i++ {
		x.ValidP(fmt.Sprintf("PubEval(%d)==Commit(PriEval)", i), pub.Eval(uint32(i)).V, s.Point().Mul(p.Eval(uint32(i)).V, B))
		x.Require(fmt.Sprintf("Check(share%d)", i), pub.Check(sh[i]))
	}
	bi := uint32(len(c.subset) % c.n)
	delta := s.Scalar().Pick(s.RandomStream())
	bad := &share.PriShare{I: bi, V: s.Scalar().Add(sh[bi].V, delta)}
	x.Require("Check(share+delta)==false", !pub.Check(bad))
	if B == nil {
		x.NeverP("Check(share+delta) never passes", pub.Eval(bi).V, s.Point().Mul(bad.V, B), delta)
	} else {
		x.NeverP("Check(share+delta) never passes", pub.Eval(bi).V, s.Point().Mul(bad.V, B), delta, B)
	}
	if c.n > 1 && c.t > 1 {
		// a share presented under another index (for t=1 the polynomial is constant and all shares coincide)
		oi := (bi + 1) % n
		x.Require("Check(share under other index)==false", !pub.Check(&share.PriShare{I: oi, V: sh[bi].V}))
	}
}

func runOps(x *hx.Ctx, t, n int) {
	s := x.S
	p := share.NewPriPoly(s, uint32(t), nil, s.RandomStream())
	q := share.NewPriPoly(s, uint32(t), nil, s.RandomStream())
	H := s.Point().Pick(s.RandomStream())
	sum, err := p.Add(q)
	x.NoErr("PriPoly.Add", err)
	prod := p.Mul(q)
	P, Q := p.Commit(H), q.Commit(H)
	S, err := P.Add(Q)
	x.NoErr("PubPoly.Add", err)
	for i := 0; i < n; i++ {
		u := uint32(i)
		x.ValidS(fmt.Sprintf("(p+q)(%d)", i), sum.Eval(u).V, s.Scalar().Add(p.Eval(u).V, q.Eval(u).V))
		x.ValidS(fmt.Sprintf("(p*q)(%d)", i), prod.Eval(u).V, s.Scalar().Mul(p.Eval(u).V, q.Eval(u).V))
		x.ValidP(fmt.Sprintf("(P+Q)(%d)", i), S.Eval(u).V, s.Point().Add(P.Eval(u).V, Q.Eval(u).V))
		x.ValidP(fmt.Sprintf("Commit(p+q)(%d)", i), sum.Commit(H).Eval(u).V, S.Eval(u).V)
		x.Require(fmt.Sprintf("S.Check(sum share %d)", i), S.Check(sum.Eval(u)))
	}
	x.Require("Commit(p+q).Equal(P+Q)", sum.Commit(H).Equal(S))
	x.Require("p.Equal(q)==false", !p.Equal(q))
	x.Require("P.Equal(Q)==false", !P.Equal(Q))
	x.ValidS("secret of sum", sum.Secret(), s.Scalar().Add(p.Secret(), q.Secret()))
	if t > 1 {
		r := share.NewPriPoly(s, uint32(t-1), nil, s.RandomStream())
		_, err := p.Add(r)
		x.Err("Add(different thresholds)", err)
	}
	// a polynomial that was already used (evaluated, checked against, shared out) is combined afterwards: the sum is a
	// new value that owes nothing to what was computed from its operands before
	P2, Q2 := p.Commit(H), q.Commit(H)
	for i := 0; i < n; i++ {
		_ = P2.Eval(uint32(i))
		_ = P2.Check(p.Eval(uint32(i)))
	}
	_ = P2.Shares(uint32(n))
	S2, err := P2.Add(Q2)
	if x.NoErr("PubPoly.Add after the receiver was evaluated", err) {
		for i := 0; i < n; i++ {
			u := uint32(i)
			x.ValidP(fmt.Sprintf("(P+Q)(%d) after P was evaluated", i), S2.Eval(u).V, s.Point().Add(P.Eval(u).V, Q.Eval(u).V))
			x.Require(fmt.Sprintf("(P+Q).Check(sum share %d) after P was evaluated", i), S2.Check(sum.Eval(u)))
			x.ValidP(fmt.Sprintf("P(%d) unchanged by the addition", i), P2.Eval(u).V, P.Eval(u).V)
		}
		x.Require("P+Q built after evaluating P equals P+Q built before", S2.Equal(S))
	}
	p2 := share.NewPriPoly(s, uint32(t), nil, s.RandomStream())
	before := make([]kyber.Scalar, n)
	for i := 0; i < n; i++ {
		before[i] = p2.Eval(uint32(i)).V.Clone()
	}
	_ = p2.Shares(uint32(n))
	sum2, err := p2.Add(q)
	prod2 := p2.Mul(q)
	if x.NoErr("PriPoly.Add after the receiver was evaluated", err) {
		for i := 0; i < n; i++ {
			u := uint32(i)
			x.ValidS(fmt.Sprintf("(p+q)(%d) after p was evaluated", i), sum2.Eval(u).V, s.Scalar().Add(before[i], q.Eval(u).V))
			x.ValidS(fmt.Sprintf("(p*q)(%d) after p was evaluated", i), prod2.Eval(u).V, s.Scalar().Mul(before[i], q.Eval(u).V))
			x.ValidS(fmt.Sprintf("p(%d) unchanged by Add and Mul", i), p2.Eval(u).V, before[i])
		}
	}
	// shares of index i are evaluated at x = i+1
	x.ValidS("Eval(0) is p(1)", p.Eval(0).V, sumCoeffs(s, p))
}

func sumCoeffs(s hx.Suite, p *share.PriPoly) kyber.Scalar {
	acc := s.Scalar().Zero()
	for _, c := range p.Coefficients() {
		acc = s.Scalar().Add(acc, c)
	}
	return acc
}

// ---- small deterministic helpers ----
type rng struct{ s uint64 }

func newRng(seed int64) *rng { return &rng{uint64(seed)*2654435761 + 12345} }
func (r *rng) next() uint64 {
	r.s += 0x9e3779b97f4a7c15
	z := r.s
	z = (z ^ (z >> 30)) * 0xbf58476d1ce4e5b9
	z = (z ^ (z >> 27)) * 0x94d049bb133111eb
	return z ^ (z >> 31)
}
func (r *rng) intn(n int) int { return int(r.next() % uint64(n)) }
func (r *rng) perm(a []int) []int {
	b := append([]int{}, a...)
	for i := len(b) - 1; i > 0; i-- {
		j := r.intn(i + 1)
		b[i], b[j] = b[j], b[i]
	}
	return b
}
func bitsOf(m, n int) []int {
	var o []int
	for i := 0; i < n; i++ {
		if m>>i&1 == 1 {
			o = append(o, i)
		}
	}
	return o
}
func rev(a []int) []int {
	b := append([]int{}, a...)
	for i, j := 0, len(b)-1; i < j; i, j = i+1, j-1 {
		b[i], b[j] = b[j], b[i]
	}
	return b
}
func allPerms(a []int) [][]int {
	var res [][]int
	b := append([]int{}, a...)
	sort.Ints(b)
	var rec func(k int)
	rec = func(k int) {
		if k == len(b) {
			res = append(res, append([]int{}, b...))
			return
		}
		for i := k; i < len(b); i++ {
			b[k], b[i] = b[i], b[k]
			rec(k + 1)
			b[k], b[i] = b[i], b[k]
		}
	}
	rec(0)
	return res
}
