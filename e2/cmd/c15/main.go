// C15 — verifiable shuffles: real shuffle package (pair, simple, biffle, sequences) with
// honest provers for every permutation and adversarial forgers, over symbolic values.
package main

import (
	"reflect"
	"fmt"

	"go.dedis.ch/kyber/v4"
	"go.dedis.ch/kyber/v4/proof"
	"go.dedis.ch/kyber/v4/shuffle"

	"verif/e2/hx"
)

func main() { hx.Main("C15", gen) }

func gen(tier string, seed int64) []hx.Scenario {
	var out []hx.Scenario
	rng := hx.NewRng(seed)
	maxK, fullK := 4, 4
	if tier == "thorough" {
		maxK, fullK = 5, 4 // k = 6: the validity queries of an honest shuffle exceed the 300 s solver budget (z3 4.8.12 and 5.1): reduced bound
	}
	for k := 2; k <= maxK; k++ {
		var perms [][]int
		if k <= fullK {
			perms = hx.AllPerms(hx.Seq(k))
		} else {
			perms = [][]int{hx.Seq(k), hx.Rev(hx.Seq(k))}
			for i := 0; i < 4; i++ {
				perms = append(perms, rng.Perm(hx.Seq(k)))
			}
		}
		for pi, p := range perms {
			tampers := []string{"none"}
			if pi%6 == 0 || k == 2 {
				tampers = []string{"none", "replace", "duplicate", "swap", "scale", "G", "H", "input", "proofblocks", "name", "sumpair"}
			}
			for _, tm := range tampers {
				out = append(out, hx.Scenario{Name: "pair", Cfg: fmt.Sprintf("k=%d pi=%v tamper=%s", k, p, tm), Run: func(x *hx.Ctx) { pairCase(x, k, p, tm) }})
			}
		}
		out = append(out, hx.Scenario{Name: "pair-lengths", Cfg: fmt.Sprintf("k=%d", k), Run: func(x *hx.Ctx) { pairLengths(x, k) }})
		out = append(out, hx.Scenario{Name: "pair-api", Cfg: fmt.Sprintf("k=%d", k), Run: func(x *hx.Ctx) { pairAPI(x, k) }})
		if k <= 4 {
			for _, bind := range []string{"none", "X", "Y"} {
				out = append(out, hx.Scenario{Name: "pair-forger-linear", Cfg: fmt.Sprintf("k=%d bind=%s", k, bind), Run: func(x *hx.Ctx) { forgerLinear(x, k, bind) }})
			}
		}
		if k <= 4 {
			for p := 0; p < k; p++ {
				for q := p + 1; q < k; q++ {
					out = append(out, hx.Scenario{Name: "pair-forger-challenge-pair", Cfg: fmt.Sprintf("k=%d rho=%d,%d", k, p, q), Run: func(x *hx.Ctx) { forgerChallengePair(x, k, p, q) }})
				}
			}
		}
		if k <= 4 {
			for j := 0; j < k; j++ {
				out = append(out, hx.Scenario{Name: "pair-forger-scaled-slot", Cfg: fmt.Sprintf("k=%d slot=%d", k, j), Run: func(x *hx.Ctx) { forgerScaledSlot(x, k, j) }})
			}
		}
		for pi, p := range perms {
			if pi%3 != 0 && k > 3 {
				continue
			}
			for _, tm := range []string{"none", "notperm", "gamma"} {
				out = append(out, hx.Scenario{Name: "simple", Cfg: fmt.Sprintf("k=%d pi=%v tamper=%s", k, p, tm), Run: func(x *hx.Ctx) { simpleCase(x, k, p, tm) }})
			}
		}
	}
	for _, tm := range []string{"none", "replace", "sum", "swapXY", "G", "proofblocks", "same"} {
		out = append(out, hx.Scenario{Name: "biffle", Cfg: "tamper=" + tm, Run: func(x *hx.Ctx) { biffleCase(x, tm) }})
	}
	maxNQ := 3
	for nq := 1; nq <= maxNQ; nq++ {
		for k := 2; k <= 3; k++ {
			for _, tm := range []string{"none", "replace-one-seq", "other-e", "swap-seqs"} {
				out = append(out, hx.Scenario{Name: "sequences", Cfg: fmt.Sprintf("NQ=%d k=%d tamper=%s", nq, k, tm), Run: func(x *hx.Ctx) { seqCase(x, nq, k, tm) }})
			}
		}
	}
	return out
}

type inst struct {
	s          hx.Suite
	G, H       kyber.Point
	X, Y       []kyber.Point
	beta       []kyber.Scalar
	Xbar, Ybar []kyber.Point
}

func mkInst(x *hx.Ctx, k int, pi []int) *inst {
	s := x.S
	r := s.RandomStream()
	in := &inst{s: s, G: s.Point().Base(), H: s.Point().Mul(s.Scalar().Pick(r), nil)}
	for i := 0; i < k; i++ {
		in.X = append(in.X, s.Point().Pick(r)) // arbitrary ciphertexts: unknown discrete logs
		in.Y = append(in.Y, s.Point().Pick(r))
		in.beta = append(in.beta, s.Scalar().Pick(r))
	}
	in.Xbar = make([]kyber.Point, k)
	in.Ybar = make([]kyber.Point, k)
	for i := 0; i < k; i++ {
		in.Xbar[i] = s.Point().Add(s.Point().Mul(in.beta[pi[i]], in.G), in.X[pi[i]])
		in.Ybar[i] = s.Point().Add(s.Point().Mul(in.beta[pi[i]], in.H), in.Y[pi[i]])
	}
	return in
}

func cp(a []kyber.Point) []kyber.Point { return append([]kyber.Point{}, a...) }

func pairCase(x *hx.Ctx, k int, pi []int, tamper string) {
	in := mkInst(x, k, pi)
	s := in.s
	ps := shuffle.PairShuffle{}
	ps.Init(s, k)
	prover := func(ctx proof.ProverContext) error {
		return ps.Prove(pi, in.G, in.H, in.beta, in.X, in.Y, s.RandomStream(), ctx)
	}
	prf, err := proof.HashProve(s, "PairShuffle", prover)
	if !x.NoErr("HashProve", err) {
		return
	}
	verify := func(name string, G, H kyber.Point, X, Y, Xb, Yb []kyber.Point, p []byte) error {
		return proof.HashVerify(s, name, shuffle.Verifier(s, G, H, X, Y, Xb, Yb), p)
	}
	x.NoErr("honest shuffle verifies", verify("PairShuffle", in.G, in.H, in.X, in.Y, in.Xbar, in.Ybar, prf))
	B := s.Point().Base()
	switch tamper {
	case "replace":
		for i := 0; i < k; i++ {
			Xb, Yb := cp(in.Xbar), cp(in.Ybar)
			Xb[i] = s.Point().Add(Xb[i], B)
			x.Err(fmt.Sprintf("Xbar[%d] replaced", i), verify("PairShuffle", in.G, in.H, in.X, in.Y, Xb, in.Ybar, prf))
			Yb[i] = s.Point().Add(Yb[i], B)
			x.Err(fmt.Sprintf("Ybar[%d] replaced", i), verify("PairShuffle", in.G, in.H, in.X, in.Y, in.Xbar, Yb, prf))
			Xb[i], Yb[i] = s.Point().Pick(s.RandomStream()), s.Point().Pick(s.RandomStream())
			x.Err(fmt.Sprintf("output pair %d replaced by a fresh ciphertext", i), verify("PairShuffle", in.G, in.H, in.X, in.Y, Xb, Yb, prf))
		}
	case "duplicate":
		Xb, Yb := cp(in.Xbar), cp(in.Ybar)
		Xb[1], Yb[1] = Xb[0], Yb[0]
		x.Err("output 1 duplicates output 0", verify("PairShuffle", in.G, in.H, in.X, in.Y, Xb, Yb, prf))
	case "swap":
		Xb, Yb := cp(in.Xbar), cp(in.Ybar)
		Xb[0], Xb[1] = Xb[1], Xb[0]
		Yb[0], Yb[1] = Yb[1], Yb[0]
		x.Err("outputs swapped without re-proof", verify("PairShuffle", in.G, in.H, in.X, in.Y, Xb, Yb, prf))
		Xb = cp(in.Xbar)
		Xb[0], Xb[1] = Xb[1], Xb[0]
		x.Err("only the X components swapped", verify("PairShuffle", in.G, in.H, in.X, in.Y, Xb, in.Ybar, prf))
	case "scale":
		two := s.Scalar().SetInt64(2)
		Xb, Yb := cp(in.Xbar), cp(in.Ybar)
		for i := range Xb {
			Xb[i], Yb[i] = s.Point().Mul(two, Xb[i]), s.Point().Mul(two, Yb[i])
		}
		x.Err("all outputs doubled", verify("PairShuffle", in.G, in.H, in.X, in.Y, Xb, Yb, prf))
	case "sumpair":
		Xb, Yb := cp(in.Xbar), cp(in.Ybar)
		Xb[0], Yb[0] = s.Point().Add(Xb[0], Xb[1]), s.Point().Add(Yb[0], Yb[1])
		x.Err("output 0 replaced by the sum of outputs 0 and 1 (honest proof)", verify("PairShuffle", in.G, in.H, in.X, in.Y, Xb, Yb, prf))
	case "G":
		x.Err("generator altered", verify("PairShuffle", s.Point().Add(in.G, in.H), in.H, in.X, in.Y, in.Xbar, in.Ybar, prf))
	case "H":
		x.Err("public key altered", verify("PairShuffle", in.G, s.Point().Add(in.H, B), in.X, in.Y, in.Xbar, in.Ybar, prf))
	case "input":
		for i := 0; i < k; i++ {
			X2, Y2 := cp(in.X), cp(in.Y)
			X2[i] = s.Point().Add(X2[i], B)
			x.Err(fmt.Sprintf("input X[%d] altered", i), verify("PairShuffle", in.G, in.H, X2, in.Y, in.Xbar, in.Ybar, prf))
			Y2[i] = s.Point().Add(Y2[i], B)
			x.Err(fmt.Sprintf("input Y[%d] altered", i), verify("PairShuffle", in.G, in.H, in.X, Y2, in.Xbar, in.Ybar, prf))
		}
		X2, Y2 := cp(in.X), cp(in.Y)
		X2[0], X2[1] = X2[1], X2[0]
		Y2[0], Y2[1] = Y2[1], Y2[0]
		// a reordered input list is still the same multiset: the proof is position dependent, record only
		x.Outcome("inputs reordered accepted", verify("PairShuffle", in.G, in.H, X2, Y2, in.Xbar, in.Ybar, prf) == nil)
	case "name":
		x.Err("other protocol name", verify("PairShufflf", in.G, in.H, in.X, in.Y, in.Xbar, in.Ybar, prf))
	case "proofblocks":
		fs, _ := s.Scalar().Pick(s.RandomStream()).MarshalBinary()
		fp, _ := s.Point().Pick(s.RandomStream()).MarshalBinary()
		x.Require("proof is a sequence of 32-byte elements", len(prf)%32 == 0)
		accepted := 0
		for off := 0; off+32 <= len(prf); off += 32 {
			for _, repl := range [][]byte{fs, fp} {
				m := append([]byte{}, prf...)
				copy(m[off:], repl)
				if !x.Err(fmt.Sprintf("proof element %d replaced", off/32), verify("PairShuffle", in.G, in.H, in.X, in.Y, in.Xbar, in.Ybar, m)) {
					accepted++
				}
			}
		}
		// every element of the transcript (incl. A, C, U of the first prover message, which Neff's
		// protocol binds through the embedded simple shuffle) must be bound by the verifier
		x.Require("no unbound proof elements", accepted == 0, accepted)
		x.Err("truncated proof", verify("PairShuffle", in.G, in.H, in.X, in.Y, in.Xbar, in.Ybar, prf[:len(prf)-32]))
	}
}

func pairLengths(x *hx.Ctx, k int) {
	pi := hx.Seq(k)
	in := mkInst(x, k, pi)
	s := in.s
	ps := shuffle.PairShuffle{}
	ps.Init(s, k)
	prf, err := proof.HashProve(s, "PairShuffle", func(ctx proof.ProverContext) error {
		return ps.Prove(pi, in.G, in.H, in.beta, in.X, in.Y, s.RandomStream(), ctx)
	})
	if !x.NoErr("HashProve", err) {
		return
	}
	// an output list that drops or adds a ciphertext must be rejected (not crash the verifier)
	x.Err("output list with one ciphertext dropped", proof.HashVerify(s, "PairShuffle", shuffle.Verifier(s, in.G, in.H, in.X, in.Y, in.Xbar[:k-1], in.Ybar[:k-1]), prf))
	x.Err("output list with one ciphertext added", proof.HashVerify(s, "PairShuffle", shuffle.Verifier(s, in.G, in.H, in.X, in.Y, append(cp(in.Xbar), in.Xbar[0]), append(cp(in.Ybar), in.Ybar[0])), prf))
	x.Err("Ybar shorter than Xbar", proof.HashVerify(s, "PairShuffle", shuffle.Verifier(s, in.G, in.H, in.X, in.Y, in.Xbar, in.Ybar[:k-1]), prf))
}

// the public convenience API: shuffle.Shuffle picks permutation and re-encryption factors itself
func pairAPI(x *hx.Ctx, k int) {
	s := x.S
	r := s.RandomStream()
	G := s.Point().Base()
	H := s.Point().Mul(s.Scalar().Pick(r), nil)
	var X, Y []kyber.Point
	for i := 0; i < k; i++ {
		X, Y = append(X, s.Point().Pick(r)), append(Y, s.Point().Pick(r))
	}
	Xc, Yc := cp(X), cp(Y)
	X0 := make([]kyber.Point, k)
	Y0 := make([]kyber.Point, k)
	for i := range X {
		X0[i], Y0[i] = X[i].Clone(), Y[i].Clone()
	}
	Xb, Yb, prover := shuffle.Shuffle(s, G, H, X, Y, r)
	prf, err := proof.HashProve(s, "PairShuffle", prover)
	x.NoErr("HashProve", err)
	okIn := true
	for i := range X {
		okIn = okIn && X[i] == Xc[i] && Y[i] == Yc[i] && X[i].Equal(X0[i]) && Y[i].Equal(Y0[i])
	}
	x.Require("Shuffle and its prover leave the input lists unchanged (same objects, same values)", okIn)
	x.NoErr("shuffle.Shuffle output verifies", proof.HashVerify(s, "PairShuffle", shuffle.Verifier(s, G, H, X, Y, Xb, Yb), prf))
	Xb[0] = s.Point().Add(Xb[0], G)
	x.Err("tampered output", proof.HashVerify(s, "PairShuffle", shuffle.Verifier(s, G, H, X, Y, Xb, Yb), prf))
}

// transcript structs with the field layout of shuffle's unexported ega1..ega5 (ctx.Put encodes by reflection)
type fEga1 struct {
	Gamma            kyber.Point
	A, C, U, W       []kyber.Point
	Lambda1, Lambda2 kyber.Point
}
type fEga2 struct{ Zrho []kyber.Scalar }
type fEga3 struct{ D []kyber.Point }
type fEga4 struct{ Zlambda kyber.Scalar }
type fEga5 struct {
	Zsigma []kyber.Scalar
	Ztau   kyber.Scalar
}

// rewriteCtx lets the honest prover run and rewrites one of its messages on the way out (a cheating prover that follows
// the protocol except for one response).
type rewriteCtx struct {
	proof.ProverContext
	edit func(msg any)
}

func (r *rewriteCtx) Put(msg any) error {
	r.edit(msg)
	return r.ProverContext.Put(msg)
}

// forgerChallengePair: a cheating prover that follows the protocol for an honest shuffle (rotation by one) except that it
// commits to the same u for the indices p and q and shifts Lambda1/Lambda2 by w_i * d_i, where d moves a plaintext amount
// D from the output slot holding input q to the one holding input p (a zero-sum perturbation: the claimed output is not a
// re-encryption of a permutation of the input). Equations (31)/(32) then pick up the term (rho_p - rho_q) * D, which the
// prover cannot know when it sends Lambda: the forgery is accepted iff the verifier's challenges rho_p and rho_q coincide.
// Soundness of the pair shuffle rests on the independence of the challenges: must be rejected for every pair.
func forgerChallengePair(x *hx.Ctx, k, p, q int) {
	pi := make([]int, k)
	piinv := make([]int, k)
	for i := range pi {
		pi[i] = (i + 1) % k
	}
	for i := range pi {
		piinv[pi[i]] = i
	}
	in := mkInst(x, k, pi)
	s := in.s
	G, H, X, Y, beta := in.G, in.H, in.X, in.Y, in.beta
	D := s.Point().Mul(s.Scalar().Pick(s.RandomStream()), nil)
	dY := make([]kyber.Point, k)
	for i := range dY {
		dY[i] = s.Point().Null()
	}
	dY[piinv[p]] = D.Clone()
	dY[piinv[q]] = s.Point().Neg(D)
	forger := func(ctx proof.ProverContext) error {
		u := make([]kyber.Scalar, k)
		w := make([]kyber.Scalar, k)
		a := make([]kyber.Scalar, k)
		var tau0, gamma kyber.Scalar
		if err := ctx.PriRand(u, w, a, &tau0, &gamma); err != nil {
			return err
		}
		u[q] = u[p]
		z := s.Scalar()
		p1 := &fEga1{Gamma: s.Point().Mul(gamma, G), A: make([]kyber.Point, k), C: make([]kyber.Point, k), U: make([]kyber.Point, k), W: make([]kyber.Point, k), Lambda1: s.Point().Null(), Lambda2: s.Point().Null()}
		wbetasum := s.Scalar().Set(tau0)
		for i := 0; i < k; i++ {
			p1.A[i] = s.Point().Mul(a[i], G)
			p1.C[i] = s.Point().Mul(s.Scalar().Mul(gamma, a[pi[i]]), G)
			p1.U[i] = s.Point().Mul(u[i], G)
			p1.W[i] = s.Point().Mul(s.Scalar().Mul(gamma, w[i]), G)
			wbetasum.Add(wbetasum, s.Scalar().Mul(w[i], beta[pi[i]]))
			wu := s.Scalar().Sub(w[piinv[i]], u[i])
			p1.Lambda1.Add(p1.Lambda1, s.Point().Mul(wu, X[i]))
			p1.Lambda2.Add(p1.Lambda2, s.Point().Mul(wu, Y[i]))
			p1.Lambda2.Add(p1.Lambda2, s.Point().Mul(w[i], dY[i])) // the cheat
		}
		p1.Lambda1.Add(p1.Lambda1, s.Point().Mul(wbetasum, G))
		p1.Lambda2.Add(p1.Lambda2, s.Point().Mul(wbetasum, H))
		if err := ctx.Put(p1); err != nil {
			return err
		}
		// the challenges are read into the library's own message objects (what a PairShuffle initialised by Init sees)
		var lib shuffle.PairShuffle
		lib.Init(s, k)
		lv2, lv4 := lib.VerifChallengeMessages()
		if err := ctx.PubRand(lv2); err != nil {
			return err
		}
		rho := reflect.ValueOf(lv2).Elem().FieldByName("Zrho").Interface().([]kyber.Scalar)
		b := make([]kyber.Scalar, k)
		for i := range b {
			b[i] = s.Scalar().Sub(rho[i], u[i])
		}
		p3 := &fEga3{D: make([]kyber.Point, k)}
		for i := range b {
			p3.D[i] = s.Point().Mul(s.Scalar().Mul(gamma, b[pi[i]]), G)
		}
		if err := ctx.Put(p3); err != nil {
			return err
		}
		if err := ctx.PubRand(lv4); err != nil {
			return err
		}
		lambda := reflect.ValueOf(lv4).Elem().FieldByName("Zlambda").Interface().(kyber.Scalar)
		r := make([]kyber.Scalar, k)
		for i := range r {
			r[i] = s.Scalar().Add(a[i], z.Mul(lambda, b[i]))
		}
		sv := make([]kyber.Scalar, k)
		for i := range sv {
			sv[i] = s.Scalar().Mul(gamma, r[pi[i]])
		}
		p5 := &fEga5{Zsigma: make([]kyber.Scalar, k), Ztau: s.Scalar().Neg(tau0)}
		for i := 0; i < k; i++ {
			p5.Zsigma[i] = s.Scalar().Add(w[i], b[pi[i]])
			p5.Ztau.Add(p5.Ztau, s.Scalar().Mul(b[i], beta[i]))
		}
		if err := ctx.Put(p5); err != nil {
			return err
		}
		var ss shuffle.SimpleShuffle
		ss.Init(s, k)
		return ss.Prove(G, gamma, r, sv, s.RandomStream(), ctx)
	}
	// control: the same prover without the perturbation is an honest prover
	prf, err := proof.HashProve(s, "PairShuffle", forger)
	if !x.NoErr("HashProve (cheating prover)", err) {
		return
	}
	Yb := cp(in.Ybar)
	for i := range Yb {
		Yb[i] = s.Point().Add(Yb[i], dY[i])
	}
	x.Err(fmt.Sprintf("plaintext amount moved between the outputs of inputs %d and %d, prover betting on rho_%d = rho_%d", p, q, p, q), proof.HashVerify(s, "PairShuffle", shuffle.Verifier(s, G, H, X, Y, in.Xbar, Yb), prf))
}

// forgerScaledSlot: the claimed output has slot j multiplied by a scalar c (not a re-encryption of any input) and the
// response sigma_j of the honest transcript is divided by c, so that the aggregate equations (34), (35) still balance;
// only the per-index equation sigma_i * Gamma == W_i + D_i exposes it. Must be rejected for every slot.
func forgerScaledSlot(x *hx.Ctx, k, j int) {
	pi := hx.Seq(k)
	in := mkInst(x, k, pi)
	s := in.s
	c := s.Scalar().Pick(s.RandomStream())
	ps := shuffle.PairShuffle{}
	ps.Init(s, k)
	prover := func(ctx proof.ProverContext) error {
		rw := &rewriteCtx{ProverContext: ctx, edit: func(msg any) {
			v := reflect.ValueOf(msg)
			if v.Kind() != reflect.Ptr || v.Elem().Kind() != reflect.Struct {
				return
			}
			f := v.Elem().FieldByName("Zsigma")
			if !f.IsValid() || f.Len() != k {
				return
			}
			sig := f.Index(j).Interface().(kyber.Scalar)
			f.Index(j).Set(reflect.ValueOf(s.Scalar().Div(sig, c)))
		}}
		return ps.Prove(pi, in.G, in.H, in.beta, in.X, in.Y, s.RandomStream(), rw)
	}
	prf, err := proof.HashProve(s, "PairShuffle", prover)
	if !x.NoErr("HashProve (cheating prover)", err) {
		return
	}
	Xb, Yb := cp(in.Xbar), cp(in.Ybar)
	Xb[j], Yb[j] = s.Point().Mul(c, Xb[j]), s.Point().Mul(c, Yb[j])
	x.Err(fmt.Sprintf("output slot %d scaled by c with sigma_%d divided by c", j, j), proof.HashVerify(s, "PairShuffle", shuffle.Verifier(s, in.G, in.H, in.X, in.Y, Xb, Yb), prf))
}

// forgerLinear: the output is NOT a permutation of re-encryptions: Xbar_0 = X_0 + X_1 + b_0 G, Xbar_i = X_i + b_i G (i>0).
// A prover outside the package builds a transcript that satisfies equations (33)-(35) and attaches an
// honest simple-shuffle proof about unrelated vectors (DESIGN.md Appendix A).
// bind: which side of the embedded simple shuffle the forger ties to the transcript ("none", "X": R_i = A_i + lambda B_i only,
// "Y": S_i = C_i + lambda D_i only). Every variant must be rejected.
func forgerLinear(x *hx.Ctx, k int, bind string) {
	s := x.S
	r := s.RandomStream()
	G := s.Point().Base()
	H := s.Point().Mul(s.Scalar().Pick(r), nil)
	X := make([]kyber.Point, k)
	Y := make([]kyber.Point, k)
	beta := make([]kyber.Scalar, k)
	for i := range X {
		X[i], Y[i], beta[i] = s.Point().Pick(r), s.Point().Pick(r), s.Scalar().Pick(r)
	}
	Xb := make([]kyber.Point, k)
	Yb := make([]kyber.Point, k)
	for i := 0; i < k; i++ {
		Xb[i] = s.Point().Add(X[i], s.Point().Mul(beta[i], G))
		Yb[i] = s.Point().Add(Y[i], s.Point().Mul(beta[i], H))
	}
	Xb[0] = s.Point().Add(Xb[0], X[1])
	Yb[0] = s.Point().Add(Yb[0], Y[1])
	forger := func(ctx proof.ProverContext) error {
		ws := make([]kyber.Scalar, k)
		as := make([]kyber.Scalar, k)
		us := make([]kyber.Scalar, k)
		cs := make([]kyber.Scalar, k)
		var gamma, lam1 kyber.Scalar
		if err := ctx.PriRand(ws, as, us, cs, &gamma, &lam1); err != nil {
			return err
		}
		p1 := &fEga1{Gamma: s.Point().Mul(gamma, G), A: make([]kyber.Point, k), C: make([]kyber.Point, k), U: make([]kyber.Point, k), W: make([]kyber.Point, k)}
		for i := 0; i < k; i++ {
			p1.A[i], p1.C[i], p1.U[i] = s.Point().Mul(as[i], G), s.Point().Mul(cs[i], G), s.Point().Mul(us[i], G)
			if bind == "none" {
				p1.A[i], p1.C[i], p1.U[i] = s.Point().Pick(r), s.Point().Pick(r), s.Point().Pick(r)
			}
			p1.W[i] = s.Point().Mul(s.Scalar().Mul(gamma, ws[i]), G)
		}
		p1.Lambda1, p1.Lambda2 = s.Point().Mul(lam1, G), s.Point().Mul(lam1, H)
		if err := ctx.Put(p1); err != nil {
			return err
		}
		v2 := &fEga2{Zrho: make([]kyber.Scalar, k)}
		if err := ctx.PubRand(v2); err != nil {
			return err
		}
		sigma := make([]kyber.Scalar, k)
		for i := range sigma {
			sigma[i] = v2.Zrho[i].Clone()
		}
		sigma[1] = s.Scalar().Sub(v2.Zrho[1], v2.Zrho[0]) // sigma = M^{-T} rho for M = I + E_01
		p3 := &fEga3{D: make([]kyber.Point, k)}
		ds := make([]kyber.Scalar, k)
		for i := 0; i < k; i++ {
			ds[i] = s.Scalar().Mul(gamma, s.Scalar().Sub(sigma[i], ws[i]))
			p3.D[i] = s.Point().Mul(ds[i], G)
		}
		if err := ctx.Put(p3); err != nil {
			return err
		}
		v4 := &fEga4{}
		if err := ctx.PubRand(v4); err != nil {
			return err
		}
		tau := s.Scalar().Neg(lam1)
		for i := 0; i < k; i++ {
			tau.Add(tau, s.Scalar().Mul(sigma[i], beta[i]))
		}
		if err := ctx.Put(&fEga5{Zsigma: sigma, Ztau: tau}); err != nil {
			return err
		}
		// vectors of the embedded simple shuffle: y must be gamma * (a permutation of x)
		rr := make([]kyber.Scalar, k)
		sv := make([]kyber.Scalar, k)
		switch bind {
		case "X":
			// x_i = a_i + lambda*(rho_i - u_i): X_i = A_i + lambda*B_i holds, the Y side is unrelated to C, D
			for i := range rr {
				rr[i] = s.Scalar().Add(as[i], s.Scalar().Mul(v4.Zlambda, s.Scalar().Sub(v2.Zrho[i], us[i])))
			}
			for i := range sv {
				sv[i] = s.Scalar().Mul(gamma, rr[(i+1)%k])
			}
		case "Y":
			// y_i = c_i + lambda*d_i: Y_i = C_i + lambda*D_i holds, the X side is unrelated to A, B
			for i := range sv {
				sv[i] = s.Scalar().Add(cs[i], s.Scalar().Mul(v4.Zlambda, ds[i]))
			}
			ginv := s.Scalar().Inv(gamma)
			for i := range sv {
				rr[(i+1)%k] = s.Scalar().Mul(ginv, sv[i])
			}
		default:
			for i := range rr {
				rr[i] = s.Scalar().Pick(r)
			}
			for i := range sv {
				sv[i] = s.Scalar().Mul(gamma, rr[(i+1)%k])
			}
		}
		var ss shuffle.SimpleShuffle
		ss.Init(s, k)
		return ss.Prove(G, gamma, rr, sv, r, ctx)
	}
	prf, err := proof.HashProve(s, "PairShuffle", forger)
	if !x.NoErr("forger HashProve", err) {
		return
	}
	x.Err("forged proof for a non-permutation output (X0+X1 merged into slot 0) is rejected", proof.HashVerify(s, "PairShuffle", shuffle.Verifier(s, G, H, X, Y, Xb, Yb), prf))
}

func simpleCase(x *hx.Ctx, k int, pi []int, tamper string) {
	s := x.S
	r := s.RandomStream()
	G := s.Point().Pick(r)
	gamma := s.Scalar().Pick(r)
	xs := make([]kyber.Scalar, k)
	ys := make([]kyber.Scalar, k)
	for i := range xs {
		xs[i] = s.Scalar().Pick(r)
	}
	for i := range ys {
		ys[i] = s.Scalar().Mul(gamma, xs[pi[i]])
	}
	Gamma := s.Point().Mul(gamma, G)
	switch tamper {
	case "notperm":
		ys[0] = s.Scalar().Mul(gamma, s.Scalar().Add(xs[pi[0]], s.Scalar().One()))
	case "gamma":
		Gamma = s.Point().Add(Gamma, G)
	}
	var ss shuffle.SimpleShuffle
	ss.Init(s, k)
	prf, err := proof.HashProve(s, "Simple", func(ctx proof.ProverContext) error { return ss.Prove(G, gamma, xs, ys, r, ctx) })
	if !x.NoErr("HashProve", err) {
		return
	}
	var sv shuffle.SimpleShuffle
	sv.Init(s, k)
	err = proof.HashVerify(s, "Simple", func(ctx proof.VerifierContext) error { return sv.Verify(G, Gamma, ctx) }, prf)
	if tamper == "none" {
		x.NoErr("simple shuffle verifies", err)
	} else {
		x.Err("simple shuffle with "+tamper+" rejected", err)
	}
}

func biffleCase(x *hx.Ctx, tamper string) {
	s := x.S
	r := s.RandomStream()
	G := s.Point().Base()
	H := s.Point().Mul(s.Scalar().Pick(r), nil)
	var X, Y [2]kyber.Point
	for i := range X {
		X[i], Y[i] = s.Point().Pick(r), s.Point().Pick(r)
	}
	Xb, Yb, prover := shuffle.Biffle(s, G, H, X, Y, r)
	prf, err := proof.HashProve(s, "Biffle", prover)
	if !x.NoErr("HashProve", err) {
		return
	}
	v := func(G kyber.Point, Xb, Yb [2]kyber.Point, p []byte) error {
		return proof.HashVerify(s, "Biffle", shuffle.BiffleVerifier(s, G, H, X, Y, Xb, Yb), p)
	}
	x.NoErr("biffle verifies", v(G, Xb, Yb, prf))
	switch tamper {
	case "replace":
		for i := 0; i < 2; i++ {
			a, b := Xb, Yb
			a[i] = s.Point().Add(a[i], G)
			x.Err(fmt.Sprintf("Xbar[%d] replaced", i), v(G, a, Yb, prf))
			b[i] = s.Point().Add(b[i], G)
			x.Err(fmt.Sprintf("Ybar[%d] replaced", i), v(G, Xb, b, prf))
		}
	case "sum":
		a, b := Xb, Yb
		a[0], b[0] = s.Point().Add(Xb[0], Xb[1]), s.Point().Add(Yb[0], Yb[1])
		x.Err("output 0 = sum of both", v(G, a, b, prf))
	case "same":
		a, b := Xb, Yb
		a[1], b[1] = a[0], b[0]
		x.Err("duplicate output", v(G, a, b, prf))
	case "swapXY":
		a := Xb
		a[0], a[1] = a[1], a[0]
		x.Err("only X components swapped", v(G, a, Yb, prf))
	case "G":
		x.Err("generator altered", v(s.Point().Add(G, H), Xb, Yb, prf))
	case "proofblocks":
		fs, _ := s.Scalar().Pick(r).MarshalBinary()
		fp, _ := s.Point().Pick(r).MarshalBinary()
		for off := 0; off+32 <= len(prf); off += 32 {
			for vi, repl := range [][]byte{fs, fp} {
				m := append([]byte{}, prf...)
				copy(m[off:], repl)
				x.Err(fmt.Sprintf("element %d replaced (%d)", off/32, vi), v(G, Xb, Yb, m))
			}
		}
	}
}

func seqCase(x *hx.Ctx, nq, k int, tamper string) {
	s := x.S
	r := s.RandomStream()
	G := s.Point().Base()
	H := s.Point().Mul(s.Scalar().Pick(r), nil)
	XX := make([][]kyber.Point, nq)
	YY := make([][]kyber.Point, nq)
	for j := 0; j < nq; j++ {
		for i := 0; i < k; i++ {
			XX[j] = append(XX[j], s.Point().Pick(r))
			YY[j] = append(YY[j], s.Point().Pick(r))
		}
	}
	xb, yb, getProver := shuffle.SequencesShuffle(s, G, H, XX, YY, r)
	e := make([]kyber.Scalar, nq)
	for j := range e {
		e[j] = s.Scalar().Pick(s.XOF([]byte{byte(j), 'e'}))
	}
	pr, err := getProver(e)
	if !x.NoErr("getProver", err) {
		return
	}
	prf, err := proof.HashProve(s, "Seq", pr)
	if !x.NoErr("HashProve", err) {
		return
	}
	ver := func(xb, yb [][]kyber.Point, e []kyber.Scalar) error {
		XUp, YUp, XbUp, YbUp := shuffle.GetSequenceVerifiable(s, XX, YY, xb, yb, e)
		return proof.HashVerify(s, "Seq", shuffle.Verifier(s, G, H, XUp, YUp, XbUp, YbUp), prf)
	}
	x.NoErr("sequence shuffle verifies", ver(xb, yb, e))
	// every output row is a re-encryption of the same permutation of its input row
	switch tamper {
	case "replace-one-seq":
		for j := 0; j < nq; j++ {
			x2 := make([][]kyber.Point, nq)
			for q := range x2 {
				x2[q] = cp(xb[q])
			}
			x2[j][0] = s.Point().Add(x2[j][0], G)
			x.Err(fmt.Sprintf("output of sequence %d altered", j), ver(x2, yb, e))
		}
	case "other-e":
		e2 := make([]kyber.Scalar, nq)
		for j := range e2 {
			e2[j] = s.Scalar().Pick(s.XOF([]byte{byte(j), 'f'}))
		}
		x.Err("verified with other random coefficients than proven", ver(xb, yb, e2))
	case "swap-seqs":
		if nq >= 2 {
			x2 := append([][]kyber.Point{}, xb...)
			y2 := append([][]kyber.Point{}, yb...)
			x2[0], x2[1] = x2[1], x2[0]
			y2[0], y2[1] = y2[1], y2[0]
			x.Err("two output sequences exchanged", ver(x2, y2, e))
		}
	}
	_, err = getProver(e[:nq-1])
	x.Err("getProver with wrong number of coefficients", err)
}
