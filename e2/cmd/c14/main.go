// C14 — sigma-protocol proofs: real proof.Rep/And/Or trees, HashProve/HashVerify and the
// deniable clique protocol over symbolic scalars and points.
package main

import (
	"time"
	"fmt"
	"strings"

	"go.dedis.ch/kyber/v4"
	"go.dedis.ch/kyber/v4/proof"

	"verif/e2/hx"
)

func main() { hx.Main("C14", gen) }

// branch kinds of the predicate menu (suffix i makes names unique per branch)
var kinds = []string{"A", "B", "C", "D", "E", "F"}

type tree struct {
	branches []string // kinds; one branch = no Or
	truth    []bool   // which branches the prover can satisfy
	choice   int
}

func (t tree) String() string {
	tr := make([]string, len(t.truth))
	for i, b := range t.truth {
		tr[i] = map[bool]string{true: "T", false: "F"}[b]
	}
	return fmt.Sprintf("branches=%s truth=%s choice=%d", strings.Join(t.branches, ""), strings.Join(tr, ""), t.choice)
}

func gen(tier string, seed int64) []hx.Scenario {
	rng := hx.NewRng(seed)
	var trees []tree
	for _, k := range kinds {
		trees = append(trees, tree{[]string{k}, []bool{true}, 0})
	}
	// Or of 2 branches: every ordered pair of kinds, every truth pattern in which the chosen branch is true
	for _, a := range kinds {
		for _, b := range kinds {
			if tier != "thorough" && rng.Intn(3) != 0 && a != b {
				continue
			}
			for ch := 0; ch < 2; ch++ {
				for _, other := range []bool{true, false} {
					tr := []bool{other, other}
					tr[ch] = true
					trees = append(trees, tree{[]string{a, b}, tr, ch})
				}
			}
		}
	}
	// Or of 3 (4 in thorough) branches: seeded sample
	cnt := 24
	if tier == "thorough" {
		cnt = 120
	}
	for i := 0; i < cnt; i++ {
		nb := 3
		if tier == "thorough" && i%3 == 0 {
			nb = 4
		}
		var bs []string
		var tr []bool
		for j := 0; j < nb; j++ {
			bs = append(bs, kinds[rng.Intn(len(kinds))])
			tr = append(tr, rng.Intn(2) == 0)
		}
		ch := rng.Intn(nb)
		tr[ch] = true
		trees = append(trees, tree{bs, tr, ch})
	}
	var out []hx.Scenario
	for _, t := range trees {
		out = append(out, hx.Scenario{Name: "hashproof", Cfg: t.String(), Run: func(x *hx.Ctx) { hashCase(x, t) }})
	}
	for _, l := range []int{1, 31, 32, 33, 63, 64, 65, 127, 128, 129, 300} {
		out = append(out, hx.Scenario{Name: "protocol-name", Cfg: fmt.Sprintf("len=%d", l), Run: func(x *hx.Ctx) { nameCase(x, l) }})
	}
	for pair := 0; pair < 3; pair++ {
		for order := 0; order < 3; order++ {
			out = append(out, hx.Scenario{Name: "shared-subpredicates", Cfg: fmt.Sprintf("pair=%d order=%d", pair, order), Run: func(x *hx.Ctx) { sharedCase(x, pair, order) }})
		}
	}
	for _, n := range []int{2, 3} {
		for _, liar := range []int{-1, 0, n - 1} {
			if liar >= 0 && n == 2 && liar == 0 && false {
				continue
			}
			out = append(out, hx.Scenario{Name: "deniable", Cfg: fmt.Sprintf("n=%d liar=%d", n, liar), Run: func(x *hx.Ctx) { deniableCase(x, n, liar, "") }})
			if liar < 0 {
				for _, b := range []string{"own-key-empty", "own-key-short", "vector-truncated"} {
					out = append(out, hx.Scenario{Name: "deniable-board", Cfg: fmt.Sprintf("n=%d board=%s", n, b), Run: func(x *hx.Ctx) { deniableCase(x, n, -1, b) }})
				}
			}
		}
	}
	return out
}

type built struct {
	pred   proof.Predicate
	subs   []proof.Predicate
	pts    map[string]kyber.Point
	sec    map[string]kyber.Scalar
	first  map[int]string // a secret name used by branch i
	pnames map[int][]string
}

// build constructs the predicate, public points and secrets. alt=true builds the "other predicate" variant
// (same point names, bases of the first representation swapped).
func build(s hx.Suite, t tree, alt bool) *built {
	r := s.RandomStream()
	b := &built{pts: map[string]kyber.Point{}, sec: map[string]kyber.Scalar{}, first: map[int]string{}, pnames: map[int][]string{}}
	b.pts["B"] = s.Point().Base()
	b.pts["H"] = s.Point().Pick(r)
	B, H := "B", "H"
	for i, k := range t.branches {
		x, y := fmt.Sprintf("x%d", i), fmt.Sprintf("y%d", i)
		P, Q := fmt.Sprintf("P%d", i), fmt.Sprintf("Q%d", i)
		xv, yv := s.Scalar().Pick(r), s.Scalar().Pick(r)
		b.sec[x], b.sec[y] = xv, yv
		b.first[i] = x
		mul := func(sc kyber.Scalar, base string) kyber.Point { return s.Point().Mul(sc, b.pts[base]) }
		b1, b2 := B, H
		if alt && i == 0 {
			b1, b2 = H, B
		}
		var p proof.Predicate
		switch k {
		case "A":
			p = proof.Rep(P, x, b1)
			b.pts[P] = mul(xv, B)
			b.pnames[i] = []string{P}
		case "B":
			p = proof.Rep(P, x, b1, y, b2)
			b.pts[P] = s.Point().Add(mul(xv, B), mul(yv, H))
			b.pnames[i] = []string{P}
		case "C":
			p = proof.And(proof.Rep(P, x, b1), proof.Rep(Q, x, b2))
			b.pts[P], b.pts[Q] = mul(xv, B), mul(xv, H)
			b.pnames[i] = []string{P, Q}
		case "D":
			p = proof.And(proof.Rep(P, x, b1), proof.Rep(Q, y, B, x, H))
			b.pts[P], b.pts[Q] = mul(xv, B), s.Point().Add(mul(yv, B), mul(xv, H))
			b.pnames[i] = []string{P, Q}
		case "E":
			p = proof.And(proof.Rep(P, x, b1), proof.Rep(Q, y, b2))
			b.pts[P], b.pts[Q] = mul(xv, B), mul(yv, H)
			b.pnames[i] = []string{P, Q}
		case "F":
			p = proof.And(proof.Rep(P, x, b1, y, b2), proof.Rep(Q, x, b1), proof.Rep(P, x, b1, y, b2))
			b.pts[P], b.pts[Q] = s.Point().Add(mul(xv, B), mul(yv, H)), mul(xv, B)
			b.pnames[i] = []string{P, Q}
		}
		if !t.truth[i] {
			// false statement: nobody knows a representation
			for _, nm := range b.pnames[i] {
				b.pts[nm] = s.Point().Pick(r)
			}
		}
		b.subs = append(b.subs, p)
	}
	if len(b.subs) == 1 {
		b.pred = b.subs[0]
	} else {
		b.pred = proof.Or(b.subs...)
	}
	return b
}

func hashCase(x *hx.Ctx, t tree) {
	s := x.S
	b := build(s, t, false)
	choice := map[proof.Predicate]int{}
	if len(b.subs) > 1 {
		choice[b.pred] = t.choice
	}
	prf, err := proof.HashProve(s, "C14", b.pred.Prover(s, b.sec, b.pts, choice))
	if !x.NoErr("HashProve", err) {
		return
	}
	x.Require("proof is a sequence of 32-byte elements", len(prf)%32 == 0 && len(prf) > 0, len(prf))
	x.NoErr("HashVerify", proof.HashVerify(s, "C14", b.pred.Verifier(s, b.pts), prf))
	// same statement proven again: fresh commitments, also accepted
	prf2, err := proof.HashProve(s, "C14", b.pred.Prover(s, b.sec, b.pts, choice))
	x.NoErr("HashProve again", err)
	x.NoErr("HashVerify again", proof.HashVerify(s, "C14", b.pred.Verifier(s, b.pts), prf2))
	// --- rejections
	x.Err("other protocol name", proof.HashVerify(s, "C14x", b.pred.Verifier(s, b.pts), prf))
	x.Err("truncated (last element)", proof.HashVerify(s, "C14", b.pred.Verifier(s, b.pts), prf[:len(prf)-32]))
	x.Err("truncated (one byte)", proof.HashVerify(s, "C14", b.pred.Verifier(s, b.pts), prf[:len(prf)-1]))
	x.Err("empty proof", proof.HashVerify(s, "C14", b.pred.Verifier(s, b.pts), nil))
	// every public point of the proven branch replaced
	for _, nm := range append([]string{"B", "H"}, b.pnames[t.choice]...) {
		pts2 := map[string]kyber.Point{}
		for k, v := range b.pts {
			pts2[k] = v
		}
		pts2[nm] = s.Point().Add(pts2[nm], s.Point().Base())
		if nm == "H" && strings.Trim(strings.Join(t.branches, ""), "A") == "" {
			continue // H does not occur in the statement
		}
		x.Err("public point "+nm+" replaced", proof.HashVerify(s, "C14", b.pred.Verifier(s, pts2), prf))
	}
	// another predicate over the same names
	alt := build(s, t, true)
	x.Err("checked against another predicate", proof.HashVerify(s, "C14", alt.pred.Verifier(s, b.pts), prf))
	if len(b.subs) > 1 {
		// branches in another order
		sw := append([]proof.Predicate{}, b.subs...)
		sw[0], sw[len(sw)-1] = sw[len(sw)-1], sw[0]
		if t.branches[0] != t.branches[len(sw)-1] || true {
			x.Err("Or-branches reordered", proof.HashVerify(s, "C14", proof.Or(sw...).Verifier(s, b.pts), prf))
		}
	}
	// every element of the proof replaced by a fresh scalar / point encoding
	fs, _ := s.Scalar().Pick(s.RandomStream()).MarshalBinary()
	fp, _ := s.Point().Pick(s.RandomStream()).MarshalBinary()
	for off := 0; off < len(prf); off += 32 {
		for vi, repl := range [][]byte{fs, fp} {
			m := append([]byte{}, prf...)
			copy(m[off:], repl)
			x.Err(fmt.Sprintf("element %d replaced (%d)", off/32, vi), proof.HashVerify(s, "C14", b.pred.Verifier(s, b.pts), m))
		}
	}
	// splice: first half of one proof, second half of another proof of the same statement
	if len(prf) == len(prf2) && len(prf) >= 64 {
		m := append(append([]byte{}, prf[:len(prf)/64*32]...), prf2[len(prf)/64*32:]...)
		x.Err("two proofs spliced", proof.HashVerify(s, "C14", b.pred.Verifier(s, b.pts), m))
	}
	// the prover's secrets do not satisfy the branch it claims
	bad := map[string]kyber.Scalar{}
	for k, v := range b.sec {
		bad[k] = v
	}
	bad[b.first[t.choice]] = s.Scalar().Add(bad[b.first[t.choice]], s.Scalar().One())
	prfBad, err := proof.HashProve(s, "C14", b.pred.Prover(s, bad, b.pts, choice))
	if err == nil {
		x.Err("proof from secrets that do not satisfy the claimed branch", proof.HashVerify(s, "C14", b.pred.Verifier(s, b.pts), prfBad))
	} else {
		x.Outcome("prover refuses wrong secrets", true)
	}
	// claiming a false branch
	for i, tv := range t.truth {
		if !tv && len(b.subs) > 1 {
			ch2 := map[proof.Predicate]int{b.pred: i}
			p3, err := proof.HashProve(s, "C14", b.pred.Prover(s, b.sec, b.pts, ch2))
			if err == nil {
				x.Err(fmt.Sprintf("claiming false branch %d", i), proof.HashVerify(s, "C14", b.pred.Verifier(s, b.pts), p3))
			}
			break
		}
	}
}

// nameCase: the protocol name is bound as a whole, whatever its length: a proof made under a name of l bytes verifies
// under that name and under no name that differs from it anywhere (last byte, a byte in the middle, one byte more or less).
func nameCase(x *hx.Ctx, l int) {
	s := x.S
	t := tree{[]string{"C", "B"}, []bool{false, true}, 1}
	b := build(s, t, false)
	choice := map[proof.Predicate]int{b.pred: 1}
	name := strings.Repeat("protocol-name-", l/14+1)[:l]
	prf, err := proof.HashProve(s, name, b.pred.Prover(s, b.sec, b.pts, choice))
	if !x.NoErr("HashProve", err) {
		return
	}
	x.NoErr("HashVerify under the same name", proof.HashVerify(s, name, b.pred.Verifier(s, b.pts), prf))
	x.Err("name extended by one byte", proof.HashVerify(s, name+"x", b.pred.Verifier(s, b.pts), prf))
	x.Err("name extended by a long suffix", proof.HashVerify(s, name+strings.Repeat("y", 70), b.pred.Verifier(s, b.pts), prf))
	x.Err("name shortened by one byte", proof.HashVerify(s, name[:l-1], b.pred.Verifier(s, b.pts), prf))
	last := []byte(name)
	last[l-1] ^= 1
	x.Err("last byte of the name altered", proof.HashVerify(s, string(last), b.pred.Verifier(s, b.pts), prf))
	mid := []byte(name)
	mid[l/2] ^= 1
	x.Err("middle byte of the name altered", proof.HashVerify(s, string(mid), b.pred.Verifier(s, b.pts), prf))
	first := []byte(name)
	first[0] ^= 1
	x.Err("first byte of the name altered", proof.HashVerify(s, string(first), b.pred.Verifier(s, b.pts), prf))
}

// sharedCase: predicate objects are values a caller may combine into several trees (the package documents them as
// immutable). The same Rep objects occur in two trees that number their variables differently; provers and verifiers of
// both trees are created and used interleaved in every order of the menu; every proof of a true statement verifies.
func sharedCase(x *hx.Ctx, pair, order int) {
	s := x.S
	r := s.RandomStream()
	pts := map[string]kyber.Point{"B": s.Point().Base(), "H": s.Point().Pick(r)}
	sec := map[string]kyber.Scalar{"x": s.Scalar().Pick(r), "y": s.Scalar().Pick(r), "z": s.Scalar().Pick(r)}
	pts["X"] = s.Point().Mul(sec["x"], pts["B"])
	pts["Y"] = s.Point().Add(s.Point().Mul(sec["y"], pts["B"]), s.Point().Mul(sec["x"], pts["H"]))
	pts["Z"] = s.Point().Mul(sec["z"], pts["H"])
	a := proof.Rep("X", "x", "B")
	b := proof.Rep("Y", "y", "B", "x", "H")
	c := proof.Rep("Z", "z", "H")
	var t1, t2 proof.Predicate
	ch1, ch2 := map[proof.Predicate]int{}, map[proof.Predicate]int{}
	switch pair {
	case 0:
		t1, t2 = proof.And(a, b), b
	case 1:
		t1, t2 = proof.Or(c, proof.And(b, a)), proof.Or(proof.And(a, b), c)
		ch1[t1], ch2[t2] = 1, 0
	case 2:
		t1, t2 = proof.And(b, c, a), proof.And(c, a)
	}
	prove := func(id string, pv proof.Prover) []byte {
		prf, err := proof.HashProve(s, "C14-shared", pv)
		x.NoErr("HashProve "+id, err)
		return prf
	}
	verify := func(id string, v proof.Verifier, prf []byte) {
		if prf != nil {
			x.NoErr("HashVerify "+id, proof.HashVerify(s, "C14-shared", v, prf))
		}
	}
	switch order {
	case 0: // both provers first, then both verifiers
		p1 := t1.Prover(s, sec, pts, ch1)
		p2 := t2.Prover(s, sec, pts, ch2)
		f1 := prove("tree 1 (prover created before the prover of tree 2)", p1)
		f2 := prove("tree 2", p2)
		v1 := t1.Verifier(s, pts)
		v2 := t2.Verifier(s, pts)
		verify("tree 1 (verifier created before the verifier of tree 2)", v1, f1)
		verify("tree 2", v2, f2)
	case 1: // verifier of tree 1 is created first and used last
		v1 := t1.Verifier(s, pts)
		p2 := t2.Prover(s, sec, pts, ch2)
		f2 := prove("tree 2", p2)
		verify("tree 2", t2.Verifier(s, pts), f2)
		f1 := prove("tree 1", t1.Prover(s, sec, pts, ch1))
		verify("tree 1 with the verifier created first", v1, f1)
	case 2: // a proof accepted once is accepted again after the other tree was used
		f1 := prove("tree 1", t1.Prover(s, sec, pts, ch1))
		v1 := t1.Verifier(s, pts)
		verify("tree 1", v1, f1)
		f2 := prove("tree 2", t2.Prover(s, sec, pts, ch2))
		verify("tree 2", t2.Verifier(s, pts), f2)
		verify("tree 1 again, same verifier", v1, f1)
		verify("tree 1 again, fresh verifier", t1.Verifier(s, pts), f1)
	}
}

// ---- deniable clique protocol, lock-step driver
type dnode struct {
	s      hx.Suite
	i      int
	outbox chan []byte
	inbox  chan [][]byte
	errs   []error
	done   bool
}

func (n *dnode) Step(msg []byte) ([][]byte, error) {
	n.outbox <- msg
	return <-n.inbox, nil
}
func (n *dnode) Random() kyber.XOF { return n.s.XOF([]byte(fmt.Sprintf("deniable-seed-%d", n.i))) }

// board: "" honest | "own-key-empty" | "own-key-short" | "vector-truncated": in the round in which the participants reveal
// their challenge keys (every message is exactly the 128-byte key), the board hands participant 0 a vector whose slot 0
// - its OWN key - is emptied / shortened / cut off. Participant 0 must then accept nobody: its own randomness no longer
// enters the challenge, so a colluding prover could know the challenge before committing.
func deniableCase(x *hx.Ctx, n, liar int, board string) {
	s := x.S
	B := s.Point().Base()
	xs := make([]kyber.Scalar, n)
	Xs := make([]kyber.Point, n)
	for i := range xs {
		xs[i] = s.Scalar().Pick(s.RandomStream())
		Xs[i] = s.Point().Mul(xs[i], nil)
	}
	nodes := make([]*dnode, n)
	for i := 0; i < n; i++ {
		nd := &dnode{s: s, i: i, outbox: make(chan []byte), inbox: make(chan [][]byte)}
		nodes[i] = nd
		sec := xs[i]
		if i == liar {
			sec = s.Scalar().Add(sec, s.Scalar().One())
		}
		prover := proof.Rep("X", "x", "B").Prover(s, map[string]kyber.Scalar{"x": sec}, map[string]kyber.Point{"B": B, "X": Xs[i]}, nil)
		vrfs := make([]proof.Verifier, n)
		for j := 0; j < n; j++ {
			if j != i {
				vrfs[j] = proof.Rep("X", "x", "B").Verifier(s, map[string]kyber.Point{"B": B, "X": Xs[j]})
			}
		}
		proto := proof.DeniableProver(s, i, prover, vrfs)
		go func() {
			nd.errs = proto(nd)
			nd.done = true
			nd.outbox <- nil
		}()
	}
	live := append([]*dnode{}, nodes...)
	tampered := false
	for rounds := 0; rounds < 50; rounds++ {
		msgs := make([][]byte, n)
		any := false
		for i, nd := range live {
			if nd == nil {
				continue
			}
			any = true
			if board == "" {
				msgs[i] = <-nd.outbox
			} else {
				// after a board fault a participant may legitimately stop talking (its verifiers wait for ever): give up on it
				select {
				case msgs[i] = <-nd.outbox:
				case <-time.After(3 * time.Second):
					live[i] = nil
					continue
				}
			}
			if nd.done {
				live[i] = nil
			}
		}
		if !any {
			break
		}
		keyRound := board != ""
		for _, m := range msgs {
			if m != nil && len(m) != 128 {
				keyRound = false
			}
		}
		for i, nd := range live {
			if nd == nil {
				continue
			}
			deliver := msgs
			if keyRound { // the same tampered vector goes to everybody: the others see participant 0 as having dropped out, and
				// all derive the same challenge WITHOUT participant 0's randomness
				tampered = true
				deliver = append([][]byte{}, msgs...)
				switch board {
				case "own-key-empty":
					deliver[0] = nil
				case "own-key-short":
					deliver[0] = deliver[0][:127]
				case "vector-truncated":
					if i == 0 {
						deliver = [][]byte{}
					}
				}
				_ = i
			}
			nd.inbox <- deliver
		}
	}
	if board != "" {
		x.Require("the key-reveal round was reached and tampered with", tampered)
		for j := 1; j < n; j++ {
			accepted := nodes[0].done && j < len(nodes[0].errs) && nodes[0].errs[j] == nil
			x.Require(fmt.Sprintf("participant 0, whose own key was withheld by the board, does not accept the proof of %d", j), !accepted)
		}
		return
	}
	for i, nd := range nodes {
		if !x.Require(fmt.Sprintf("participant %d finished", i), nd.done) {
			continue
		}
		for j := 0; j < n; j++ {
			if j == i || j >= len(nd.errs) {
				continue
			}
			if j == liar {
				x.Require(fmt.Sprintf("participant %d rejects the proof of liar %d", i, j), nd.errs[j] != nil)
			} else {
				x.Require(fmt.Sprintf("participant %d accepts the proof of %d", i, j), nd.errs[j] == nil, nd.errs[j])
			}
		}
	}
}
