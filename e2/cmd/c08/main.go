// C08 (E2 part) — Schnorr and anonymous-set ring signatures over symbolic groups.
package main

import (
	"bytes"
	"fmt"

	"go.dedis.ch/kyber/v4"
	"go.dedis.ch/kyber/v4/sign/anon"
	"go.dedis.ch/kyber/v4/sign/schnorr"

	"verif/e2/hx"
)

func main() { hx.Main("C08", gen) }

var msgs = [][]byte{{}, {0}, []byte("hello"), bytes.Repeat([]byte{0xab}, 32), bytes.Repeat([]byte("kyber"), 40)}

func gen(tier string, seed int64) []hx.Scenario {
	var out []hx.Scenario
	for mi := range msgs {
		out = append(out, hx.Scenario{Name: "schnorr", Cfg: fmt.Sprintf("msg#%d", mi), Run: func(x *hx.Ctx) { schnorrCase(x, msgs[mi]) }})
	}
	maxRing := 4
	if tier == "thorough" {
		maxRing = 8
	}
	for n := 1; n <= maxRing; n++ {
		for mine := 0; mine < n; mine++ {
			for _, scope := range []string{"", "scope"} {
				out = append(out, hx.Scenario{Name: "ring", Cfg: fmt.Sprintf("n=%d mine=%d scope=%q", n, mine, scope), Run: func(x *hx.Ctx) { ringCase(x, n, mine, scope) }})
			}
		}
	}
	return out
}

func mutP(s hx.Suite, b []byte) []byte {
	p := s.Point()
	if err := p.UnmarshalBinary(b); err != nil {
		panic(err)
	}
	p.Add(p, s.Point().Base())
	o, _ := p.MarshalBinary()
	return o
}
func mutS(s hx.Suite, b []byte) []byte {
	p := s.Scalar()
	if err := p.UnmarshalBinary(b); err != nil {
		panic(err)
	}
	p.Add(p, s.Scalar().One())
	o, _ := p.MarshalBinary()
	return o
}
func splice(sig []byte, off int, repl []byte) []byte {
	o := append([]byte{}, sig...)
	copy(o[off:], repl)
	return o
}

func schnorrCase(x *hx.Ctx, msg []byte) {
	s := x.S
	sch := schnorr.NewScheme(s)
	priv, pub := sch.NewKeyPair(s.RandomStream())
	x.ValidP("pub == priv*G", pub, s.Point().Mul(priv, nil))
	sig, err := sch.Sign(priv, msg)
	x.NoErr("Sign", err)
	pl, sl := s.PointLen(), s.ScalarLen()
	x.Require("signature length", len(sig) == pl+sl, len(sig))
	x.NoErr("Verify", sch.Verify(pub, msg, sig))
	x.NoErr("schnorr.Verify", schnorr.Verify(s, pub, msg, sig))
	pb, _ := pub.MarshalBinary()
	x.NoErr("VerifyWithChecks", schnorr.VerifyWithChecks(s, pb, msg, sig))
	// a second signature on the same message uses a fresh nonce and verifies too
	sig2, _ := schnorr.Sign(s, priv, msg)
	x.NoErr("Verify second signature", schnorr.Verify(s, pub, msg, sig2))
	x.Require("fresh nonce", !bytes.Equal(sig[:pl], sig2[:pl]))
	// rejections
	x.Err("other message", schnorr.Verify(s, pub, append(append([]byte{}, msg...), 1), sig))
	if len(msg) > 0 {
		m2 := append([]byte{}, msg...)
		m2[len(m2)-1] ^= 0x80
		x.Err("message with one bit flipped", schnorr.Verify(s, pub, m2, sig))
		x.Err("truncated message", schnorr.Verify(s, pub, msg[:len(msg)-1], sig))
	}
	priv2, pub2 := sch.NewKeyPair(s.RandomStream())
	x.Err("other key", schnorr.Verify(s, pub2, msg, sig))
	x.Err("key+G", schnorr.Verify(s, s.Point().Add(pub, s.Point().Base()), msg, sig))
	x.Err("-key", schnorr.Verify(s, s.Point().Neg(pub), msg, sig))
	x.Err("R altered", schnorr.Verify(s, pub, msg, splice(sig, 0, mutP(s, sig[:pl]))))
	x.Err("S altered", schnorr.Verify(s, pub, msg, splice(sig, pl, mutS(s, sig[pl:]))))
	x.Err("R and S of two signatures mixed", schnorr.Verify(s, pub, msg, splice(sig, pl, sig2[pl:])))
	x.Err("truncated", schnorr.Verify(s, pub, msg, sig[:len(sig)-1]))
	x.Err("extended", schnorr.Verify(s, pub, msg, append(append([]byte{}, sig...), 0)))
	x.Err("empty", schnorr.Verify(s, pub, msg, nil))
	sigOther, _ := schnorr.Sign(s, priv2, msg)
	x.Err("signature of another key", schnorr.Verify(s, pub, msg, sigOther))
	// one scheme object, one message buffer and one signature buffer reused by the caller: what counts is the content
	// at the time of the call, and the caller's buffers are left alone
	buf := []byte("buffer content 1")
	sb1, err := sch.Sign(priv, buf)
	x.NoErr("Sign buffer content 1", err)
	keep := append([]byte{}, sb1...)
	x.NoErr("Verify buffer content 1", sch.Verify(pub, buf, sb1))
	x.Require("Verify leaves message and signature buffers unchanged", bytes.Equal(buf, []byte("buffer content 1")) && bytes.Equal(sb1, keep))
	copy(buf, "buffer content 2")
	x.Err("signature on the old content of a reused buffer", sch.Verify(pub, buf, sb1))
	sb2, err := sch.Sign(priv, buf)
	x.NoErr("Sign buffer content 2", err)
	x.NoErr("Verify buffer content 2 (same buffer, same scheme object)", sch.Verify(pub, buf, sb2))
	copy(sb1, sb2)
	x.NoErr("Verify with a reused signature buffer", sch.Verify(pub, buf, sb1))
	x.NoErr("Verify the first message again", sch.Verify(pub, msg, sig))
	// strength: with s' = s + d the equation s'G = R + hA is never satisfied (d != 0)
	S := s.Scalar()
	_ = S.UnmarshalBinary(sig[pl:])
	d := s.Scalar().Pick(s.RandomStream())
	x.NeverP("(s+d)G never equals sG", s.Point().Mul(s.Scalar().Add(S, d), nil), s.Point().Mul(S, nil), d)
}

func ringCase(x *hx.Ctx, n, mine int, scope string) {
	s := x.S
	var link []byte
	if scope != "" {
		link = []byte(scope)
	}
	var set anon.Set
	var keys []kyber.Scalar
	for i := 0; i < n; i++ {
		k := s.Scalar().Pick(s.RandomStream())
		keys = append(keys, k)
		set = append(set, s.Point().Mul(k, nil))
	}
	msg := []byte("ring message")
	sig := anon.Sign(s, msg, set, link, mine, keys[mine])
	want := 32 * (1 + n)
	if link != nil {
		want += 32
	}
	x.Require("signature length", len(sig) == want, len(sig))
	tag, err := anon.Verify(s, msg, set, link, sig)
	x.NoErr("Verify", err)
	if link == nil {
		x.Require("no tag for unlinkable", len(tag) == 0)
	} else {
		x.Require("tag is a point encoding", len(tag) == s.PointLen())
		// same key, same scope, other message: same tag
		sigB := anon.Sign(s, []byte("another message"), set, link, mine, keys[mine])
		tagB, err := anon.Verify(s, []byte("another message"), set, link, sigB)
		x.NoErr("Verify second", err)
		x.Require("same key and scope give the same tag", bytes.Equal(tag, tagB))
		// other scope: other tag
		sigC := anon.Sign(s, msg, set, []byte(scope+"2"), mine, keys[mine])
		tagC, err := anon.Verify(s, msg, set, []byte(scope+"2"), sigC)
		x.NoErr("Verify other scope", err)
		x.Require("other scope gives another tag", !bytes.Equal(tag, tagC))
		if n > 1 {
			o := (mine + 1) % n
			sigD := anon.Sign(s, msg, set, link, o, keys[o])
			tagD, err := anon.Verify(s, msg, set, link, sigD)
			x.NoErr("Verify other signer", err)
			x.Require("other key gives another tag", !bytes.Equal(tag, tagD))
			// strength: tags x*B and x'*B never coincide for x != x', B != O
			T1, T2 := s.Point(), s.Point()
			_ = T1.UnmarshalBinary(tag)
			_ = T2.UnmarshalBinary(tagD)
			x.NeverP("tags of different keys never coincide", T1, T2, s.Scalar().Sub(keys[mine], keys[o]), s.Point().Pick(s.XOF(link)))
		}
		x.ValidP("tag == x*H(scope)", func() kyber.Point { T := s.Point(); _ = T.UnmarshalBinary(tag); return T }(), s.Point().Mul(keys[mine], s.Point().Pick(s.XOF(link))))
		_, err = anon.Verify(s, msg, set, []byte(scope+"x"), sig)
		x.Err("verified under another scope", err)
		_, err = anon.Verify(s, msg, set, nil, sig)
		x.Err("linkable signature verified as unlinkable", err)
	}
	_, err = anon.Verify(s, []byte("ring messagf"), set, link, sig)
	x.Err("other message", err)
	for i := 0; i < n; i++ {
		set2 := append(anon.Set{}, set...)
		set2[i] = s.Point().Add(set2[i], s.Point().Base())
		_, err = anon.Verify(s, msg, set2, link, sig)
		x.Err(fmt.Sprintf("ring member %d replaced", i), err)
	}
	if n > 1 {
		set2 := append(anon.Set{}, set...)
		set2[0], set2[1] = set2[1], set2[0]
		_, err = anon.Verify(s, msg, set2, link, sig)
		x.Err("ring members swapped", err)
		_, err = anon.Verify(s, msg, set[:n-1], link, sig)
		x.Err("ring shortened", err)
	}
	nb := len(sig) / 32
	for b := 0; b < nb; b++ {
		var m []byte
		if link != nil && b == nb-1 {
			m = mutP(s, sig[32*b:32*b+32])
		} else {
			m = mutS(s, sig[32*b:32*b+32])
		}
		_, err = anon.Verify(s, msg, set, link, splice(sig, 32*b, m))
		x.Err(fmt.Sprintf("signature block %d altered", b), err)
	}
	_, err = anon.Verify(s, msg, set, link, sig[:len(sig)-1])
	x.Err("truncated signature", err)
	_, err = anon.Verify(s, msg, set, link, nil)
	x.Err("empty signature", err)
	// a signature by a key outside the ring
	out := s.Scalar().Pick(s.RandomStream())
	sigO := anon.Sign(s, msg, set, link, mine, out)
	_, err = anon.Verify(s, msg, set, link, sigO)
	x.Err("signed with a key that is not in the ring", err)
}
