// C03 (E2 part) — the hexadecimal helpers of util/encoding and the MarshalTo / UnmarshalFrom stream methods carry exactly
// the bytes of MarshalBinary / UnmarshalBinary, for every suite shape (32-byte points; 65-byte points with 32-byte
// scalars; pairing groups) and however the stream delivers the bytes.
package main

import (
	"bytes"
	"encoding/hex"
	"fmt"
	"io"
	"strings"

	"go.dedis.ch/kyber/v4"
	"go.dedis.ch/kyber/v4/util/encoding"

	"verif/e2/hx"
)

func main() { hx.Main("C03", gen) }

func gen(tier string, seed int64) []hx.Scenario {
	var out []hx.Scenario
	for _, shape := range []string{"", "p256"} {
		for _, chunk := range []int{0, 1, 7, 64} {
			out = append(out, hx.Scenario{Name: "hex", Cfg: fmt.Sprintf("shape=%q chunk=%d", shape, chunk), Shape: shape, Run: func(x *hx.Ctx) { hexCase(x, x.S, "group", chunk) }})
		}
	}
	for _, chunk := range []int{0, 1, 7} {
		out = append(out, hx.Scenario{Name: "hex-pairing", Cfg: fmt.Sprintf("chunk=%d", chunk), Pairing: true, Run: func(x *hx.Ctx) {
			hexCase(x, x.P.G1(), "G1", chunk)
			hexCase(x, x.P.G2(), "G2", chunk)
		}})
	}
	return out
}

// chunked delivers at most n bytes per Read (n = 0: everything at once), as a network stream or a pipe may
type chunked struct {
	r io.Reader
	n int
}

func (c *chunked) Read(p []byte) (int, error) {
	if c.n > 0 && len(p) > c.n {
		p = p[:c.n]
	}
	return c.r.Read(p)
}

func hexCase(x *hx.Ctx, g kyber.Group, gn string, chunk int) {
	var P kyber.Point
	var s kyber.Scalar
	if x.P != nil {
		P = g.Point().Mul(g.Scalar().Pick(x.P.RandomStream()), nil)
		s = g.Scalar().Pick(x.P.RandomStream())
	} else {
		P = g.Point().Mul(g.Scalar().Pick(x.S.RandomStream()), nil)
		s = g.Scalar().Pick(x.S.RandomStream())
	}
	pb, _ := P.MarshalBinary()
	sb, _ := s.MarshalBinary()
	x.Require(gn+": point encoding has the advertised length", len(pb) == g.PointLen() && len(pb) == P.MarshalSize(), len(pb))
	x.Require(gn+": scalar encoding has the advertised length", len(sb) == g.ScalarLen() && len(sb) == s.MarshalSize(), len(sb))
	// string helpers
	ph, err := encoding.PointToStringHex(g, P)
	x.Require(gn+": PointToStringHex is the hex of MarshalBinary", err == nil && ph == hex.EncodeToString(pb))
	sh, err := encoding.ScalarToStringHex(g, s)
	x.Require(gn+": ScalarToStringHex is the hex of MarshalBinary", err == nil && sh == hex.EncodeToString(sb))
	P2, err := encoding.StringHexToPoint(g, ph)
	x.Require(gn+": StringHexToPoint round trip", err == nil && P2 != nil && P2.Equal(P))
	s2, err := encoding.StringHexToScalar(g, sh)
	x.Require(gn+": StringHexToScalar round trip", err == nil && s2 != nil && s2.Equal(s))
	// writers
	var wb bytes.Buffer
	x.NoErr(gn+": WriteHexPoint", encoding.WriteHexPoint(&wb, P))
	x.NoErr(gn+": WriteHexScalar", encoding.WriteHexScalar(g, &wb, s))
	x.Require(gn+": the writers emit exactly the two hex encodings", wb.String() == ph+sh)
	// readers over a stream that holds both encodings and delivers them in chunks
	st := &chunked{r: strings.NewReader(ph + sh + "ff"), n: chunk}
	P3, err := encoding.ReadHexPoint(g, st)
	if x.NoErr(gn+": ReadHexPoint from a stream holding the encoding", err) {
		x.Require(gn+": ReadHexPoint yields the point", P3.Equal(P))
	}
	s3, err := encoding.ReadHexScalar(g, st)
	if x.NoErr(gn+": ReadHexScalar continues exactly after the point", err) {
		x.Require(gn+": ReadHexScalar yields the scalar", s3.Equal(s))
	}
	rest, _ := io.ReadAll(st)
	x.Require(gn+": the readers consume exactly the two encodings", string(rest) == "ff", string(rest))
	// binary stream methods
	var bb bytes.Buffer
	n1, err := P.MarshalTo(&bb)
	x.Require(gn+": MarshalTo writes MarshalBinary", err == nil && n1 == len(pb) && bytes.Equal(bb.Bytes(), pb))
	n2, err := s.MarshalTo(&bb)
	x.Require(gn+": scalar MarshalTo writes MarshalBinary", err == nil && n2 == len(sb) && bytes.Equal(bb.Bytes()[len(pb):], sb))
	bst := &chunked{r: bytes.NewReader(append(bb.Bytes(), 0xff)), n: chunk}
	P4 := g.Point()
	n3, err := P4.UnmarshalFrom(bst)
	x.Require(gn+": UnmarshalFrom reads the point from a chunked stream", err == nil && n3 == len(pb) && P4.Equal(P), err)
	s4 := g.Scalar()
	n4, err := s4.UnmarshalFrom(bst)
	x.Require(gn+": scalar UnmarshalFrom continues exactly after the point", err == nil && n4 == len(sb) && s4.Equal(s), err)
	// truncated inputs are errors, not panics
	_, err = encoding.StringHexToPoint(g, ph[:len(ph)-2])
	x.Err(gn+": truncated hex point", err)
	_, err = encoding.StringHexToScalar(g, sh[:len(sh)-1])
	x.Err(gn+": truncated hex scalar", err)
	_, err = encoding.StringHexToPoint(g, strings.Repeat("zz", len(pb)))
	x.Err(gn+": non-hex characters", err)
	_, err = encoding.StringHexToPoint(g, "")
	x.Err(gn+": empty string", err)
}
