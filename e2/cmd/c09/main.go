// C09 (E2 part) — BLS, threshold BLS, BDN and CoSi over a symbolic pairing suite.
package main

import (
	"bytes"
	"fmt"

	"go.dedis.ch/kyber/v4"
	"go.dedis.ch/kyber/v4/pairing"
	"go.dedis.ch/kyber/v4/share"
	"go.dedis.ch/kyber/v4/sign"
	"go.dedis.ch/kyber/v4/sign/bdn"
	"go.dedis.ch/kyber/v4/sign/bls"
	"go.dedis.ch/kyber/v4/sign/cosi"
	"go.dedis.ch/kyber/v4/sign/tbls"

	"verif/e2/hx"
)

func main() { hx.Main("C09", gen) }

func gen(tier string, seed int64) []hx.Scenario {
	var out []hx.Scenario
	rng := hx.NewRng(seed)
	for _, g := range []string{"G1", "G2"} {
		out = append(out, hx.Scenario{Name: "bls", Cfg: "sig=" + g, Pairing: true, Run: func(x *hx.Ctx) { blsCase(x, g) }})
	}
	maxN := 5
	if tier == "thorough" {
		maxN = 8
	}
	// threshold BLS: honest subsets and orders
	for n := 2; n <= maxN; n++ {
		for t := 2; t <= n; t++ {
			var subs [][]int
			if n <= 5 {
				subs = hx.Subsets(n, t, t)
				subs = append(subs, hx.Seq(n))
			} else {
				subs = [][]int{hx.Seq(t), hx.Seq(n)[n-t:], hx.Seq(n)}
				for i := 0; i < 4; i++ {
					subs = append(subs, rng.Perm(hx.Seq(n))[:t])
				}
			}
			for si, sub := range subs {
				for oi, o := range [][]int{sub, hx.Rev(sub), rng.Perm(sub)} {
					if oi > 0 && si%2 == 1 {
						continue
					}
					g := []string{"G1", "G2"}[(si+oi)%2]
					pat := make([]string, len(o))
					for i, v := range o {
						pat[i] = fmt.Sprint(v)
					}
					out = append(out, hx.Scenario{Name: "tbls", Cfg: fmt.Sprintf("sig=%s t=%d n=%d partials=%v", g, t, n, pat), Pairing: true, Run: func(x *hx.Ctx) { tblsCase(x, g, t, n, pat) }})
				}
			}
			// fault patterns: invalid / duplicate / foreign partials mixed with valid ones
			base := hx.Seq(n)
			pats := [][]string{}
			v := func(i int) string { return fmt.Sprint(base[i%n]) }
			pats = append(pats,
				append([]string{"garbage"}, strs(base[:t])...),
				append(strs(base[:t-1]), "garbage", "othermsg:"+v(0), "wrongidx:"+v(0), "short", "empty", v(t-1)),
				append(strs(base[:t-1]), "othermsg:"+v(t-1)),
				append(strs(base[:t-1]), "wrongidx:"+v(t-1)),
				append(strs(base[:t-1]), "bigidx"),
				append(append([]string{v(n - 1)}, "dup:"+v(n-1)), strs(base[:t-1])...),
				append(append(strs(base[:t-1]), "dup:"+v(0)), v(t-1)),
				append(strs(base[:t-1]), "dup:"+v(0)),
				strs(base[:t-1]),
				[]string{},
			)
			for pi, p := range pats {
				g := []string{"G1", "G2"}[pi%2]
				out = append(out, hx.Scenario{Name: "tbls-faults", Cfg: fmt.Sprintf("sig=%s t=%d n=%d partials=%v", g, t, n, p), Pairing: true, Run: func(x *hx.Ctx) { tblsCase(x, g, t, n, p) }})
			}
		}
	}
	// BDN: every non-empty mask for n <= 4, every construction
	maxB := 4
	if tier == "thorough" {
		maxB = 6
	}
	for n := 1; n <= maxB; n++ {
		for m := 1; m < 1<<n; m++ {
			for ci, cons := range []string{"SetBit", "SetMask", "Merge", "Clone", "myKey", "SetBitToggle"} {
				if n > 4 && (m+ci)%5 != 0 {
					continue
				}
				g := []string{"G1", "G2"}[(m+ci)%2]
				out = append(out, hx.Scenario{Name: "bdn", Cfg: fmt.Sprintf("sig=%s n=%d mask=%0*b via=%s", g, n, n, m, cons), Pairing: true, Run: func(x *hx.Ctx) { bdnCase(x, g, n, m, cons) }})
			}
		}
	}
	out = append(out, hx.Scenario{Name: "bdn", Cfg: "sig=G1 n=9 mask=101010101 via=SetBit", Pairing: true, Run: func(x *hx.Ctx) { bdnCase(x, "G1", 9, 0b101010101, "SetBit") }})
	// rosters spanning several mask bytes: participants only in a later byte, empty bytes in the middle, byte boundaries
	for ci, mb := range multiByteMasks(tier) {
		n, m := mb[0], mb[1]
		g := []string{"G1", "G2"}[ci%2]
		cons := []string{"SetBit", "SetMask", "Merge", "Clone", "myKey", "SetBitToggle"}[ci%6]
		out = append(out, hx.Scenario{Name: "bdn", Cfg: fmt.Sprintf("sig=%s n=%d mask=%0*b via=%s", g, n, n, m, cons), Pairing: true, Run: func(x *hx.Ctx) { bdnCase(x, g, n, m, cons) }})
	}
	// CoSi
	maxC := 4
	if tier == "thorough" {
		maxC = 6
	}
	for n := 1; n <= maxC; n++ {
		for m := 1; m < 1<<n; m++ {
			out = append(out, hx.Scenario{Name: "cosi", Cfg: fmt.Sprintf("n=%d mask=%0*b", n, n, m), Run: func(x *hx.Ctx) { cosiCase(x, n, m) }})
		}
	}
	out = append(out, hx.Scenario{Name: "cosi", Cfg: "n=9 mask=110010011", Run: func(x *hx.Ctx) { cosiCase(x, 9, 0b110010011) }})
	for _, mb := range multiByteMasks(tier) {
		n, m := mb[0], mb[1]
		out = append(out, hx.Scenario{Name: "cosi", Cfg: fmt.Sprintf("n=%d mask=%0*b", n, n, m), Run: func(x *hx.Ctx) { cosiCase(x, n, m) }})
	}
	return out
}

// multiByteMasks: (n, mask) pairs whose mask needs more than one byte.
func multiByteMasks(tier string) [][2]int {
	bits := func(n int, on ...int) [2]int {
		m := 0
		for _, i := range on {
			m |= 1 << i
		}
		return [2]int{n, m}
	}
	out := [][2]int{bits(10, 8), bits(10, 8, 9), bits(10, 9), bits(10, 0, 9), bits(10, 7, 8), bits(9, 8), bits(16, 7, 8, 15), bits(17, 16), bits(17, 8, 16), bits(17, 0, 16), bits(17, 15, 16)}
	if tier == "thorough" {
		out = append(out, bits(24, 16, 23), bits(25, 24), bits(25, 0, 8, 16, 24), bits(33, 32), bits(33, 7, 32), bits(12, 8, 9, 10, 11), bits(16, 8), bits(16, 15))
	}
	return out
}

func strs(a []int) []string {
	o := make([]string, len(a))
	for i, v := range a {
		o[i] = fmt.Sprint(v)
	}
	return o
}

func groups(p pairing.Suite, sig string) (sigG, keyG kyber.Group) {
	if sig == "G1" {
		return p.G1(), p.G2()
	}
	return p.G2(), p.G1()
}

func mutPoint(g kyber.Group, b []byte) []byte {
	p := g.Point()
	if err := p.UnmarshalBinary(b); err != nil {
		panic(err)
	}
	p.Add(p, g.Point().Base())
	o, _ := p.MarshalBinary()
	return o
}

func blsCase(x *hx.Ctx, sig string) {
	p := x.P
	var sch sign.Scheme
	if sig == "G1" {
		sch = bls.NewSchemeOnG1(p)
	} else {
		sch = bls.NewSchemeOnG2(p)
	}
	sigG, keyG := groups(p, sig)
	priv, pub := sch.NewKeyPair(p.RandomStream())
	x.ValidP("pub == priv*B", pub, keyG.Point().Mul(priv, nil))
	msg := []byte("bls message")
	s, err := sch.Sign(priv, msg)
	x.NoErr("Sign", err)
	x.Require("length", len(s) == sigG.PointLen())
	x.NoErr("Verify", sch.Verify(pub, msg, s))
	S := sigG.Point()
	x.NoErr("unmarshal", S.UnmarshalBinary(s))
	x.ValidP("sig == priv*H(m)", S, sigG.Point().Mul(priv, sigG.Point().(kyber.HashablePoint).Hash(msg)))
	s2, _ := sch.Sign(priv, msg)
	x.Require("deterministic", bytes.Equal(s, s2))
	x.Err("other message", sch.Verify(pub, []byte("bls messagf"), s))
	x.Err("empty message vs msg", sch.Verify(pub, []byte{}, s))
	_, pub2 := sch.NewKeyPair(p.RandomStream())
	x.Err("other key", sch.Verify(pub2, msg, s))
	x.Err("key+B", sch.Verify(keyG.Point().Add(pub, keyG.Point().Base()), msg, s))
	x.Err("sig+B", sch.Verify(pub, msg, mutPoint(sigG, s)))
	x.Err("-sig", sch.Verify(pub, msg, func() []byte { b, _ := sigG.Point().Neg(S).MarshalBinary(); return b }()))
	x.Err("truncated", sch.Verify(pub, msg, s[:len(s)-1]))
	x.Err("empty sig", sch.Verify(pub, msg, nil))
	// one scheme object, one message buffer reused by the caller: what is verified is the CONTENT of the buffer at the
	// time of the call (a scheme must not remember a message by reference)
	buf := []byte("buffer content 1")
	sb1, err := sch.Sign(priv, buf)
	x.NoErr("Sign buffer content 1", err)
	x.NoErr("Verify buffer content 1", sch.Verify(pub, buf, sb1))
	copy(buf, "buffer content 2")
	x.Err("signature on the old content of a reused buffer", sch.Verify(pub, buf, sb1))
	sb2, err := sch.Sign(priv, buf)
	x.NoErr("Sign buffer content 2", err)
	x.NoErr("Verify buffer content 2 (same buffer, same scheme object)", sch.Verify(pub, buf, sb2))
	x.Err("signature on the new content against the old content", sch.Verify(pub, []byte("buffer content 1"), sb2))
	x.NoErr("Verify the first message again", sch.Verify(pub, msg, s))
	// never: e(H, X) == e(S+d*B, B) for d != 0
	d := sigG.Scalar().Pick(p.RandomStream())
	Sd := sigG.Point().Add(S, sigG.Point().Mul(d, nil))
	H := sigG.Point().(kyber.HashablePoint).Hash(msg)
	var l, r kyber.Point
	if sig == "G1" {
		l, r = p.Pair(H, pub), p.Pair(Sd, keyG.Point().Base())
	} else {
		l, r = p.Pair(pub, H), p.Pair(keyG.Point().Base(), Sd)
	}
	x.NeverP("pairing equation never holds for sig + d*B", l, r, d)
}

func tblsCase(x *hx.Ctx, sig string, t, n int, pattern []string) {
	p := x.P
	var sch sign.ThresholdScheme
	if sig == "G1" {
		sch = tbls.NewThresholdSchemeOnG1(p)
	} else {
		sch = tbls.NewThresholdSchemeOnG2(p)
	}
	sigG, keyG := groups(p, sig)
	secret := keyG.Scalar().Pick(p.RandomStream())
	pri := share.NewPriPoly(keyG, uint32(t), secret, p.RandomStream())
	pub := pri.Commit(keyG.Point().Base())
	shares := pri.Shares(uint32(n))
	msg := []byte("tbls message")
	partial := func(i int, m []byte) []byte {
		s, err := sch.Sign(shares[i], m)
		if err != nil {
			panic(err)
		}
		return s
	}
	var sigs [][]byte
	valid := map[int]bool{}
	for _, it := range pattern {
		var kind string
		var idx int
		if _, err := fmt.Sscanf(it, "%d", &idx); err == nil && fmt.Sprint(idx) == it {
			kind = "ok"
		} else {
			for _, k := range []string{"othermsg", "wrongidx", "dup"} {
				if len(it) > len(k) && it[:len(k)] == k {
					kind = k
					fmt.Sscanf(it[len(k)+1:], "%d", &idx)
				}
			}
			if kind == "" {
				kind = it
			}
		}
		switch kind {
		case "ok", "dup":
			s := partial(idx, msg)
			x.NoErr("VerifyPartial "+it, sch.VerifyPartial(pub, msg, s))
			i, err := sch.IndexOf(s)
			x.Require("IndexOf "+it, err == nil && i == idx, i, err)
			sigs = append(sigs, s)
			valid[idx] = true
		case "othermsg":
			s := partial(idx, []byte("other"))
			x.Err("VerifyPartial "+it, sch.VerifyPartial(pub, msg, s))
			sigs = append(sigs, s)
		case "wrongidx":
			s := partial(idx, msg)
			s[1] = byte((idx + 1) % n) // claims to be from another participant
			x.Err("VerifyPartial "+it, sch.VerifyPartial(pub, msg, s))
			sigs = append(sigs, s)
		case "bigidx":
			s := partial(0, msg)
			s[0], s[1] = 0x7f, 0xff
			x.Err("VerifyPartial "+it, sch.VerifyPartial(pub, msg, s))
			sigs = append(sigs, s)
		case "garbage":
			s := partial(0, msg)
			for i := 2; i < len(s); i++ {
				s[i] ^= 0x5a
			}
			sigs = append(sigs, s)
		case "short":
			sigs = append(sigs, []byte{0})
		case "empty":
			sigs = append(sigs, []byte{})
		}
	}
	sigsBefore := make([][]byte, len(sigs))
	for i := range sigs {
		sigsBefore[i] = append([]byte{}, sigs[i]...)
	}
	msgBefore := append([]byte{}, msg...)
	rec, err := sch.Recover(pub, msg, sigs, uint32(t), uint32(n))
	same := len(sigs) == len(sigsBefore) && bytes.Equal(msg, msgBefore)
	for i := 0; same && i < len(sigs); i++ {
		same = bytes.Equal(sigs[i], sigsBefore[i])
	}
	x.Require("Recover leaves the caller's partial signatures and message unchanged", same)
	if len(valid) >= t {
		if x.NoErr("Recover", err) {
			x.NoErr("VerifyRecovered", sch.VerifyRecovered(pub.Commit(), msg, rec))
			R := sigG.Point()
			x.NoErr("unmarshal recovered", R.UnmarshalBinary(rec))
			x.ValidP("recovered == secret*H(m) (the unique group signature)", R, sigG.Point().Mul(secret, sigG.Point().(kyber.HashablePoint).Hash(msg)))
			x.Err("VerifyRecovered other message", sch.VerifyRecovered(pub.Commit(), []byte("zzz"), rec))
		}
	} else {
		x.Err("Recover with fewer than t valid partials", err)
	}
}

func bdnCase(x *hx.Ctx, sig string, n, maskBits int, cons string) {
	p := x.P
	var sch *bdn.Scheme
	if sig == "G1" {
		sch = bdn.NewSchemeOnG1(p)
	} else {
		sch = bdn.NewSchemeOnG2(p)
	}
	_, keyG := groups(p, sig)
	var privs []kyber.Scalar
	var pubs []kyber.Point
	for i := 0; i < n; i++ {
		a, A := sch.NewKeyPair(p.RandomStream())
		privs, pubs = append(privs, a), append(pubs, A)
	}
	on := hx.BitsOf(maskBits, n)
	maskBytes := make([]byte, (n+7)/8)
	for _, i := range on {
		maskBytes[i/8] |= 1 << (i % 8)
	}
	var mask *bdn.Mask
	var err error
	switch cons {
	case "SetBit":
		mask, err = bdn.NewMask(keyG, pubs, nil)
		x.NoErr("NewMask", err)
		for _, i := range on {
			x.NoErr("SetBit", mask.SetBit(i, true))
		}
	case "SetBitToggle":
		mask, err = bdn.NewMask(keyG, pubs, nil)
		x.NoErr("NewMask", err)
		for i := 0; i < n; i++ {
			x.NoErr("SetBit", mask.SetBit(i, true))
		}
		for i := 0; i < n; i++ {
			if maskBits>>i&1 == 0 {
				x.NoErr("SetBit off", mask.SetBit(i, false))
			}
		}
	case "SetMask":
		mask, err = bdn.NewMask(keyG, pubs, nil)
		x.NoErr("NewMask", err)
		x.NoErr("SetMask", mask.SetMask(append([]byte{}, maskBytes...)))
	case "Merge":
		mask, err = bdn.NewMask(keyG, pubs, nil)
		x.NoErr("NewMask", err)
		x.NoErr("SetBit", mask.SetBit(on[0], true))
		x.NoErr("Merge", mask.Merge(maskBytes))
	case "Clone":
		m0, err := bdn.NewMask(keyG, pubs, nil)
		x.NoErr("NewMask", err)
		mask = m0.Clone()
		for _, i := range on {
			x.NoErr("SetBit", mask.SetBit(i, true))
		}
		x.Require("clone independent of the original", m0.CountEnabled() == 0)
	case "myKey":
		mask, err = bdn.NewMask(keyG, pubs, pubs[on[0]])
		if !x.NoErr("NewMask(myKey)", err) {
			return
		}
		for _, i := range on[1:] {
			x.NoErr("SetBit", mask.SetBit(i, true))
		}
	}
	x.Require("CountEnabled", mask.CountEnabled() == len(on), mask.CountEnabled())
	x.Require("mask bytes", bytes.Equal(mask.Mask(), maskBytes))
	for k, i := range on {
		x.Require(fmt.Sprintf("IndexOfNthEnabled(%d)", k), mask.IndexOfNthEnabled(k) == i)
		x.Require(fmt.Sprintf("NthEnabledAtIndex(%d)", i), mask.NthEnabledAtIndex(i) == k)
	}
	msg := []byte("bdn message")
	var sigs [][]byte
	for _, i := range on {
		s, err := sch.Sign(privs[i], msg)
		x.NoErr("Sign", err)
		sigs = append(sigs, s)
	}
	aggS, err := sch.AggregateSignatures(sigs, mask)
	if !x.NoErr("AggregateSignatures", err) {
		return
	}
	aggK, err := sch.AggregatePublicKeys(mask)
	if !x.NoErr("AggregatePublicKeys", err) {
		return
	}
	sb, _ := aggS.MarshalBinary()
	x.NoErr("Verify aggregate under aggregate key of the same mask", sch.Verify(aggK, msg, sb))
	x.Err("other message", sch.Verify(aggK, []byte("other"), sb))
	// every other mask must fail
	ref, _ := bdn.NewMask(keyG, pubs, nil)
	var others []int
	for m2 := 1; m2 < 1<<n && n <= 4; m2++ {
		others = append(others, m2)
	}
	for i := 0; i < n && n > 4; i++ { // larger rosters: every mask at Hamming distance one
		others = append(others, maskBits^(1<<i))
	}
	for _, m2 := range others {
		if m2 == maskBits || m2 == 0 {
			continue
		}
		o := ref.Clone()
		for _, i := range hx.BitsOf(m2, n) {
			_ = o.SetBit(i, true)
		}
		k2, err := sch.AggregatePublicKeys(o)
		x.NoErr("AggregatePublicKeys other", err)
		x.Err(fmt.Sprintf("verify under mask %0*b", n, m2), sch.Verify(k2, msg, sb))
	}
	// count mismatches
	_, err = sch.AggregateSignatures(append(append([][]byte{}, sigs...), sigs[0]), mask)
	x.Err("surplus signature", err)
	_, err = sch.AggregateSignatures(sigs[:len(sigs)-1], mask)
	x.Err("missing signature", err)
	if len(on) > 1 {
		sw := append([][]byte{}, sigs...)
		sw[0], sw[1] = sw[1], sw[0]
		a2, err := sch.AggregateSignatures(sw, mask)
		x.NoErr("AggregateSignatures swapped", err)
		b2, _ := a2.MarshalBinary()
		x.Err("signatures given in the wrong order", sch.Verify(aggK, msg, b2))
	}
	_, err = mask.GetBit(n)
	x.Err("GetBit out of range", err)
	x.Err("SetBit out of range", mask.SetBit(n, true))
	x.Err("SetBit negative", mask.SetBit(-1, true))
	x.Err("SetMask wrong length", mask.SetMask(make([]byte, len(maskBytes)+1)))
	x.Err("Merge wrong length", mask.Merge(make([]byte, len(maskBytes)+1)))
}

func cosiCase(x *hx.Ctx, n, maskBits int) {
	s := x.S
	var privs []kyber.Scalar
	var pubs []kyber.Point
	for i := 0; i < n; i++ {
		a := s.Scalar().Pick(s.RandomStream())
		privs, pubs = append(privs, a), append(pubs, s.Point().Mul(a, nil))
	}
	on := hx.BitsOf(maskBits, n)
	msg := []byte("cosi message")
	var vs []kyber.Scalar
	var Vs []kyber.Point
	var masks [][]byte
	for _, i := range on {
		v, V := cosi.Commit(s)
		vs, Vs = append(vs, v), append(Vs, V)
		m, err := cosi.NewMask(s, pubs, pubs[i])
		x.NoErr("NewMask(myKey)", err)
		masks = append(masks, m.Mask())
	}
	Vsnap := make([]kyber.Point, len(Vs))
	for i := range Vs {
		Vsnap[i] = Vs[i].Clone()
	}
	msnap := make([][]byte, len(masks))
	for i := range masks {
		msnap[i] = append([]byte{}, masks[i]...)
	}
	aggV, aggMask, err := cosi.AggregateCommitments(s, Vs, masks)
	x.NoErr("AggregateCommitments", err)
	// the leader may aggregate again (a late commitment, another mask): the signers' commitments and masks are only read
	inOK := true
	for i := range Vs {
		inOK = inOK && Vs[i].Equal(Vsnap[i]) && bytes.Equal(masks[i], msnap[i])
	}
	x.Require("AggregateCommitments leaves the signers' commitments and masks unchanged", inOK)
	aggV2, aggMask2, err := cosi.AggregateCommitments(s, Vs, masks)
	if x.NoErr("AggregateCommitments again", err) && len(on) > 0 {
		x.ValidP("aggregating the same commitments again gives the same commitment", aggV2, aggV)
		x.Require("aggregating the same masks again gives the same mask", bytes.Equal(aggMask2, aggMask))
	}
	mask, err := cosi.NewMask(s, pubs, nil)
	x.NoErr("NewMask", err)
	x.NoErr("SetMask", mask.SetMask(aggMask))
	x.Require("CountEnabled", mask.CountEnabled() == len(on) && mask.CountTotal() == n)
	want := s.Point().Null()
	for _, i := range on {
		want = s.Point().Add(want, pubs[i])
	}
	x.ValidP("AggregatePublic == sum of enabled keys", mask.AggregatePublic, want)
	c, err := cosi.Challenge(s, aggV, mask.AggregatePublic, msg)
	x.NoErr("Challenge", err)
	var rs []kyber.Scalar
	for k, i := range on {
		r, err := cosi.Response(s, privs[i], vs[k], c)
		x.NoErr("Response", err)
		rs = append(rs, r)
	}
	rsnap := make([]kyber.Scalar, len(rs))
	for i := range rs {
		rsnap[i] = rs[i].Clone()
	}
	aggR, err := cosi.AggregateResponses(s, rs)
	x.NoErr("AggregateResponses", err)
	rOK := true
	for i := range rs {
		rOK = rOK && rs[i].Equal(rsnap[i])
	}
	x.Require("AggregateResponses leaves the signers' responses unchanged", rOK)
	if aggR2, err := cosi.AggregateResponses(s, rs); err == nil && len(on) > 0 {
		x.ValidS("aggregating the same responses again gives the same response", aggR2, aggR)
	}
	sig, err := cosi.Sign(s, aggV, aggR, mask)
	x.NoErr("Sign", err)
	pl, sl := s.PointLen(), s.ScalarLen()
	x.Require("length", len(sig) == pl+sl+(n+7)/8)
	full := len(on) == n
	err = cosi.Verify(s, pubs, msg, sig, nil)
	x.Require("Verify under the complete policy iff everyone signed", (err == nil) == full, err)
	for th := 0; th <= n; th++ {
		err = cosi.Verify(s, pubs, msg, sig, cosi.NewThresholdPolicy(th))
		x.Require(fmt.Sprintf("Verify threshold %d iff %d >= %d", th, len(on), th), (err == nil) == (len(on) >= th), err)
	}
	pol := cosi.NewThresholdPolicy(0)
	x.Err("other message", cosi.Verify(s, pubs, []byte("cosi messagf"), sig, pol))
	// altered commitment / response
	V2, _ := s.Point().Add(aggV, s.Point().Base()).MarshalBinary()
	x.Err("commitment altered", cosi.Verify(s, pubs, msg, append(append([]byte{}, V2...), sig[pl:]...), pol))
	R2, _ := s.Scalar().Add(aggR, s.Scalar().One()).MarshalBinary()
	s2 := append([]byte{}, sig...)
	copy(s2[pl:], R2)
	x.Err("response altered", cosi.Verify(s, pubs, msg, s2, pol))
	// every other participation mask
	for m2 := 0; m2 < 1<<n && n <= 4; m2++ {
		if m2 == maskBits {
			continue
		}
		s3 := append([]byte{}, sig...)
		for i := range s3[pl+sl:] {
			s3[pl+sl+i] = 0
		}
		for _, i := range hx.BitsOf(m2, n) {
			s3[pl+sl+i/8] |= 1 << (i % 8)
		}
		x.Err(fmt.Sprintf("mask replaced by %0*b", n, m2), cosi.Verify(s, pubs, msg, s3, pol))
	}
	// padding bits of the last mask byte belong to no cosigner: setting them must never satisfy a stricter policy
	if n%8 != 0 {
		for _, pad := range [][]int{{n}, {7}, {n, 7}} {
			s4 := append([]byte{}, sig...)
			last := len(s4) - 1
			for _, b := range pad {
				s4[last] |= 1 << (b % 8)
			}
			if bytes.Equal(s4, sig) {
				continue
			}
			for th := len(on) + 1; th <= n; th++ {
				x.Err(fmt.Sprintf("padding bits %v set: threshold %d with %d real cosigners", pad, th, len(on)), cosi.Verify(s, pubs, msg, s4, cosi.NewThresholdPolicy(th)))
			}
			if !full {
				x.Err(fmt.Sprintf("padding bits %v set: complete policy with %d of %d cosigners", pad, len(on), n), cosi.Verify(s, pubs, msg, s4, nil))
			}
			m4, _ := cosi.NewMask(s, pubs, nil)
			if err := m4.SetMask(s4[pl+sl:]); err == nil {
				x.Require(fmt.Sprintf("padding bits %v set: CountEnabled counts cosigners only", pad), m4.CountEnabled() == len(on), m4.CountEnabled())
				x.ValidP(fmt.Sprintf("padding bits %v set: AggregatePublic unchanged", pad), m4.AggregatePublic, want)
			}
		}
	}
	x.Err("truncated", cosi.Verify(s, pubs, msg, sig[:len(sig)-1], pol))
	x.Err("extended", cosi.Verify(s, pubs, msg, append(append([]byte{}, sig...), 0), pol))
	if n > 1 {
		sw := append([]kyber.Point{}, pubs...)
		sw[0], sw[n-1] = sw[n-1], sw[0]
		if (maskBits&1 != 0) != (maskBits>>(n-1)&1 != 0) {
			x.Err("public keys in another order", cosi.Verify(s, sw, msg, sig, pol))
		}
	}
	// incremental aggregate key stays in step with the bits
	m2, _ := cosi.NewMask(s, pubs, nil)
	for i := 0; i < n; i++ {
		x.NoErr("SetBit", m2.SetBit(i, true))
	}
	for i := 0; i < n; i++ {
		if maskBits>>i&1 == 0 {
			x.NoErr("SetBit off", m2.SetBit(i, false))
			x.NoErr("SetBit off twice", m2.SetBit(i, false))
		} else {
			x.NoErr("SetBit on twice", m2.SetBit(i, true))
		}
	}
	x.ValidP("SetBit sequence keeps AggregatePublic in step", m2.AggregatePublic, want)
	x.Require("SetBit sequence mask", bytes.Equal(m2.Mask(), mask.Mask()))
	x.Err("SetBit out of range", m2.SetBit(n, true))
	_, err = m2.IndexEnabled(n)
	x.Err("IndexEnabled out of range", err)
}
