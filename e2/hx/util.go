package hx

import (
	crand "crypto/rand"
	"crypto/sha256"
	"encoding/binary"
	"sort"
	"sync"
)

// Rng is a small deterministic generator for structural choices of scenario generators.
type Rng struct{ s uint64 }

func NewRng(seed int64) *Rng { return &Rng{uint64(seed)*2654435761 + 12345} }
func (r *Rng) Next() uint64 {
	r.s += 0x9e3779b97f4a7c15
	z := r.s
	z = (z ^ (z >> 30)) * 0xbf58476d1ce4e5b9
	z = (z ^ (z >> 27)) * 0x94d049bb133111eb
	return z ^ (z >> 31)
}
func (r *Rng) Intn(n int) int { return int(r.Next() % uint64(n)) }
func (r *Rng) Perm(a []int) []int {
	b := append([]int{}, a...)
	for i := len(b) - 1; i > 0; i-- {
		j := r.Intn(i + 1)
		b[i], b[j] = b[j], b[i]
	}
	return b
}

// BitsOf lists the set bits of m below n.
func BitsOf(m, n int) []int {
	var o []int
	for i := 0; i < n; i++ {
		if m>>i&1 == 1 {
			o = append(o, i)
		}
	}
	return o
}

// Rev reverses a copy.
func Rev(a []int) []int {
	b := append([]int{}, a...)
	for i, j := 0, len(b)-1; i < j; i, j = i+1, j-1 {
		b[i], b[j] = b[j], b[i]
	}
	return b
}

// AllPerms enumerates all permutations.
func AllPerms(a []int) [][]int {
	var res [][]int
	b := append([]int{}, a...)
	sort.Ints(b)
	var rec func(k int)
	rec = func(k int) {
		if k == len(b) {
			res = append(res, append([]int{}, b...))
			return
		}
		for i := k; i < len(b); i++ {
			b[k], b[i] = b[i], b[k]
			rec(k + 1)
			b[k], b[i] = b[i], b[k]
		}
	}
	rec(0)
	return res
}

// Subsets lists all subsets of {0..n-1} with size in [lo,hi].
func Subsets(n, lo, hi int) [][]int {
	var out [][]int
	for m := 0; m < 1<<n; m++ {
		b := BitsOf(m, n)
		if len(b) >= lo && len(b) <= hi {
			out = append(out, b)
		}
	}
	return out
}

// Seq returns 0..n-1.
func Seq(n int) []int {
	o := make([]int, n)
	for i := range o {
		o[i] = i
	}
	return o
}

// DetRand replaces crypto/rand.Reader (read by code under test that bypasses the suite's random stream, e.g.
// encrypt/ibe's sigma) by a deterministic stream keyed by key, for the duration of f. Scenarios run in parallel
// goroutines and crypto/rand.Reader is process-global, so the sections are serialised; every scenario that reaches
// crypto/rand directly must run inside DetRand, otherwise its outcome is not a function of VERIF_SEED.
var detRandMu sync.Mutex

type detReader struct {
	key [32]byte
	ctr uint64
	buf []byte
}

func (d *detReader) Read(p []byte) (int, error) {
	for len(d.buf) < len(p) {
		var c [8]byte
		binary.LittleEndian.PutUint64(c[:], d.ctr)
		d.ctr++
		h := sha256.Sum256(append(d.key[:], c[:]...))
		d.buf = append(d.buf, h[:]...)
	}
	copy(p, d.buf[:len(p)])
	d.buf = d.buf[len(p):]
	return len(p), nil
}

func DetRand(key string, f func()) {
	detRandMu.Lock()
	old := crand.Reader
	crand.Reader = &detReader{key: sha256.Sum256([]byte(key))}
	defer func() {
		crand.Reader = old
		detRandMu.Unlock()
	}()
	f()
}
