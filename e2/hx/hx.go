// Package hx is the harness framework of engine E2: scenarios written once
// against Ctx run (a) symbolically over sym.World — every assertion is an SMT
// query over all values — and (b) as a concrete twin on the real Ed25519 /
// BLS12-381 suites, which validates the symbolic model (same outcome trace)
// and replays every symbolic failure against the real arithmetic.
package hx

import (
	"crypto/cipher"
	"crypto/sha256"
	"encoding/hex"
	"encoding/json"
	"flag"
	"fmt"
	"os"
	"regexp"
	"runtime/debug"
	"sort"
	"strings"
	"sync"
	"time"

	"go.dedis.ch/kyber/v4"
	"go.dedis.ch/kyber/v4/group/edwards25519"
	"go.dedis.ch/kyber/v4/pairing"
	"go.dedis.ch/kyber/v4/group/p256"
	"go.dedis.ch/kyber/v4/pairing/bls12381/circl"
	"go.dedis.ch/kyber/v4/xof/blake2xb"

	"verif/e2/sym"
)

// Suite is what the kyber protocol packages require of a suite.
type Suite interface {
	kyber.Group
	kyber.Encoding
	kyber.HashFactory
	kyber.XOFFactory
	kyber.Random
}

type Failure struct {
	Key        string `json:"key"` // scenario|cfg|assertion
	Scenario   string `json:"scenario"`
	Cfg        string `json:"cfg"`
	Assert     string `json:"assert"`
	Kind       string `json:"kind"` // valid | never | outcome | panic | twin
	Detail     string `json:"detail"`
	Reproduced bool   `json:"reproduced"` // failed on the real suite too
}

// Ctx is handed to a scenario.
type Ctx struct {
	Symbolic bool
	W        *sym.World
	S        Suite
	P        pairing.Suite
	Seed     int64
	Scenario string
	Cfg      string
	Trace    []string
	Fails    []Failure
	Asserts  int
	mu       sync.Mutex
	rnd      kyber.XOF
	quiet    bool
}

// ConcreteOnly runs f only on the real suites (checks that need the concrete
// arithmetic, e.g. crypto/ed25519 compatibility). Outcomes inside f are not part
// of the compared trace; failures are reported as failures of the real code.
func (c *Ctx) ConcreteOnly(f func()) {
	if c.Symbolic {
		return
	}
	c.quiet = true
	defer func() { c.quiet = false }()
	f()
}

func (c *Ctx) fail(id, kind, detail string) {
	c.mu.Lock()
	defer c.mu.Unlock()
	c.Fails = append(c.Fails, Failure{Key: c.Scenario + "|" + c.Cfg + "|" + id, Scenario: c.Scenario, Cfg: c.Cfg, Assert: id, Kind: kind, Detail: detail})
}

// Outcome records a control-flow outcome; the symbolic and the concrete run must produce the same sequence.
func (c *Ctx) Outcome(id string, v any) {
	if c.quiet {
		return
	}
	c.mu.Lock()
	c.Trace = append(c.Trace, fmt.Sprintf("%s=%v", id, v))
	c.mu.Unlock()
}

// Require states that cond must hold (it is also recorded as an outcome).
func (c *Ctx) Require(id string, cond bool, detail ...any) bool {
	c.Outcome(id, cond)
	c.mu.Lock()
	c.Asserts++
	c.mu.Unlock()
	if !cond {
		c.fail(id, "outcome", fmt.Sprint(detail...))
	}
	return cond
}

// NoErr requires err == nil.
func (c *Ctx) NoErr(id string, err error) bool {
	return c.Require(id, err == nil, err)
}

// Err requires err != nil (an input that must be rejected).
func (c *Ctx) Err(id string, err error) bool {
	return c.Require(id, err != nil, "accepted, expected an error")
}

// ValidS asserts a == b for ALL values of the symbolic variables (solver: unsat of a != b).
func (c *Ctx) ValidS(id string, a, b kyber.Scalar) bool {
	c.mu.Lock()
	c.Asserts++
	c.mu.Unlock()
	var ok bool
	if c.Symbolic {
		ok = c.W.LValidEq(sym.TermOfScalar(a), sym.TermOfScalar(b))
	} else {
		ok = a.Equal(b)
	}
	c.Outcome(id, ok)
	if !ok {
		c.fail(id, "valid", "scalar equality is not valid")
	}
	return ok
}

// ValidP asserts a == b for ALL values (points).
func (c *Ctx) ValidP(id string, a, b kyber.Point) bool {
	c.mu.Lock()
	c.Asserts++
	c.mu.Unlock()
	var ok bool
	if c.Symbolic {
		ok = c.W.LValidEq(sym.TermOfPoint(a), sym.TermOfPoint(b))
	} else {
		ok = a.Equal(b)
	}
	c.Outcome(id, ok)
	if !ok {
		c.fail(id, "valid", "point equality is not valid")
	}
	return ok
}

// NeverP asserts that a == b is unsatisfiable whenever every element of nz
// (scalars or points) is non-zero: the "always rejected" strength.
func (c *Ctx) NeverP(id string, a, b kyber.Point, nz ...any) bool {
	c.mu.Lock()
	c.Asserts++
	c.mu.Unlock()
	var ok bool
	if c.Symbolic {
		var ts []*sym.Term
		for _, x := range nz {
			switch v := x.(type) {
			case kyber.Scalar:
				ts = append(ts, sym.TermOfScalar(v))
			case kyber.Point:
				ts = append(ts, sym.TermOfPoint(v))
			case *sym.Term:
				ts = append(ts, v)
			}
		}
		ok = !c.W.LCanEqual(sym.TermOfPoint(a), sym.TermOfPoint(b), ts)
	} else {
		ok = !a.Equal(b)
	}
	c.Outcome(id, ok)
	if !ok {
		c.fail(id, "never", "equality is satisfiable under the non-degeneracy hypotheses")
	}
	return ok
}

// NeverS is NeverP for scalars.
func (c *Ctx) NeverS(id string, a, b kyber.Scalar, nz ...any) bool {
	c.mu.Lock()
	c.Asserts++
	c.mu.Unlock()
	var ok bool
	if c.Symbolic {
		var ts []*sym.Term
		for _, x := range nz {
			switch v := x.(type) {
			case kyber.Scalar:
				ts = append(ts, sym.TermOfScalar(v))
			case kyber.Point:
				ts = append(ts, sym.TermOfPoint(v))
			}
		}
		ok = !c.W.LCanEqual(sym.TermOfScalar(a), sym.TermOfScalar(b), ts)
	} else {
		ok = !a.Equal(b)
	}
	c.Outcome(id, ok)
	if !ok {
		c.fail(id, "never", "equality is satisfiable under the non-degeneracy hypotheses")
	}
	return ok
}

// Rand returns deterministic harness-side choices (same in both runs).
func (c *Ctx) Rand() cipher.Stream { return c.rnd }

// Intn returns a deterministic harness-side integer in [0,n).
func (c *Ctx) Intn(n int) int {
	var b [4]byte
	c.rnd.XORKeyStream(b[:], b[:])
	return int(uint32(b[0])|uint32(b[1])<<8|uint32(b[2])<<16|uint32(b[3])<<24) % n
}

// Scenario is one enumerated configuration = one symbolic run.
type Scenario struct {
	Name    string
	Cfg     string
	Pairing bool // needs a pairing suite
	Shape   string // "" = 32-byte points and scalars (twin: Ed25519); "p256" = 65-byte points, 32-byte scalars (twin: P-256)
	Run     func(c *Ctx)
}

type edSuite struct {
	*edwards25519.SuiteEd25519
	rs cipher.Stream
}

func (s *edSuite) RandomStream() cipher.Stream { return s.rs }


type p256Suite struct {
	*p256.Suite128
	rs cipher.Stream
}

func (s *p256Suite) RandomStream() cipher.Stream { return s.rs }

type prSuite struct {
	pairing.Suite
	rs cipher.Stream
}

func (s *prSuite) RandomStream() cipher.Stream { return s.rs }

type lockedStream struct {
	mu sync.Mutex
	x  kyber.XOF
}

func (l *lockedStream) XORKeyStream(d, s []byte) {
	l.mu.Lock()
	defer l.mu.Unlock()
	l.x.XORKeyStream(d, s)
}

// pairingOver wraps a pairing.Suite so that it can serve as the plain Suite of a scenario too.
type pairingAsSuite struct {
	pairing.Suite
	kyber.Group
}

func newCtx(sc Scenario, symbolic bool, seed int64) *Ctx {
	c := &Ctx{Symbolic: symbolic, Seed: seed, Scenario: sc.Name, Cfg: sc.Cfg}
	c.rnd = blake2xb.New([]byte(fmt.Sprintf("hx-harness|%s|%s|%d", sc.Name, sc.Cfg, seed)))
	if symbolic {
		c.W = sym.NewWorld(uint64(seed)*1000003 + uint64(strhash(sc.Name+sc.Cfg)%1000003))
		if sc.Pairing {
			ps := sym.NewPSuite(c.W)
			c.P = ps
			c.S = ps.Suite
		} else {
			ss := sym.NewSuite(c.W)
			if sc.Shape == "p256" {
				ss.Group.PLen = 65
			}
			c.S = ss
		}
	} else {
		rs := &lockedStream{x: blake2xb.New([]byte(fmt.Sprintf("hx-coins|%s|%s|%d", sc.Name, sc.Cfg, seed)))}
		c.S = &edSuite{edwards25519.NewBlakeSHA256Ed25519(), rs}
		if sc.Shape == "p256" {
			c.S = &p256Suite{p256.NewBlakeSHA256P256(), rs}
		}
		if sc.Pairing {
			c.P = &prSuite{circl.NewSuite(), rs}
		}
	}
	return c
}

func strhash(s string) uint32 {
	h := uint32(2166136261)
	for i := 0; i < len(s); i++ {
		h ^= uint32(s[i])
		h *= 16777619
	}
	return h
}

type runResult struct {
	c            *Ctx
	panicked     string
	inconclusive string
	wall         time.Duration
}

func runOne(sc Scenario, symbolic bool, seed int64) (r runResult) {
	c := newCtx(sc, symbolic, seed)
	r.c = c
	t0 := time.Now()
	defer func() {
		r.wall = time.Since(t0)
		if e := recover(); e != nil {
			if inc, ok := e.(sym.Inconclusive); ok {
				r.inconclusive = inc.Msg
			} else {
				st := string(debug.Stack())
				r.panicked = fmt.Sprintf("%v\n%s", e, trimStack(st))
			}
		}
		if c.W != nil {
			c.W.Close()
		}
	}()
	sc.Run(c)
	if symbolic && c.W != nil {
		if !c.W.LPCSat() {
			c.fail("path-condition", "vacuity", "path condition unsatisfiable")
		}
	}
	return r
}

func trimStack(s string) string {
	lines := strings.Split(s, "\n")
	var out []string
	for _, l := range lines {
		if strings.Contains(l, "/repo/") || strings.Contains(l, "kyber/v4") {
			out = append(out, strings.TrimSpace(l))
		}
		if len(out) >= 8 {
			break
		}
	}
	return strings.Join(out, " | ")
}

// Report is the JSON document a harness binary writes for the check driver.
type Report struct {
	Property      string            `json:"property"`
	Engine        string            `json:"engine"`
	Tier          string            `json:"tier"`
	Seed          int64             `json:"seed"`
	Scenarios     int               `json:"scenarios"`
	ByScenario    map[string]int    `json:"by_scenario"`
	Asserts       int               `json:"assertions"`
	Queries       int               `json:"queries"`
	Distinct      int               `json:"distinct_queries"`
	Unsat         int               `json:"unsat"`
	Sat           int               `json:"sat"`
	CrossChecked  int               `json:"cross_checked_second_solver"`
	Retried       int               `json:"undecided_queries_retried_on_another_solver"`
	SolverSecs    float64           `json:"solver_time_s"`
	TwinValidated int               `json:"twin_validated"`
	TwinMismatch  []string          `json:"twin_mismatch"`
	Inconclusive  []string          `json:"inconclusive"`
	Failures      []Failure         `json:"failures"`
	Samples       []any             `json:"samples"`
	PathCond      []string          `json:"path_condition_samples"`
	PCCount       int               `json:"path_condition_disequalities"`
	VarsMax       int               `json:"max_symbolic_vars"`
	TermsMax      int               `json:"max_terms"`
	WallS         float64           `json:"wall_s"`
	Notes         map[string]string `json:"notes,omitempty"`
}

// Main runs all scenarios of a property and writes the report.
func Main(property string, gen func(tier string, seed int64) []Scenario) {
	tier := flag.String("tier", "quick", "quick|thorough")
	seed := flag.Int64("seed", 1, "VERIF_SEED")
	out := flag.String("out", "", "report file")
	only := flag.String("only", "", "regexp on scenario|cfg (replay / debugging)")
	concreteOnly := flag.Bool("concrete", false, "run only the concrete twin (replay)")
	workers := flag.Int("j", 16, "parallel scenarios")
	verbose := flag.Bool("v", false, "verbose")
	flag.Parse()
	t0 := time.Now()
	scs := gen(*tier, *seed)
	if *only != "" {
		re := regexp.MustCompile(*only)
		var f []Scenario
		for _, s := range scs {
			if re.MatchString(s.Name + "|" + s.Cfg) {
				f = append(f, s)
			}
		}
		scs = f
	}
	rep := &Report{Property: property, Engine: "E2 symgroup", Tier: *tier, Seed: *seed, ByScenario: map[string]int{}}
	var mu sync.Mutex
	distinct := map[string]bool{}
	sem := make(chan struct{}, *workers)
	var wg sync.WaitGroup
	for _, sc := range scs {
		wg.Add(1)
		sem <- struct{}{}
		go func(sc Scenario) {
			defer wg.Done()
			defer func() { <-sem }()
			var rs runResult
			if !*concreteOnly {
				rs = runOne(sc, true, *seed)
			}
			rc := runOne(sc, false, *seed)
			mu.Lock()
			defer mu.Unlock()
			rep.Scenarios++
			rep.ByScenario[sc.Name]++
			key := sc.Name + "|" + sc.Cfg
			if *concreteOnly {
				for _, f := range rc.c.Fails {
					f.Reproduced = true
					rep.Failures = append(rep.Failures, f)
				}
				if rc.panicked != "" {
					rep.Failures = append(rep.Failures, Failure{Key: key + "|panic", Scenario: sc.Name, Cfg: sc.Cfg, Assert: "panic", Kind: "panic", Detail: rc.panicked, Reproduced: true})
				}
				return
			}
			w := rs.c.W
			rep.Asserts += rs.c.Asserts
			rep.Queries += w.Queries
			rep.Unsat += w.Unsat
			rep.Sat += w.Sat
			rep.CrossChecked += w.CrossChecked
			rep.Retried += w.Retried
			rep.SolverSecs += w.SolverTime.Seconds()
			rep.PCCount += len(w.PC)
			for q := range w.Distinct {
				h := sha256.Sum256([]byte(q))
				distinct[hex.EncodeToString(h[:8])] = true
			}
			if n := len(w.VarNames()); n > rep.VarsMax {
				rep.VarsMax = n
			}
			if w.NumTerms() > rep.TermsMax {
				rep.TermsMax = w.NumTerms()
			}
			if len(rep.Samples) < 8 && len(w.Samples) > 0 {
				rep.Samples = append(rep.Samples, map[string]any{"scenario": sc.Name, "cfg": sc.Cfg, "queries": w.Samples[:min(3, len(w.Samples))], "outcomes": head(rs.c.Trace, 12), "vars": head(w.VarNames(), 10)})
			}
			if len(rep.PathCond) < 10 {
				rep.PathCond = append(rep.PathCond, head(w.PC, 2)...)
			}
			if *verbose {
				fmt.Fprintf(os.Stderr, "%s: sym %.2fs q=%d asserts=%d fails=%d | conc %.2fs\n", key, rs.wall.Seconds(), w.Queries, rs.c.Asserts, len(rs.c.Fails), rc.wall.Seconds())
			}
			if rs.inconclusive != "" {
				rep.Inconclusive = append(rep.Inconclusive, key+": "+rs.inconclusive)
				return
			}
			// failures of the symbolic run, each replayed on the concrete twin
			concFail := map[string]bool{}
			for _, f := range rc.c.Fails {
				concFail[f.Assert] = true
			}
			symFail := map[string]bool{}
			for _, f := range rs.c.Fails {
				f.Reproduced = concFail[f.Assert]
				symFail[f.Assert] = true
				rep.Failures = append(rep.Failures, f)
			}
			// a failure seen only on the real suites is a failure of the real code all the same
			for _, f := range rc.c.Fails {
				if !symFail[f.Assert] {
					f.Reproduced = true
					f.Kind = "concrete-only " + f.Kind
					rep.Failures = append(rep.Failures, f)
				}
			}
			if rs.panicked != "" {
				rep.Failures = append(rep.Failures, Failure{Key: key + "|panic", Scenario: sc.Name, Cfg: sc.Cfg, Assert: "panic", Kind: "panic", Detail: rs.panicked, Reproduced: rc.panicked != ""})
			} else if rc.panicked != "" {
				rep.Failures = append(rep.Failures, Failure{Key: key + "|panic", Scenario: sc.Name, Cfg: sc.Cfg, Assert: "panic", Kind: "panic", Detail: "concrete twin only: " + rc.panicked, Reproduced: true})
			}
			// translator validation: identical outcome traces
			if rs.panicked == "" && rc.panicked == "" {
				if strings.Join(rs.c.Trace, ";") == strings.Join(rc.c.Trace, ";") {
					rep.TwinValidated++
				} else {
					rep.TwinMismatch = append(rep.TwinMismatch, key+": "+firstDiff(rs.c.Trace, rc.c.Trace))
				}
			}
		}(sc)
	}
	wg.Wait()
	rep.Distinct = len(distinct)
	rep.WallS = time.Since(t0).Seconds()
	sort.Slice(rep.Failures, func(i, j int) bool { return rep.Failures[i].Key < rep.Failures[j].Key })
	sort.Strings(rep.TwinMismatch)
	sort.Strings(rep.Inconclusive)
	b, _ := json.MarshalIndent(rep, "", " ")
	if *out != "" {
		if err := os.WriteFile(*out, b, 0o644); err != nil {
			fmt.Fprintln(os.Stderr, err)
			os.Exit(3)
		}
	} else {
		os.Stdout.Write(b)
	}
	fmt.Fprintf(os.Stderr, "%s: %d scenarios, %d assertions, %d queries (%d unsat, %d sat), solver %.1fs, twin ok %d, mismatches %d, failures %d, inconclusive %d, wall %.1fs\n",
		property, rep.Scenarios, rep.Asserts, rep.Queries, rep.Unsat, rep.Sat, rep.SolverSecs, rep.TwinValidated, len(rep.TwinMismatch), len(rep.Failures), len(rep.Inconclusive), rep.WallS)
}

func head(s []string, n int) []string {
	if len(s) > n {
		return s[:n]
	}
	return s
}

func firstDiff(a, b []string) string {
	for i := 0; i < len(a) && i < len(b); i++ {
		if a[i] != b[i] {
			return fmt.Sprintf("step %d: symbolic %q vs concrete %q", i, a[i], b[i])
		}
	}
	return fmt.Sprintf("trace lengths %d vs %d", len(a), len(b))
}
