#!/usr/bin/env python3
"""Regenerate MANIFEST.json from lib/props.py (checks) and lib/na.py (not applicable)."""
import json, os, sys
sys.path.insert(0, os.path.dirname(os.path.abspath(__file__)))
import props, na
V = os.path.dirname(os.path.dirname(os.path.abspath(__file__)))
base = json.load(open("/root/.vp/BASELINE.json"))["cmd"] if os.path.exists("/root/.vp/BASELINE.json") else json.load(open(os.path.join(V, "MANIFEST.json")))["hooks"]["baseline_off_cmd"]
ids = [json.loads(l)["id"] for l in open(os.path.join(V, "properties.jsonl"))]
checks = []
for pid in ids:
    if pid not in props.PROPS or pid in na.NA:
        continue
    p = props.PROPS[pid]
    eng = sorted({"E1 ssaexec" if x["engine"] == "e1" else "E2 symgroup" for x in p["parts"]})
    checks.append({
        "property_id": pid,
        "quick_cmd": "./check %s quick" % pid,
        "thorough_cmd": "./check %s thorough" % pid,
        "evidence_file": "/verif/evidence/%s.json" % pid,
        "replay_cmd_template": "./check %s --replay {path}" % pid,
        "engine": " + ".join(eng),
        "level_claimed": {"category": "model_checking", "text": p["level_text"], "design_ref": "DESIGN.md section 6/" + pid},
        "level_note": p["level_note"],
        "technique": p["technique"],
    })
m = {
    "version": 1,
    "setup_cmd": "./setup.sh",
    "hooks": {"guard": "verif", "enable": "no hook is committed to /repo: in-package harnesses (E1) and the four test hooks (Dealer.VerifEncryptDeal of share/vss/pedersen and share/vss/rabin, DistKeyGenerator.VerifDealer of share/dkg/rabin, PairShuffle.VerifChallengeMessages of shuffle; files under /verif/e2/overlays) are injected with go build/test -overlay files that only ADD a file to a package (see DESIGN.md sections 4 and 11.1)", "baseline_off_cmd": base, "source_commits": [], "add_only": True},
    "engines": [
        {"name": "E1 ssaexec", "path": "/verif/e1", "serves_properties": [c["property_id"] for c in checks if "E1" in c["engine"]], "kind_free_text": "go/ssa -> SMT-LIB2 symbolic executor (bit-vector, int+overflow, product abstraction, field and dlog modes), z3/cvc5 decide"},
        {"name": "E2 symgroup", "path": "/verif/e2", "serves_properties": [c["property_id"] for c in checks if "E2" in c["engine"]], "kind_free_text": "symbolic kyber.Group/pairing.Suite (terms over Q) under the real protocol code; z3 QF_NRA decides every equality and assertion; concrete twin on the real suites"},
    ],
    "checks": checks,
    "not_applicable": [{"property_id": pid, "reason": na.NA[pid]} for pid in ids if pid in na.NA] + [{"property_id": pid, "reason": "check not built yet (work in progress)"} for pid in ids if pid not in na.NA and pid not in props.PROPS],
    "notes": "All checks are bounded solver-based checks (category model_checking); nothing is claimed as proof. Exit 2 + INCONCLUSIVE line = solver unknown / tool error (never reported as success).",
}
json.dump(m, open(os.path.join(V, "MANIFEST.json"), "w"), indent=1)
print("checks:", [c["property_id"] for c in checks], "n/a:", [x["property_id"] for x in m["not_applicable"]])
