# Registry of checks: which engine parts decide which property, and the static
# parts of the evidence (functions, bounds, what lies outside the claim).

GGM = "generic-group + random-oracle model: a point is its discrete logarithm term over Q, hash outputs / Pick draws are variables keyed by the bytes hashed / drawn; a polynomial identity over Q holds in every Z_q of large characteristic"
TWIN = "each symbolic run is re-executed on the real Ed25519 (and CIRCL BLS12-381) suites with seeded concrete values; outcome traces must coincide (translator validation) and a symbolic failure counts only if it reproduces there"

PROPS = {}

PROPS["C07"] = dict(
    title="Shamir sharing",
    parts=[dict(engine="e2", cmd="c07")],
    technique="proxy-object symbolic execution of the real share/poly.go over symbolic scalars/points; every equality and every final assertion is a z3 QF_NRA validity query over all secrets and coefficients",
    level_text="bounded symbolic checking: for every enumerated (t, n, share subset, order, nil/duplicate pattern, base, zero secret) the real code is run once on symbolic values and each claim (recovered secret/commitment/polynomial equal the dealt ones, Check accepts exactly shares on the committed polynomial, Add/Mul commute with evaluation) is decided by the SMT solver for ALL values of the secret, coefficients and base point; structure is enumerated, values are not sampled",
    level_note="trusted: the concrete group arithmetic (C01-C05), z3; " + GGM + "; " + TWIN,
    functions=["share.NewPriPoly", "PriPoly.Eval", "PriPoly.Shares", "PriPoly.Commit", "PriPoly.Add", "PriPoly.Mul", "PriPoly.Equal", "share.RecoverSecret", "share.RecoverCommit", "share.RecoverPriPoly", "share.RecoverPubPoly", "share.xyScalar", "share.xyCommit", "share.lagrangeBasis", "share.minusConst", "PubPoly.Eval", "PubPoly.Shares", "PubPoly.Check", "PubPoly.Add", "PubPoly.Equal", "PubPoly.Commit"],
    bounds=["quick: 1<=t<=n<=6, all non-empty share subsets for n<=5 (seeded sample of 17 for n=6), orders identity/reverse/seeded shuffle, nil entries and one duplicate share, base nil and symbolic H, secret symbolic and 0", "thorough: n<=9, all subsets for n<=6, all permutations for n<=4, second solver (z3 5.1) cross-check"],
    outside_claim=["n > 9", "map iteration order inside xyScalar/lagrangeBasis is whatever the run produces (results are order-free terms decided semantically)", "share indices >= n are not rejected by share/poly.go and are not part of the claim"],
    assumptions=[GGM, TWIN],
)
