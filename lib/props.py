# Registry of checks: which engine parts decide which property, and the static
# parts of the evidence (functions, bounds, what lies outside the claim).

GGM = "generic-group + random-oracle model: a point is its discrete logarithm term over Q, hash outputs / Pick draws are variables keyed by the bytes hashed / drawn; a polynomial identity over Q holds in every Z_q of large characteristic"
TWIN = "each symbolic run is re-executed on the real Ed25519 (and CIRCL BLS12-381) suites with seeded concrete values; outcome traces must coincide (translator validation) and a symbolic failure counts only if it reproduces there"

PROPS = {}

PROPS["C07"] = dict(
    title="Shamir sharing",
    parts=[dict(engine="e2", cmd="c07")],
    technique="proxy-object symbolic execution of the real share/poly.go over symbolic scalars/points; every equality and every final assertion is a z3 QF_NRA validity query over all secrets and coefficients",
    level_text="bounded symbolic checking: for every enumerated (t, n, share subset, order, nil/duplicate pattern, base, zero secret) the real code is run once on symbolic values and each claim (recovered secret/commitment/polynomial equal the dealt ones, Check accepts exactly shares on the committed polynomial, Add/Mul commute with evaluation) is decided by the SMT solver for ALL values of the secret, coefficients and base point; structure is enumerated, values are not sampled",
    level_note="trusted: the concrete group arithmetic (C01-C05), z3; " + GGM + "; " + TWIN,
    functions=["share.NewPriPoly", "PriPoly.Eval", "PriPoly.Shares", "PriPoly.Commit", "PriPoly.Add", "PriPoly.Mul", "PriPoly.Equal", "share.RecoverSecret", "share.RecoverCommit", "share.RecoverPriPoly", "share.RecoverPubPoly", "share.xyScalar", "share.xyCommit", "share.lagrangeBasis", "share.minusConst", "PubPoly.Eval", "PubPoly.Shares", "PubPoly.Check", "PubPoly.Add", "PubPoly.Equal", "PubPoly.Commit"],
    bounds=["quick: 1<=t<=n<=6, all non-empty share subsets for n<=5 (seeded sample of 17 for n=6), orders identity/reverse/seeded shuffle, nil entries and one duplicate share, base nil and symbolic H, secret symbolic and 0", "thorough: n<=9, all subsets for n<=6, all permutations for n<=4, second solver (z3 5.1) cross-check"],
    outside_claim=["n > 9", "map iteration order inside xyScalar/lagrangeBasis is whatever the run produces (results are order-free terms decided semantically)", "share indices >= n are not rejected by share/poly.go and are not part of the claim"],
    assumptions=[GGM, TWIN],
)

def e2prop(pid, title, cmd, what, functions, bounds, outside, extra_parts=None, overlay=None):
    part = dict(engine="e2", cmd=cmd)
    if overlay:
        part["overlay"] = overlay
    PROPS[pid] = dict(
        title=title,
        parts=[part] + (extra_parts or []),
        technique="proxy-object symbolic execution of the real kyber protocol code over a symbolic group (E2 symgroup); every Equal/token decision and every assertion is a z3 QF_NRA query over all secrets, coins and oracle outputs; failures are replayed on the real suites",
        level_text="bounded symbolic checking: " + what + " Structure (sizes, subsets, orders, fault menu) is enumerated within the stated bounds; for each enumerated case the SMT solver decides the claims for ALL values of the symbolic secrets/coins/challenges (completeness claims are validity queries; rejection claims are 'generically rejected', and 'never accepted under stated non-degeneracy hypotheses' where marked).",
        level_note="trusted: the concrete group arithmetic (C01-C05), hash/XOF/AEAD internals (run concretely on token bytes), z3; " + GGM + "; " + TWIN,
        functions=functions, bounds=bounds, outside_claim=outside, assumptions=[GGM, TWIN],
    )

e2prop("C13", "PVSS and DLEQ", "c13",
       "the real share/pvss and proof/dleq run on symbolic secrets, keys, base points and coins: honest encrypted/decrypted shares verify, any >= t decrypted shares (all subsets, several orders) recover secret*G, fewer are refused; each single-field mutation of an encrypted or decrypted share, of the commitments, keys or base point is excluded from the batch results; a DLEQ proof for x is never accepted for x' != x.",
       ["pvss.EncShares", "pvss.computeCommitments", "pvss.computeGlobalChallenge", "pvss.VerifyEncShare", "pvss.VerifyEncShareBatch", "pvss.DecShare", "pvss.DecShareBatch", "pvss.VerifyDecShare", "pvss.VerifyDecShareBatch", "pvss.RecoverSecret", "dleq.NewDLEQProof", "dleq.NewDLEQProofBatch", "dleq.Proof.Verify", "share.RecoverCommit"],
       ["quick: 2<=n<=5, 1<=t<=n, all subsets of decrypted shares of size >= t-1 with identity/reverse/seeded orders; mutations at (n,t) in {(3,2),(4,3)} for every trustee j and 12 encrypted-share / 9 decrypted-share mutation kinds; DLEQ: 9 mutations, batches of 1..3", "thorough: n<=8, mutations also at (5,3),(6,4),(4,4), second solver"],
       ["collision resistance of the hash (random-oracle idealisation)", "n > 8", "the share index S.I is not covered by the proofs (sH is supplied by the caller): outcome recorded, not asserted"])

e2prop("C08", "Schnorr / ring signatures", "c08",
       "the real sign/schnorr and sign/anon (ring signatures, linkable and not) run on symbolic keys, nonces and oracle outputs: honest signatures verify (validity of the verification equation), every altered message / key / ring member / signature block / scope / length is rejected, linkage tags coincide exactly for the same key and scope (tags of different keys never coincide).",
       ["schnorr.Sign", "schnorr.Verify", "schnorr.VerifyWithChecks", "schnorr.hash", "schnorr.Scheme.NewKeyPair/Sign/Verify", "anon.Sign", "anon.Verify", "anon.signH1pre", "anon.signH1"],
       ["quick: 5 message lengths (0..200 bytes, concrete bytes: the hash is an oracle); ring sizes 1..4, every signer position, with and without link scope; every 32-byte block of the signature altered, every ring member replaced", "thorough: ring sizes up to 8, second solver"],
       ["byte-identity of EdDSA with crypto/ed25519 for every message (needs SHA-512 symbolically): exercised only as concrete translator validation", "message lengths beyond the listed ones (hash = oracle, length-independent)", "canonicity / small-order predicates of Ed25519 are the E1 part"])

e2prop("C09", "BLS / threshold BLS / BDN / CoSi", "c09",
       "the real sign/bls, sign/tbls, sign/bdn and sign/cosi run over a symbolic pairing suite (e(aG1,bG2)=ab*GT) on both group assignments: honest signatures verify; the recovered threshold signature equals secret*H(m) for every t-subset and order, also alongside invalid, foreign, wrong-index, duplicate, short and empty partials; fewer than t valid partials are refused; a BDN aggregate verifies under the aggregate key of exactly its mask (all other masks rejected) for every way of constructing the mask; a CoSi signature verifies exactly for its commitment, response, mask and policy.",
       ["bls.NewSchemeOnG1/G2", "bls.scheme.NewKeyPair/Sign/Verify", "tbls.scheme.Sign/IndexOf/VerifyPartial/VerifyRecovered/Recover", "tbls.SigShare.Index/Value", "bdn.NewMask", "bdn.Mask.SetBit/SetMask/Merge/Clone/GetBit/CountEnabled/IndexOfNthEnabled/NthEnabledAtIndex/Mask", "bdn.hashPointToR", "bdn.Scheme.AggregateSignatures/AggregatePublicKeys/Sign/Verify", "cosi.Commit/AggregateCommitments/Challenge/Response/AggregateResponses/Sign/Verify", "cosi.NewMask", "cosi.Mask.SetMask/SetBit/CountEnabled/IndexEnabled", "cosi.ThresholdPolicy/CompletePolicy", "share.RecoverCommit", "PubPoly.Eval"],
       ["quick: tbls 2<=t<=n<=5, all t-subsets in 3 orders plus 10 fault patterns per (t,n); BDN n<=4 every non-empty mask x 6 constructions (+ one 9-key mask), every other mask tried as verifier; CoSi n<=4 every non-empty mask, thresholds 0..n (+ one 9-key mask)", "thorough: tbls n<=8, BDN/CoSi n<=6, second solver"],
       ["the real pairing (C06) and hash-to-curve: Hash(m) is a random-oracle point", "n beyond the bounds", "mask bit kernels for symbolic indices are the E1 part"])

e2prop("C12", "Threshold Schnorr (DSS)", "c12",
       "the real sign/dss runs on symbolic distributed keys (sharing polynomials with symbolic coefficients, and outputs of a symbolic run of the real Pedersen DKG): every participant derives the same signature from any t partials in any order; it satisfies the Schnorr/EdDSA equation under the distributed key for all values; invalid-but-authenticated, forged, other-session, other-message, duplicate, out-of-range and index-swapped partials are rejected and the final signature is unaffected; fewer than t partials give no signature. On the concrete twin the signature is additionally checked with eddsa.Verify and crypto/ed25519.Verify.",
       ["dss.NewDSS", "DSS.PartialSig", "DSS.ProcessPartialSig", "DSS.EnoughPartialSig", "DSS.Signature", "DSS.hashSig", "dss.sessionID", "PartialSig.Hash", "dss.findPub", "dss.Verify (concrete twin)", "share.RecoverSecret", "PubPoly.Eval", "schnorr.Sign/Verify", "dkg(pedersen).NewDistKeyHandler/Deals/ProcessDeals/ProcessResponses (keys=dkg scenarios)"],
       ["quick: 2<=n<=4, 1<=t<=n, every t-subset of signers in 2-3 orders, 9 fault kinds per (n,t), DKG-derived keys for (3,2),(4,3)", "thorough: n<=6, DKG-derived keys also (5,3),(5,4), second solver"],
       ["dss.Verify/eddsa.Verify are Ed25519-concrete: exercised on the concrete twin only", "n > 6", "Rabin-DKG-derived keys (same DistKeyShare interface)"])

e2prop("C10", "Verifiable secret sharing (Pedersen and Rabin)", "c10",
       "the real share/vss/pedersen and share/vss/rabin (dealer, verifiers, real HKDF/AES-GCM/protobuf/Schnorr on token bytes) run on symbolic secrets under an honest or malicious dealer: per-verifier deal kind x response faults x justification behaviour x timeout x delivery order. Claims: honest run => all approve, certified, every t-subset of approved deals recovers the dealt secret (validity), SecretCommit = secret*G; a share off the committed polynomial is never approved (unsat for delta != 0), wrong index / out-of-range T / foreign recipient / unauthenticated DH key / truncated ciphertext / replay give a complaint or an error; forged, relabelled, foreign-session and duplicate responses are refused; a correct justification clears the complaint, an incorrect one marks the dealer bad for good; DealCertified() only with >= t approvals-or-correct-justifications and no invalid justification (spec computed by the harness from the history).",
       ["vss.NewDealer", "Dealer.EncryptedDeal(s)", "Dealer.PlaintextDeal", "Dealer.ProcessResponse", "Dealer.SecretCommit", "Dealer.SetTimeout", "vss.NewVerifier", "Verifier.ProcessEncryptedDeal", "Verifier.decryptDeal", "Verifier.ProcessResponse", "Verifier.ProcessJustification", "Verifier.Deal", "Verifier.SetTimeout", "Aggregator.VerifyDeal", "Aggregator.verifyResponse", "Aggregator.addResponse", "Aggregator.verifyJustification", "Aggregator.DealCertified", "(rabin) aggregator.EnoughApprovals/cleanVerifiers/deriveH", "vss.RecoverSecret", "vss.sessionID", "Response.Hash", "Justification.Hash", "Deal.Marshal/Unmarshal", "vss.dhExchange/newAEAD/context", "internal/protobuf Encode/Decode (concretely, on token bytes)", "schnorr.Sign/Verify"],
       ["quick: 2<=n<=4, every valid t; all-honest x 6 response faults x 3 timeouts x 3 orders; one faulty deal of each of 12 kinds at every position x 5 justification behaviours; two faulty deals exhaustively for n=3 (seeded 1/6 sample for n=4); both variants", "thorough: n<=6, second solver"],
       ["n > 6", "byte-level corruption of ciphertexts beyond truncation (AES-GCM is executed concretely; its authenticity is the library's)", "deals whose SessionID FIELD is altered", "authenticity of justifications (their signature is never verified by the code; not part of the property)"],
       overlay={"share/vss/pedersen/zz_verif_hook.go": "e2/overlays/vss_pedersen/zz_verif_hook.go", "share/vss/rabin/zz_verif_hook.go": "e2/overlays/vss_rabin/zz_verif_hook.go"})
PROPS["C10"]["stubs"] = ["overlay hook (add-only, not committed): Dealer.VerifEncryptDeal(i, deal) encrypts an arbitrary Deal for verifier i through the real EncryptedDeal path"]
