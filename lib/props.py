# Registry of checks: which engine parts decide which property, and the static
# parts of the evidence (functions, bounds, what lies outside the claim).

GGM = "generic-group + random-oracle model: a point is its discrete logarithm term over Q, hash outputs / Pick draws are variables keyed by the bytes hashed / drawn; a polynomial identity over Q holds in every Z_q of large characteristic"
TWIN = "each symbolic run is re-executed on the real Ed25519 (and CIRCL BLS12-381) suites with seeded concrete values; outcome traces must coincide (translator validation) and a symbolic failure counts only if it reproduces there"

PROPS = {}

PROPS["C07"] = dict(
    title="Shamir sharing",
    parts=[dict(engine="e2", cmd="c07")],
    technique="proxy-object symbolic execution of the real share/poly.go over symbolic scalars/points; every equality and every final assertion is a z3 QF_NRA validity query over all secrets and coefficients",
    level_text="bounded symbolic checking: for every enumerated (t, n, share subset, order, nil/duplicate pattern, base, zero secret) the real code is run once on symbolic values and each claim (recovered secret/commitment/polynomial equal the dealt ones, Check accepts exactly shares on the committed polynomial, Add/Mul commute with evaluation) is decided by the SMT solver for ALL values of the secret, coefficients and base point; structure is enumerated, values are not sampled",
    level_note="trusted: the concrete group arithmetic (C01-C05), z3; " + GGM + "; " + TWIN,
    functions=["share.NewPriPoly", "PriPoly.Eval", "PriPoly.Shares", "PriPoly.Commit", "PriPoly.Add", "PriPoly.Mul", "PriPoly.Equal", "share.RecoverSecret", "share.RecoverCommit", "share.RecoverPriPoly", "share.RecoverPubPoly", "share.xyScalar", "share.xyCommit", "share.lagrangeBasis", "share.minusConst", "PubPoly.Eval", "PubPoly.Shares", "PubPoly.Check", "PubPoly.Add", "PubPoly.Equal", "PubPoly.Commit"],
    bounds=["quick: 1<=t<=n<=6, all non-empty share subsets for n<=5 (seeded sample of 17 for n=6), orders identity/reverse/seeded shuffle, nil entries and one duplicate share, base nil and symbolic H, secret symbolic and 0", "thorough: n<=9, all subsets for n<=6, all permutations for n<=4, second solver (z3 5.1) cross-check"],
    outside_claim=["n > 9", "map iteration order inside xyScalar/lagrangeBasis is whatever the run produces (results are order-free terms decided semantically)", "share indices >= n are not rejected by share/poly.go and are not part of the claim"],
    assumptions=[GGM, TWIN],
)

def e2prop(pid, title, cmd, what, functions, bounds, outside, extra_parts=None, overlay=None):
    part = dict(engine="e2", cmd=cmd)
    if overlay:
        part["overlay"] = overlay
    PROPS[pid] = dict(
        title=title,
        parts=[part] + (extra_parts or []),
        technique="proxy-object symbolic execution of the real kyber protocol code over a symbolic group (E2 symgroup); every Equal/token decision and every assertion is a z3 QF_NRA query over all secrets, coins and oracle outputs; failures are replayed on the real suites",
        level_text="bounded symbolic checking: " + what + " Structure (sizes, subsets, orders, fault menu) is enumerated within the stated bounds; for each enumerated case the SMT solver decides the claims for ALL values of the symbolic secrets/coins/challenges (completeness claims are validity queries; rejection claims are 'generically rejected', and 'never accepted under stated non-degeneracy hypotheses' where marked).",
        level_note="trusted: the concrete group arithmetic (C01-C05), hash/XOF/AEAD internals (run concretely on token bytes), z3; " + GGM + "; " + TWIN,
        functions=functions, bounds=bounds, outside_claim=outside, assumptions=[GGM, TWIN],
    )

e2prop("C13", "PVSS and DLEQ", "c13",
       "the real share/pvss and proof/dleq run on symbolic secrets, keys, base points and coins: honest encrypted/decrypted shares verify, any >= t decrypted shares (all subsets, several orders) recover secret*G, fewer are refused; each single-field mutation of an encrypted or decrypted share, of the commitments, keys or base point is excluded from the batch results; a DLEQ proof for x is never accepted for x' != x.",
       ["pvss.EncShares", "pvss.computeCommitments", "pvss.computeGlobalChallenge", "pvss.VerifyEncShare", "pvss.VerifyEncShareBatch", "pvss.DecShare", "pvss.DecShareBatch", "pvss.VerifyDecShare", "pvss.VerifyDecShareBatch", "pvss.RecoverSecret", "dleq.NewDLEQProof", "dleq.NewDLEQProofBatch", "dleq.Proof.Verify", "share.RecoverCommit"],
       ["quick: 2<=n<=5, 1<=t<=n, all subsets of decrypted shares of size >= t-1 with identity/reverse/seeded orders; mutations at (n,t) in {(3,2),(4,3)} for every trustee j and 12 encrypted-share / 9 decrypted-share mutation kinds; DLEQ: 9 mutations, batches of 1..3", "thorough: n<=8, mutations also at (5,3),(6,4),(4,4), second solver"],
       ["collision resistance of the hash (random-oracle idealisation)", "n > 8", "the share index S.I is not covered by the proofs (sH is supplied by the caller): outcome recorded, not asserted"])

e2prop("C08", "Schnorr / ring signatures", "c08",
       "the real sign/schnorr and sign/anon (ring signatures, linkable and not) run on symbolic keys, nonces and oracle outputs: honest signatures verify (validity of the verification equation), every altered message / key / ring member / signature block / scope / length is rejected, linkage tags coincide exactly for the same key and scope (tags of different keys never coincide).",
       ["schnorr.Sign", "schnorr.Verify", "schnorr.VerifyWithChecks", "schnorr.hash", "schnorr.Scheme.NewKeyPair/Sign/Verify", "anon.Sign", "anon.Verify", "anon.signH1pre", "anon.signH1"],
       ["quick: 5 message lengths (0..200 bytes, concrete bytes: the hash is an oracle); ring sizes 1..4, every signer position, with and without link scope; every 32-byte block of the signature altered, every ring member replaced", "thorough: ring sizes up to 8, second solver"],
       ["byte-identity of EdDSA with crypto/ed25519 for every message (needs SHA-512 symbolically): exercised only as concrete translator validation", "message lengths beyond the listed ones (hash = oracle, length-independent)", "canonicity / small-order predicates of Ed25519 are the E1 part"])

e2prop("C09", "BLS / threshold BLS / BDN / CoSi", "c09",
       "the real sign/bls, sign/tbls, sign/bdn and sign/cosi run over a symbolic pairing suite (e(aG1,bG2)=ab*GT) on both group assignments: honest signatures verify; the recovered threshold signature equals secret*H(m) for every t-subset and order, also alongside invalid, foreign, wrong-index, duplicate, short and empty partials; fewer than t valid partials are refused; a BDN aggregate verifies under the aggregate key of exactly its mask (all other masks rejected) for every way of constructing the mask; a CoSi signature verifies exactly for its commitment, response, mask and policy.",
       ["bls.NewSchemeOnG1/G2", "bls.scheme.NewKeyPair/Sign/Verify", "tbls.scheme.Sign/IndexOf/VerifyPartial/VerifyRecovered/Recover", "tbls.SigShare.Index/Value", "bdn.NewMask", "bdn.Mask.SetBit/SetMask/Merge/Clone/GetBit/CountEnabled/IndexOfNthEnabled/NthEnabledAtIndex/Mask", "bdn.hashPointToR", "bdn.Scheme.AggregateSignatures/AggregatePublicKeys/Sign/Verify", "cosi.Commit/AggregateCommitments/Challenge/Response/AggregateResponses/Sign/Verify", "cosi.NewMask", "cosi.Mask.SetMask/SetBit/CountEnabled/IndexEnabled", "cosi.ThresholdPolicy/CompletePolicy", "share.RecoverCommit", "PubPoly.Eval"],
       ["quick: tbls 2<=t<=n<=5, all t-subsets in 3 orders plus 10 fault patterns per (t,n); BDN n<=4 every non-empty mask x 6 constructions (+ one 9-key mask), every other mask tried as verifier; CoSi n<=4 every non-empty mask, thresholds 0..n (+ one 9-key mask)", "thorough: tbls n<=8, BDN/CoSi n<=6, second solver"],
       ["the real pairing (C06) and hash-to-curve: Hash(m) is a random-oracle point", "n beyond the bounds", "mask bit kernels for symbolic indices are the E1 part"])

e2prop("C12", "Threshold Schnorr (DSS)", "c12",
       "the real sign/dss runs on symbolic distributed keys (sharing polynomials with symbolic coefficients, and outputs of a symbolic run of the real Pedersen DKG): every participant derives the same signature from any t partials in any order; it satisfies the Schnorr/EdDSA equation under the distributed key for all values; invalid-but-authenticated, forged, other-session, other-message, duplicate, out-of-range and index-swapped partials are rejected and the final signature is unaffected; fewer than t partials give no signature. On the concrete twin the signature is additionally checked with eddsa.Verify and crypto/ed25519.Verify.",
       ["dss.NewDSS", "DSS.PartialSig", "DSS.ProcessPartialSig", "DSS.EnoughPartialSig", "DSS.Signature", "DSS.hashSig", "dss.sessionID", "PartialSig.Hash", "dss.findPub", "dss.Verify (concrete twin)", "share.RecoverSecret", "PubPoly.Eval", "schnorr.Sign/Verify", "dkg(pedersen).NewDistKeyHandler/Deals/ProcessDeals/ProcessResponses (keys=dkg scenarios)"],
       ["quick: 2<=n<=4, 1<=t<=n, every t-subset of signers in 2-3 orders, 9 fault kinds per (n,t), DKG-derived keys for (3,2),(4,3)", "thorough: n<=6, DKG-derived keys also (5,3),(5,4), second solver"],
       ["dss.Verify/eddsa.Verify are Ed25519-concrete: exercised on the concrete twin only", "n > 6", "Rabin-DKG-derived keys (same DistKeyShare interface)"])

e2prop("C10", "Verifiable secret sharing (Pedersen and Rabin)", "c10",
       "the real share/vss/pedersen and share/vss/rabin (dealer, verifiers, real HKDF/AES-GCM/protobuf/Schnorr on token bytes) run on symbolic secrets under an honest or malicious dealer: per-verifier deal kind x response faults x justification behaviour x timeout x delivery order. Claims: honest run => all approve, certified, every t-subset of approved deals recovers the dealt secret (validity), SecretCommit = secret*G; a share off the committed polynomial is never approved (unsat for delta != 0), wrong index / out-of-range T / foreign recipient / unauthenticated DH key / truncated ciphertext / replay give a complaint or an error; forged, relabelled, foreign-session and duplicate responses are refused; a correct justification clears the complaint, an incorrect one marks the dealer bad for good; DealCertified() only with >= t approvals-or-correct-justifications and no invalid justification (spec computed by the harness from the history).",
       ["vss.NewDealer", "Dealer.EncryptedDeal(s)", "Dealer.PlaintextDeal", "Dealer.ProcessResponse", "Dealer.SecretCommit", "Dealer.SetTimeout", "vss.NewVerifier", "Verifier.ProcessEncryptedDeal", "Verifier.decryptDeal", "Verifier.ProcessResponse", "Verifier.ProcessJustification", "Verifier.Deal", "Verifier.SetTimeout", "Aggregator.VerifyDeal", "Aggregator.verifyResponse", "Aggregator.addResponse", "Aggregator.verifyJustification", "Aggregator.DealCertified", "(rabin) aggregator.EnoughApprovals/cleanVerifiers/deriveH", "vss.RecoverSecret", "vss.sessionID", "Response.Hash", "Justification.Hash", "Deal.Marshal/Unmarshal", "vss.dhExchange/newAEAD/context", "internal/protobuf Encode/Decode (concretely, on token bytes)", "schnorr.Sign/Verify"],
       ["quick: 2<=n<=4, every valid t; all-honest x 6 response faults x 3 timeouts x 3 orders; one faulty deal of each of 12 kinds at every position x 5 justification behaviours; two faulty deals exhaustively for n=3 (seeded 1/6 sample for n=4); both variants", "thorough: n<=6, second solver"],
       ["n > 6", "byte-level corruption of ciphertexts beyond truncation (AES-GCM is executed concretely; its authenticity is the library's)", "deals whose SessionID FIELD is altered", "authenticity of justifications (their signature is never verified by the code; not part of the property)"],
       overlay={"share/vss/pedersen/zz_verif_hook.go": "e2/overlays/vss_pedersen/zz_verif_hook.go", "share/vss/rabin/zz_verif_hook.go": "e2/overlays/vss_rabin/zz_verif_hook.go"})
PROPS["C10"]["stubs"] = ["overlay hook (add-only, not committed): Dealer.VerifEncryptDeal(i, deal) encrypts an arbitrary Deal for verifier i through the real EncryptedDeal path"]

e2prop("C11", "Distributed key generation (Pedersen incl. resharing and fast-sync; Rabin)", "c11",
       "the real share/dkg state machines run on symbolic secrets with real ECIES/Schnorr on token bytes; the harness delivers the broadcast bundles as slices in several orders and plays up to n-t faulty participants from a menu (absent, invalid/garbled/misdirected shares with and without (in)valid justification, wrong-length polynomials, wrong session ids, duplicate and conflicting bundles, false complaints, out-of-range indices). Claims at the honest nodes: identical QUAL and identical commitments (solver-proved equal), every share on the public polynomial, every t-subset of honest shares reconstructs a secret matching the public key, key = sum of the qualified dealers' commitments (after resharing: public key unchanged and old/new shares encode the same secret), unjustified-invalid dealers disqualified, honest dealers qualified, everyone completes when faults <= n-t.",
       ["dkg.NewDistKeyHandler", "DistKeyGenerator.Deals", "ProcessDeals", "ProcessResponses", "ProcessJustifications", "computeResult", "computeDKGResult", "computeResharingResult", "checkIfEvicted", "StatusMatrix.*", "DealBundle/ResponseBundle/JustificationBundle.Hash", "Result.PublicEqual", "ecies.Encrypt/Decrypt", "share.RecoverPriPoly/RecoverCommit/PubPoly.*"],
       ["quick: fresh DKG 2<=n<=4, n/2+1<=t<=n, regular and fast-sync, 3 delivery orders; 21 fault behaviours x faulty node (every node for n=3, every other for n=4); resharing from (3,2) and (4,3) to same / +1 / -1 / disjoint groups, every new threshold, 5 dealer faults", "thorough: n<=6, two simultaneous faulty nodes, resharing from (5,3),(4,2), second solver"],
       ["the Go scheduler's own interleavings and real timers (bundles are delivered as slices; set.To*() map order is whatever the run produces and the assertions are order-free)", "n > 6, adversaries outside the menu", "Config.Threshold == 0 (documented optional) makes NewDistKeyHandler index an empty slice: outside the quantifier, reported as an observation in DESIGN.md"])

e2prop("C14", "Sigma-protocol proofs", "c14",
       "the real proof package (Rep/And/Or predicates, Fiat-Shamir HashProve/HashVerify with the real fixbuf encoding on token bytes, and the deniable clique protocol driven in lock-step) runs on symbolic secrets: for every predicate tree of the menu, every choice of proven Or-branch and truth pattern of the other branches the proof is accepted (validity of all verifier equations); wrong secrets / a false claimed branch give no accepted proof; another protocol name, another predicate, reordered branches, any replaced public point, any replaced proof element, truncation and splicing are rejected.",
       ["proof.Rep/And/Or", "repPred/andPred/orPred.commit/respond/getCommits/verify/enumVars", "proof.prove/verify/prover/verifier/makeScalars/sendResponses/getResponses", "proof.HashProve", "proof.HashVerify", "hashProver.Put/PubRand/PriRand/consumeMsg/Proof", "hashVerifier.Get/PubRand/consumeMsg", "proof.DeniableProver", "deniableProver.run/initStep/proofStep/challengeStep", "fixbuf Read/Write (real code)"],
       ["quick: 6 branch kinds (1-2 term representations, And with shared / distinct / repeated variables); single predicates, Or of 2 branches (seeded third of the 36 ordered pairs x choice x truth), 24 seeded Or of 3; every 32-byte proof element replaced by a fresh scalar and by a fresh point; deniable protocol with 2 and 3 participants, honest and with one liar", "thorough: all ordered pairs, 120 seeded trees with up to 4 branches, second solver"],
       ["byte-level mutation inside an element (tokens are opaque in the symbolic run)", "deniable protocol with more than 3 participants", "nested Or inside And (the package supports Or-of-And only)"])

e2prop("C15", "Verifiable shuffles", "c15",
       "the real shuffle package runs on ciphertexts of unknown discrete logarithm: honest pair-shuffle proofs verify for every permutation (validity of equations (31)-(35), the binding to the embedded simple shuffle, and all simple-shuffle equations incl. the Div chain), as do simple shuffles, biffles and sequence shuffles; outputs that replace, duplicate, swap, scale, sum, drop or add ciphertexts, altered generators/keys/inputs, any replaced proof element, other protocol names and wrong sequence coefficients are rejected; an out-of-package forger that satisfies (33)-(35) for a linear combination of ciphertexts with an unrelated simple-shuffle proof must be rejected.",
       ["shuffle.Shuffle", "PairShuffle.Init/Prove/Verify", "shuffle.Verifier", "SimpleShuffle.Init/Prove/Verify", "shuffle.thenc/thver", "shuffle.Biffle/BiffleVerifier/bifflePred/bifflePoints", "shuffle.SequencesShuffle/GetSequenceVerifiable", "proof.HashProve/HashVerify", "proof Or/And/Rep machinery (biffle)"],
       ["quick: k=2..4 all permutations; 10 tamper families for every 6th permutation (all for k=2); every proof element replaced by a fresh scalar and a fresh point; linear-combination forger k=2..4; simple shuffle k=2..4 (permutation, non-permutation, wrong Gamma); biffle 7 cases; sequences NQ=1..3 x k=2..3 x 4 cases", "thorough: k up to 6 (seeded permutations above 4), second solver"],
       ["k > 6, NQ > 3", "forgers outside the listed families", "reordering the INPUT list (same multiset) is recorded, not asserted"])

e2prop("C16", "Encryption (ECIES, anonymous-set, IBE)", "c16",
       "the real encrypt/ecies, sign/anon (enc.go) and encrypt/ibe run over a symbolic group / pairing suite: the two DH (pairing) values computed by sender and recipient are proved equal by the solver, hence identical key bytes and the real HKDF/AES-GCM/XOF invert; wrong keys/identities, replaced ephemeral points, altered key slots, body and tag bits, truncations and extensions are rejected; over-long IBE messages are refused; no 8-byte window of an accepted plaintext occurs in its ciphertext; Decrypt leaves the caller's buffer intact.",
       ["ecies.Encrypt/Decrypt/deriveKey", "anon.Encrypt/Decrypt/encryptKey/decryptKey/header", "ibe.EncryptCCAonG1/G2", "ibe.DecryptCCAonG1/G2", "ibe.EncryptCPAonG1/DecryptCPAonG1", "ibe.h3/h4/gtToHash/xor", "key.Pair.Gen"],
       ["quick: ECIES message lengths {0,1,15,16,31,32,33,64}; anon rings 1..4 x lengths {0,1,16,33}, every recipient, every key slot altered for every recipient, adversarial re-tagging; IBE-CCA on G1 and G2 x lengths {0,1,16,31,32,33,64}; IBE-CPA lengths {0,1,16,32,33,48,80,65535,65536}", "thorough: more lengths up to 1000, rings up to 6, second solver"],
       ["AES-GCM / HKDF / BLAKE2 internals (executed concretely on token bytes)", "every single-bit flip (GCM authenticity is the library's): a handful of positions per region are flipped", "message lengths outside the lists", "IBE pad/mask byte logic for symbolic message bytes is the E1 part"])

E1NOTE = "E1 ssaexec: my own go/ssa -> SMT-LIB2 symbolic executor; the encoding is regenerated from /repo's source on every run; harnesses are in-package Go functions injected by overlay"

def e1prop(pid, title, spec, what, bounds_extra, outside, extra_parts=None, e2=None):
    parts = [dict(engine="e1", name=pid.lower() + "-e1", spec=spec)]
    if e2:
        parts.append(dict(engine="e2", cmd=e2))
    PROPS[pid] = dict(
        title=title, parts=parts + (extra_parts or []),
        technique="symbolic execution of the real functions from go/ssa into SMT-LIB2 (bit-vectors for byte/bit code, integers with solver-checked overflow obligations and product abstraction for limb arithmetic, cut points with assume/guarantee interfaces); z3 5.1 decides every obligation over all inputs within the stated bounds; satisfying assignments are replayed natively",
        level_text="bounded symbolic checking of the real code: " + what + " Every obligation (functional claim, no-overflow, no-panic, unwinding) is a self-contained SMT query; unsat = holds for every input in the bound; sat = concrete input, replayed against the compiled code before it is reported.",
        level_note="trusted: go/ssa, my SSA->SMT translation (validated by pushing concrete inputs through both the native function and the encoding where the harness is replayable), z3; stubs and cut-point interfaces as listed in the evidence",
        functions=[], bounds=bounds_extra, outside_claim=outside, assumptions=[E1NOTE],
    )

e1prop("C02", "Scalars are Z_q", "C02.json",
       "Ed25519 scalar limb arithmetic scAdd/scSub/scMul/scMulAdd/scReduce is verified for ALL byte inputs in three pieces per function that meet at the limb interface: bytes->limbs (bit-vectors: sum limb_i 2^21i = LE(bytes), limb bounds), limbs->limbs (integers: result = op(inputs) mod l, 0 <= result < l i.e. canonical, every int64 operation free of overflow, OR-as-ADD side conditions), limbs->bytes (bit-vectors: LE(out) = sum s_i 2^21i).",
       ["no loop in the limb functions: the claim covers all 2^256 (2^512 for scReduce) inputs; the three pieces compose by the shared interface formula (limb bounds proved by the producer are exactly the ones assumed by the consumer)"],
       ["CIRCL / gnark / kilic scalar internals, math/big and bigmod (stub contracts)", "Pick's stream (C19)"])

e1prop("C01", "Group laws (by decomposition: kernels, formulas, algorithms)", "C01.json",
       "kernel layer: every Ed25519 field kernel of fe.go (feMul, feSquare, feSquare2, feAdd, feSub, feNeg, feCopy, feZero, feOne, feCMove, feToBytes, feFromBytes) is a ring operation on the represented value mod 2^255-19 for ALL limb vectors within the input bounds documented in the source, with every int32/int64 operation free of overflow and the documented output limb bounds (503 overflow obligations for feMul alone).",
       ["kernel layer: all inputs within the documented limb bounds; no loops", "formula and algorithm layers: see the per-harness bounds in the evidence"],
       ["P-256 (Go's nistec), BLS12-381 back-ends (kilic, circl, gnark), the residue group's modexp, bn gfp assembly, GT/gfp12 towers: external code or assembly, not encodable; only their Go adapter glue is examined (C05)", "the textbook theorem that the affine (twisted-)Edwards / Weierstrass addition laws form an abelian group (trusted, DESIGN.md 6/C01)",
        "the precomputed base-point table's contents (assumed to hold (i+1)*256^pos*B; exercised natively by the replay entry)"],
       extra_parts=[dict(engine="e1", name="c01-alg", spec="C01alg.json", timeout={"quick": 2400, "thorough": 6 * 3600})])
PROPS["C01"]["level_text"] += " Algorithm layer: geScalarMult, geScalarMultBase (all scalars with a[31] <= 127) and geScalarMultVartime (byte windows) compute s*A, with the group operations replaced by their action on the integer multiple of A (free-group abstraction) so that what is verified is the scalar recoding, the table construction, the table lookups and the double-and-add schedule; the constant-time lookups selectCached / selectPreComputed are verified on their real bodies for all table contents and digits (bit-vectors)."
PROPS["C01"]["bounds"] += ["algorithm layer: all 2^255 scalars for the two constant-time algorithms; variable-time: zero scalar and one-byte window at offset 31 (quick), further windows (thorough); selectCached/selectPreComputed: all 8x40 (8x30) limb values, digits -8..8"]



def add_e1_part(pid, spec, extra_text, extra_bounds=None, extra_outside=None):
    P = PROPS[pid]
    P["parts"].append(dict(engine="e1", name=pid.lower() + "-e1", spec=spec))
    P["technique"] += "; plus symbolic execution (E1 ssaexec, go/ssa -> SMT-LIB2 bit-vectors/integers) of the byte- and bit-level kernels"
    P["level_text"] += " E1 part: " + extra_text
    P["bounds"] = P.get("bounds", []) + (extra_bounds or [])
    P["outside_claim"] = P.get("outside_claim", []) + (extra_outside or [])
    P["assumptions"] = P.get("assumptions", []) + [E1NOTE]

add_e1_part("C08", "C08.json",
            "scalar.IsCanonical(sb) <=> LE(sb) < l, point.IsCanonical(s) <=> LE(s with bit 255 cleared) < p and HasSmallOrder() <=> the encoding is one of the five listed small-order encodings, each for ALL 2^256 byte strings (bit-vector queries), plus the length guards.",
            ["E1: all 2^256 32-byte inputs; lengths 0, 31, 33 for the guards"],
            ["HasSmallOrder is checked over all byte strings through a stub of MarshalBinary; a counterexample that is not the encoding of a curve point is a candidate only (reported INCONCLUSIVE)"])

e1prop("C19", "XOFs and random streams", "C19.json",
       "random.Bits: for every bit length in the bound, exact in {false,true} and ALL stream bytes: length = ceil(n/8), value < 2^n, top bit forced iff exact, every unforced bit is the stream's bit unchanged (no bias from masking), no panic. random.Int: for every modulus in the bound and all stream bytes, the result is the first candidate below the modulus, every rejected candidate was >= modulus (pure rejection sampling, no modulo step), 0 <= result < modulus; math/big modelled as mathematical integers.",
       ["quick: Bits for bit lengths 0..24, 31..33, 40, 64, 65; Int for moduli {1,2,3,7,8,9,255,256,257,65537}, at most 3 rejection rounds (stated assumption)", "thorough: Bits 0..40, 47..49, 63..65, 72; Int for 23 moduli up to 65537; second solver"],
       ["the sponge/compression functions of BLAKE2/SHAKE and sha256 themselves (golang.org/x/crypto): the XOF wrappers are verified over an ARBITRARY underlying XOF, so chunk-independence of the underlying Read is assumed, not shown", "whole operation sequences of the XOF wrappers: covered by one inductive step per operation from an arbitrary scratch-buffer pre-state, not by enumerating histories", "Int with more than 3 rejection rounds; moduli above 2^17 (the code path is identical; big.Int is a stub)", "the multi-reader random.New stream (sha256/hkdf mixing is external)"],
       extra_parts=[dict(engine="e1", name="c19-xof", spec="C19xof.json")])
PROPS["C19"]["level_text"] += " XOF wrappers (blake2xb, blake2xs, keccak): each operation (Read, Write, XORKeyStream, Reseed, Clone, New+Reset) is executed from an arbitrary pre-state (scratch buffer of each listed length with arbitrary contents) over an arbitrary underlying XOF whose output bytes are symbolic: XORKeyStream consumes exactly len(src) stream bytes and XORs them, Reseed keys a fresh XOF with exactly the next 128 output bytes and is writable, Clone forks the underlying state, New splits the seed without dropping a byte and Reset re-absorbs the remainder."
PROPS["C19"]["bounds"] += ["XOF wrappers: scratch-buffer lengths {nil,0,1,127,128,129,300}, chunk lengths {0,1,127,128,129,600}, seed lengths {0,1,31,32,33,63,64,65,128,129,300}; all byte values"]

e1prop("C04", "Decoding untrusted bytes", "C04.json",
       "point decoders are executed on byte slices of every length in the bound with arbitrary (symbolic) content: every potentially panicking instruction (index, slice bounds, nil dereference, explicit panic) is an obligation 'unreachable'; a successful decode implies the length/format checks and the membership predicate were passed with the decoded coordinates (the predicate of external libraries is a recording stub).",
       ["edwards25519vartime decodePoint: lengths {0,1,31,32,33} quick, + {2,16,64,65} thorough; P-256 UnmarshalBinary: lengths {0,1,33,64,65,66}"],
       ["BLS12-381 subgroup checks (external libraries)", "raw bit-level fuzz of the reflective protobuf decoder (reflection is outside E1)", "composite messages (signatures, proofs, ciphertexts, deals) are exercised structurally by the E2 checks of C08-C16 (truncation, replaced fields): not repeated here"])

e1prop("C05", "Value semantics / aliasing", "C05.json",
       "every aliasing pattern of receiver and operands (distinct, r=a, r=b, a=b, r=a=b) of the adapter methods is executed symbolically; the result must equal the result of the same operation on fresh copies, operands other than the receiver stay unchanged, the receiver is returned; Clone/Set copies are independent of their source under one further mutating call on either object. External libraries are uninterpreted functions with stated read/write contracts (equalities decided in QF_UF); math/big uses a shared-storage model (struct copies share limbs, methods write in place).",
       ["programs: one operation per aliasing pattern (5 patterns x {Add, Sub}) for gnark G1 and kilic GT; Null/Base for kilic G1/G2; residuePoint: {Clone, Set} x {mutate source, mutate copy} x {Null, Add, Set} quick, + {Base, Neg, Sub} thorough"],
       ["the external libraries themselves (contracts are trusted and listed)", "programs longer than copy + one call", "ed25519 point/scalar, vartime points, bn256/bn254 points: aliasing of the formula code is covered by the formula-layer harnesses of C01 where registered"])

e1prop("C20", "Read-only use is race free (sufficient condition)", "C20.json",
       "effect analysis by symbolic execution: between effectsBegin and effectsEnd every store (incl. the receiver-writes of the math/big model) whose target existed before the call is an obligation 'unreachable on every feasible path'. A read-only method that passes executes no write to shared memory, which implies race freedom and sequential results for concurrent read-only use. A violated obligation is confirmed natively by running two goroutines on one shared value under go test -race.",
       ["edwards25519vartime projPoint and extPoint: MarshalBinary, String, Data, Equal, Clone, MarshalSize, and use as operand of Add / Neg / Set on a fresh receiver; arbitrary coordinates; one call",
        "edwards25519 scalar (arbitrary 32 bytes, including unreduced values): MarshalBinary, Equal, Clone, String, MarshalSize, MarshalTo, IsCanonical, operand of Add/Sub/Neg/Set/Mul/Div; point (arbitrary limbs): MarshalBinary, Equal, Clone, String, MarshalSize, EmbedLen, Data, HasSmallOrder, MarshalTo, operand of Add/Sub/Neg/Set/Mul, scalar of a base multiplication; one call",
        "the field/scalar limb kernels are summarised as 'writes only its output parameter' (feToBytes: output and input) inside these harnesses; each summary is itself checked on the kernel's real body"],
       ["the Go scheduler's interleavings are not explored (not needed when the condition holds; not decidable by this technique when it fails: then the race detector run is the confirmation)", "external libraries and their internal caches; pairing evaluation; suites' random streams", "this is a weaker, sequential reading of the property's race-detector wording", "in effect harnesses integer values are over-approximated where the integer encoding has no exact form (XOR/AND of two symbolic operands, symbolic slice extents): every branch on such a value is explored both ways"])

e1prop("C03", "Encodings: fixed length, canonical, round trip", "C03.json",
       "feToBytes produces the canonical 32-byte little-endian encoding of value mod p (value in [0,p-1], bit 255 clear) for all in-bound limb vectors, in two pieces (limbs -> canonical limbs, canonical limbs -> bytes); feFromBytes represents LE(bytes mod 2^255) mod p for all 2^256 strings (together: decode(encode(x)) = x and re-encoding is byte-identical); the scalar byte packing of scAdd/scMulAdd/scReduce is the exact LE encoding of the canonical result; scalar.UnmarshalBinary carries exactly the 32 bytes (other lengths refused, value untouched); point.Equal <=> all 32 encoding bytes equal; mod.Int.UnmarshalBinary accepts exactly MarshalSize bytes with value < modulus in both byte orders; the stream wrappers PointMarshalTo / PointUnmarshalFrom carry exactly the bytes of MarshalBinary / hand exactly MarshalSize bytes to UnmarshalBinary for every stream length and chunking in the bound.",
       ["field/scalar kernels: all inputs; scalar.UnmarshalBinary lengths {0,31,32,33,64}; mod.Int moduli {251, 65521} x both byte orders x lengths {0, size-1, size, size+1}; stream wrappers: 5-byte encodings, streams of 0..8 bytes in chunks of 1,2,5,8"],
       ["kilic/circl/gnark serialisers, P-256 and bn256 MarshalBinary (padding offsets) and the hex helpers of util/encoding: not encoded yet", "mod.Int.MarshalBinary needs math/big.Bytes of a symbolic value (symbolic length): not encoded"])

e1prop("C17", "Pick / Embed / hash-to-group (byte logic)", "C17.json",
       "Ed25519 Embed and Data with the group arithmetic stubbed (FromBytes / ToBytes / Mul / Equal return arbitrary recorded values): for every data length in the bound and all contents, the candidate handed to the decoder carries length byte min(29, len) and the data at offset 1; a returned point passed its membership test on the last attempt (l*P = O with data, cofactor multiplication and P != O without); Data returns exactly the embedded bytes for every length byte <= 29 and an error above, never a slice panic.",
       ["quick: Embed data lengths {nil, 0, 1, 29, 30} (thorough + {2, 15, 28, 31, 32, 37}), at most 2 attempts (stated assumption); Data length bytes {0, 1, 29, 30, 255} (thorough + {2, 15, 28, 31, 32, 127, 128})"],
       ["that hash-to-curve outputs are on the curve / in the subgroup (Elligator2, SvdW, SSWU over hash outputs), RFC 9380 vectors, BLS back-ends", "p256 / residue / bn256 / vartime Embed: not encoded yet", "'differs for different messages' is the hash's property"])

e1prop("C18", "Implementations and build variants agree (through a common reference model)", "C18.json",
       "the pure-Go field arithmetic selected by the build tag `generic` (bn256 and bn254 gfpAdd, gfpSub, gfpNeg, gfpCarry; the package is loaded with -tags generic) computes exactly (a+b) mod p, (a-b) mod p, (-a) mod p with results < p for ALL 256-bit a, b < p - the reference model that the assembly of the default build is trusted to implement; the Ed25519 kernels of C01/C02 are build-variant independent Go code verified against the same integer model.",
       ["all 2^256-bit operands below p (bit-vector queries, 4 x uint64 limbs, loops of 4 iterations fully unrolled)"],
       ["amd64/arm64 assembly (not encodable: only the Go side is)", "gfpMul (Montgomery, 16x32-bit partial products) not encoded yet", "kilic vs circl vs gnark (external), P-256 vs reference, constantTime build (bigmod.Nat model not built), whole-program transcripts",
        "variable-time Ed25519 multiplication for scalars with non-zero bytes spread over more than the stated window"],
       extra_parts=[dict(engine="e1", name="c18-alg", spec="C01alg.json", only="^alg\\.", timeout={"quick": 2400, "thorough": 6 * 3600})])
PROPS["C18"]["level_text"] += " Constant-time, base-table and variable-time (AllowVarTime) Ed25519 scalar multiplication all compute s*A: geScalarMult and geScalarMultBase for ALL scalars with a[31] <= 127, geScalarMultVartime for all scalars inside the stated byte windows (group operations abstracted to their action on the multiple k of A; table lookups verified on their real bodies); hence the three paths agree on those scalars."
PROPS["C18"]["bounds"] += ["geScalarMult / geScalarMultBase: all 2^255 scalars; geScalarMultVartime: zero scalar and all scalars within one byte at offset 31 (quick), offsets 0, 1, 15, 30 and two-byte windows (thorough)"]

