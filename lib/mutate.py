#!/usr/bin/env python3
"""mutate.py [ids...|--prop Cxx|--all]: self-test of detection power.
Each catalogued mutant (a text edit that compiles and survives the repository's own tests) is applied to a
scratch copy of /repo (never /repo itself); the property's quick check is run against the copy
(VERIF_REPO) and must exit 1 with a VIOLATION line."""
import json, os, shutil, subprocess, sys, tempfile, time
V = os.path.dirname(os.path.dirname(os.path.abspath(__file__)))
cat = json.load(open(os.path.join(V, "mutants", "catalog.json")))
args = [a for a in sys.argv[1:] if a != "--survive"]
tier = "quick"
if "--thorough" in args:
    tier = "thorough"; args.remove("--thorough")
if args and args[0] == "--prop":
    sel = [m for m in cat if m["property"] == args[1]]
elif args and args[0] == "--all":
    sel = cat
else:
    sel = [m for m in cat if m["id"] in args]
results = {}
for m in sel:
    if m.get("equivalent"):
        results[m["id"]] = "EQUIVALENT (not scored)"
        print(m["id"], "EQUIVALENT (not scored):", m.get("note", ""))
        continue
    tmp = tempfile.mkdtemp(prefix="vmut_")
    try:
        repo = os.path.join(tmp, "repo")
        shutil.copytree("/repo", repo, ignore=shutil.ignore_patterns(".git"))
        p = os.path.join(repo, m["file"])
        s = open(p).read()
        if m["old"] not in s:
            results[m["id"]] = "PATTERN-NOT-FOUND"
            print(m["id"], "PATTERN-NOT-FOUND"); continue
        open(p, "w").write(s.replace(m["old"], m["new"], 1))
        if "--survive" in sys.argv or ("survives_repo_tests" not in m and m.get("tests")):
            ge = dict(os.environ, GOFLAGS="-mod=mod", GOPROXY="off", GOSUMDB="off", GOTOOLCHAIN="local", PATH="/opt/veriftools/go1.26.8/bin:" + os.environ["PATH"])
            rt = subprocess.run(["go", "test", "-vet=off", "-count=1"] + m.get("tests", ["./..."]), cwd=repo, env=ge, stdout=subprocess.PIPE, stderr=subprocess.STDOUT, text=True)
            m["survives_repo_tests"] = rt.returncode == 0
            print(m["id"], "repo tests:", "PASS (mutant survives)" if rt.returncode == 0 else "FAIL (killed by the suite): " + " ".join(l for l in rt.stdout.splitlines() if "FAIL" in l)[:200])
            json.dump(cat, open(os.path.join(V, "mutants", "catalog.json"), "w"), indent=1)
            if rt.returncode != 0:
                results[m["id"]] = "KILLED-BY-SUITE"
                continue
        env = dict(os.environ, VERIF_REPO=repo, VERIF_EVIDENCE_DIR=os.path.join(tmp, "ev"))
        t0 = time.time()
        r = subprocess.run([os.path.join(V, "check"), m["property"], tier], env=env, stdout=subprocess.PIPE, stderr=subprocess.STDOUT, text=True)
        viol = [l for l in r.stdout.splitlines() if l.startswith("VIOLATION")]
        verdict = "DETECTED" if r.returncode == 1 and viol else ("INCONCLUSIVE" if r.returncode == 2 else "MISSED")
        results[m["id"]] = verdict
        print("%s %s exit=%d %.0fs %s" % (m["id"], verdict, r.returncode, time.time() - t0, (viol[0][:230] if viol else r.stdout.strip().splitlines()[-1][:230] if r.stdout.strip() else "")))
        if verdict != "DETECTED" and os.environ.get("MUT_VERBOSE"):
            print(r.stdout[-3000:])
    finally:
        shutil.rmtree(tmp, ignore_errors=True)
rp = os.path.join(V, "mutants", "last_results.json")
allr = json.load(open(rp)) if os.path.exists(rp) else {}
allr.update(results)
json.dump(allr, open(rp, "w"), indent=1, sort_keys=True)
