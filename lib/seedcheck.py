#!/usr/bin/env python3
"""seedcheck.py <src_out_dir> <seed_id> [--tier quick|thorough]
Confirms an independently written breaking change (patch.diff + demo_test.go + meta.json) in scratch copies of /repo:
 builds, existing tests of the touched packages pass, the demonstration fails with the change and passes without it;
then runs the property's check against the changed copy and records everything under /verif/seeded/<seed_id>/."""
import json, os, re, shutil, subprocess, sys, tempfile, time
V = os.path.dirname(os.path.dirname(os.path.abspath(__file__)))
src, sid = sys.argv[1], sys.argv[2]
tier = "quick"
if "--tier" in sys.argv:
    tier = sys.argv[sys.argv.index("--tier") + 1]
TAGS = []
if "--tags" in sys.argv:  # build tags needed by the demonstration (e.g. generic: the pure-Go field arithmetic)
    TAGS = ["-tags", sys.argv[sys.argv.index("--tags") + 1]]
meta = json.load(open(os.path.join(src, "meta.json")))
pid = meta["property"]
env = dict(os.environ, GOFLAGS="-mod=mod", GOPROXY="off", GOSUMDB="off", GOTOOLCHAIN="local", PATH="/opt/veriftools/go1.26.8/bin:" + os.environ["PATH"])
def sh(cmd, cwd, timeout=2400):
    r = subprocess.run(cmd, cwd=cwd, env=env, stdout=subprocess.PIPE, stderr=subprocess.STDOUT, text=True, timeout=timeout)
    return r.returncode, r.stdout
tmp = tempfile.mkdtemp(prefix="vseed_")
res = {"seed": sid, "property": pid, "ran": []}
try:
    clean, mut = os.path.join(tmp, "clean"), os.path.join(tmp, "mut")
    shutil.copytree("/repo", clean, ignore=shutil.ignore_patterns(".git"))
    shutil.copytree("/repo", mut, ignore=shutil.ignore_patterns(".git"))
    patch = os.path.join(src, "patch.diff")
    rc, out = sh(["patch", "-p1", "-i", patch], mut)
    res["patch_applies"] = rc == 0
    if rc != 0:
        print("patch does not apply:", out); sys.exit(1)
    files = [l[6:].strip() for l in open(patch) if l.startswith("+++ b/")]
    pkgs = sorted({"./" + os.path.dirname(f) + "/" for f in files})
    rc, out = sh(["go", "build", "./..."], mut)
    res["builds"] = rc == 0
    # existing tests of the touched packages and their dependants inside the same top-level area
    tops = sorted({"./" + f.split("/")[0] + "/..." for f in files})
    rc, out = sh(["go", "test", "-vet=off", "-count=1", "-short"] + TAGS + tops, mut)
    res["existing_tests_pass"] = rc == 0
    res["ran"].append("go test -vet=off -count=1 -short " + " ".join(tops) + (" -> ok" if rc == 0 else " -> FAIL: " + " ".join(l for l in out.splitlines() if "FAIL" in l)[:300]))
    demo = os.path.join(src, "demo_test.go")
    head = open(demo).read()[:1500]
    m = re.search(r"(?:cop(?:y|ied)|place|put|belongs|go(?:es)?)[^\n]*?\b((?:[a-z0-9_]+/)+[a-z0-9_]*)", head, re.I)
    ddir = os.path.dirname(files[0])
    pk = re.search(r"(?m)^package (\w+)", open(demo).read()).group(1)
    # choose the directory whose package name matches
    cand = ([m.group(1).strip("/")] if m else []) + [ddir]
    for c in cand:
        if os.path.isdir(os.path.join(mut, c)):
            srcs = [f for f in os.listdir(os.path.join(mut, c)) if f.endswith(".go") and not f.endswith("_test.go")] or [f for f in os.listdir(os.path.join(mut, c)) if f.endswith(".go")]
            if m and c == m.group(1).strip("/") and open(demo).read().lstrip().startswith("// place in"):
                ddir = c  # explicit placement header
                break
            if srcs and re.search(r"(?m)^package (\w+)", open(os.path.join(mut, c, srcs[0])).read()).group(1) == pk.replace("_test", ""):
                ddir = c
                break
    tn = re.findall(r"(?m)^func (Test\w+)\(", open(demo).read())
    runre = "^(" + "|".join(tn) + ")$"
    for name, root in (("with", mut), ("without", clean)):
        shutil.copy(demo, os.path.join(root, ddir, "zz_seed_demo_test.go"))
        rc, out = sh(["go", "test", "-vet=off", "-count=1"] + TAGS + ["-run", runre, "./" + ddir + "/"], root)
        res["demo_" + name] = "FAIL" if rc != 0 else "PASS"
        res["ran"].append("go test -run '%s' ./%s/ (%s the change) -> %s" % (runre, ddir, name, res["demo_" + name]))
        os.remove(os.path.join(root, ddir, "zz_seed_demo_test.go"))
    confirmed = res["builds"] and res["existing_tests_pass"] and res["demo_with"] == "FAIL" and res["demo_without"] == "PASS"
    res["confirmed"] = confirmed
    # run the check against the changed copy
    t0 = time.time()
    e2 = dict(env, VERIF_REPO=mut, VERIF_EVIDENCE_DIR=os.path.join(tmp, "ev"))
    r = subprocess.run([os.path.join(V, "check"), pid, tier], env=e2, stdout=subprocess.PIPE, stderr=subprocess.STDOUT, text=True)
    viol = [l for l in r.stdout.splitlines() if l.startswith("VIOLATION")]
    inc = [l for l in r.stdout.splitlines() if l.startswith("INCONCLUSIVE")]
    res["check"] = {"cmd": "VERIF_REPO=<changed copy> ./check %s %s" % (pid, tier), "exit": r.returncode, "violations": len(viol), "first_violation": (viol[0][:400] if viol else ""), "first_inconclusive": (inc[0][:300] if inc else ""), "wall_s": round(time.time() - t0, 1)}
    res["detected"] = r.returncode == 1 and bool(viol)
    od = os.path.join(V, "seeded", sid)
    os.makedirs(od, exist_ok=True)
    if confirmed:
        shutil.copy(patch, os.path.join(od, "patch.diff"))
        shutil.copy(demo, os.path.join(od, "demo_test.go"))
        m2 = {"seed": sid, "property": pid, "breaks": meta.get("what_breaks", ""), "needs_to_manifest": meta.get("needs_to_manifest", ""), "files_changed": files, "demo_dir": ddir,
              "confirmed_by_me": res["ran"], "check_result": res["check"], "detected": res["detected"], "author": "independent sub-agent (saw only the property text)"}
        json.dump(m2, open(os.path.join(od, "meta.json"), "w"), indent=1)
    print(json.dumps(res, indent=1))
finally:
    shutil.rmtree(tmp, ignore_errors=True)
