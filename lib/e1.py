"""E1 (ssaexec) part runner: builds the executor, runs one spec and converts its report."""
import hashlib, json, os, subprocess, time
import driver

E1DIR = os.path.join(driver.VERIF, "e1")


def build(tmp):
    binp = os.path.join(tmp, "ssaexec")
    if os.path.exists(binp):
        return binp, None
    rc, out, _ = driver.sh(["go", "build", "-o", binp, "."], cwd=E1DIR, timeout=900)
    if rc != 0:
        return None, "ssaexec build failed:\n" + out[-2000:]
    return binp, None


def run(pid, part, tier, seed, tmp, extra=None):
    name = part.get("name", "e1")
    binp, err = build(tmp)
    if err:
        return {"engine": "E1 ssaexec", "part": name, "tool_error": err}
    outp = os.path.join(tmp, name + "_e1.json")
    spec = os.path.join(E1DIR, "specs", part["spec"])
    cmd = [binp, "-spec", spec, "-tier", tier, "-seed", str(seed), "-out", outp, "-repo", driver.REPO, "-verif", driver.VERIF]
    if part.get("only"):
        cmd += ["-only", part["only"]]
    if tier == "thorough":
        cmd += ["-solver2", "cvc5"]
    if extra:
        cmd += extra
    rc, out, dt = driver.sh(cmd, cwd=E1DIR, timeout=part.get("timeout", {"quick": 1800, "thorough": 6 * 3600})[tier], limit=True)
    if rc != 0 or not os.path.exists(outp):
        return {"engine": "E1 ssaexec", "part": name, "tool_error": "ssaexec exited %d:\n%s" % (rc, out[-2000:])}
    rep = json.load(open(outp))
    return convert(rep, name, dt)


def convert(rep, name, wall):
    hs = rep.get("harnesses") or []
    r = {"engine": "E1 ssaexec", "part": name, "scenarios": len(hs), "harnesses": len(hs), "queries": 0, "unsat": 0, "sat": 0, "distinct_queries": 0,
         "assertions": 0, "solver_time_s": 0.0, "twin_validated": 0, "failures": [], "inconclusive": [], "samples": [], "functions_encoded": [],
         "bounds": [], "stubs": [], "wall_s": round(wall, 1), "obligations": 0, "cross_checked_second_solver": 0, "by_scenario": {}}
    for h in hs:
        r["queries"] += h.get("obligations", 0)
        r["obligations"] += h.get("obligations", 0)
        r["distinct_queries"] += h.get("obligations", 0)  # obligations are de-duplicated by (site, claim, path condition) in the executor
        r["unsat"] += h.get("unsat", 0)
        r["sat"] += h.get("sat", 0)
        r["assertions"] += (h.get("by_kind", {}).get("assert") or [0, 0, 0])[0] + (h.get("by_kind", {}).get("assert") or [0, 0, 0])[1]
        r["solver_time_s"] += h.get("solver_s", 0.0)
        r["twin_validated"] += h.get("traces_validated_against_impl", 0)
        r["cross_checked_second_solver"] += h.get("cross_checked", 0)
        r["functions_encoded"] += (h.get("functions") or []) + (h.get("functions_executed") or [])
        if h.get("bound"):
            r["bounds"].append("%s: %s" % (h["name"], h["bound"]))
        r["stubs"] += h.get("stubs") or []
        r["by_scenario"][h["name"]] = h.get("obligations", 0)
        if h.get("tool_error"):
            r["inconclusive"].append("%s: %s" % (h["name"], h["tool_error"][:500]))
        if h.get("validate_error"):
            r["inconclusive"].append("%s: translator validation: %s" % (h["name"], h["validate_error"][:400]))
        if h.get("unknown", 0):
            unk = [f for f in (h.get("failures") or []) if f["verdict"] not in ("sat",) and not f["verdict"].startswith("vacuous")]
            r["inconclusive"].append("%s: %d obligations undecided (%s)" % (h["name"], h["unknown"], "; ".join("%s: %s" % (f["what"][:80], f["verdict"][:60]) for f in unk[:3])))
        for f in h.get("failures") or []:
            if f["verdict"] == "sat" or f["verdict"].startswith("vacuous"):
                rp = f.get("replay", "")
                key = "%s|%s|%s" % (h["name"], h.get("mutant", ""), f["what"])
                ff = {"key": key, "scenario": h["name"], "cfg": h.get("mode", ""), "assert": f["what"], "kind": "e1",
                      "detail": "%s %s replay: %s; model: %s" % (f["verdict"], f.get("pos", ""), rp, json.dumps(f.get("model") or {})[:300]),
                      "reproduced": rp.startswith("reproduced"), "model": f.get("model")}
                if f["verdict"].startswith("vacuous"):
                    r["inconclusive"].append("%s: %s (%s)" % (h["name"], f["verdict"], f["what"]))
                    continue
                r["failures"].append(ff)
        if len(r["samples"]) < 8:
            for s in (h.get("samples") or [])[:2]:
                r["samples"].append({"harness": h["name"], "mode": h.get("mode"), "entry": h.get("entry"), "obligation": s["what"], "site": s.get("pos", ""), "verdict": s["verdict"], "secs": round(s["secs"], 3), "smt_bytes": s["smt_bytes"],
                                     "symbolic_inputs": h.get("symbolic_inputs"), "dag_nodes": h.get("dag_nodes"), "by_kind": h.get("by_kind")})
    r["functions_encoded"] = sorted(set(r["functions_encoded"]))
    return r


def replay(pid, part, doc, tmp):
    f = doc["failure"]
    print("E1 replay: re-running harness %s (the satisfying assignment is re-derived and replayed natively)" % f["scenario"])
    p = dict(part)
    p["only"] = "^" + f["scenario"] + "$"
    r = run(pid, p, "quick", doc.get("seed", 1), tmp)
    if "tool_error" in r:
        print(r["tool_error"])
        return 3
    hit = [x for x in r["failures"] if x["assert"] == f["assert"] and x["reproduced"]]
    print("REPRODUCED: " + hit[0]["detail"][:400] if hit else "not reproduced")
    return 1 if hit else 0
