NA = {
    "C06": "pairing bilinearity/non-degeneracy is a theorem about the GF(p^12) tower (Miller loop + final exponentiation: thousands of field multiplications over assembly or external libraries); no SMT encoding of it is within reach, and ValidatePairing == (Pair == Pair) is definitional for bn256 - a registered check could not fail (DESIGN.md section 6/C06)",
}
