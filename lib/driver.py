import hashlib, json, os, re, shutil, subprocess, sys, tempfile, time

VERIF = os.path.dirname(os.path.dirname(os.path.abspath(__file__)))
REPO = os.environ.get("VERIF_REPO", "/repo")
GOBIN = "/opt/veriftools/go1.26.8/bin"


def goenv():
    e = dict(os.environ)
    e.update(GOFLAGS="-mod=mod", GOPROXY="off", GOSUMDB="off", GOTOOLCHAIN="local")
    e["PATH"] = GOBIN + ":" + e.get("PATH", "")
    return e


def load_props():
    import props
    return props.PROPS


def known_findings():
    p = os.path.join(VERIF, "known_findings.json")
    if not os.path.exists(p):
        return []
    return json.load(open(p))


def _limits():
    # one executor / harness process may not take the machine down: 40 GB address space
    import resource
    try:
        resource.setrlimit(resource.RLIMIT_AS, (40 << 30, 40 << 30))
    except (ValueError, OSError):
        pass


def sh(cmd, cwd=None, timeout=None, env=None, limit=False):
    t0 = time.time()
    try:
        r = subprocess.run(cmd, cwd=cwd, env=env or goenv(), stdout=subprocess.PIPE, stderr=subprocess.STDOUT, timeout=timeout, text=True, preexec_fn=_limits if limit else None)
        return r.returncode, r.stdout, time.time() - t0
    except subprocess.TimeoutExpired as ex:
        out = ex.stdout if isinstance(ex.stdout, str) else (ex.stdout or b"").decode("utf8", "replace")
        return 124, out + "\n[timeout]", time.time() - t0


# ---------------------------------------------------------------- E2
def run_e2(pid, part, tier, seed, tmp, only=None, concrete=False):
    """Build and run one symgroup harness binary. Returns its report dict (or an error report)."""
    name = part["cmd"]
    binp = os.path.join(tmp, name)
    e2dir = os.path.join(VERIF, "e2")
    if REPO != "/repo":
        # scratch copy of the tree under test (mutation self-tests, seeded changes): same module, other replace target
        e2dir = os.path.join(tmp, "e2")
        if not os.path.exists(e2dir):
            shutil.copytree(os.path.join(VERIF, "e2"), e2dir)
            gm = open(os.path.join(e2dir, "go.mod")).read().replace("=> /repo", "=> " + REPO)
            open(os.path.join(e2dir, "go.mod"), "w").write(gm)
    build = ["go", "build", "-o", binp]
    ov = part.get("overlay")
    if ov:
        ovf = os.path.join(tmp, name + "_overlay.json")
        json.dump({"Replace": {os.path.join(REPO, k): os.path.join(VERIF, v) for k, v in ov.items()}}, open(ovf, "w"))
        build += ["-overlay", ovf]
    build += ["./cmd/" + name]
    rc, out, dt = sh(build, cwd=e2dir, timeout=900)
    if rc != 0:
        return {"engine": "E2 symgroup", "part": name, "tool_error": "build failed:\n" + out[-3000:]}
    outp = os.path.join(tmp, name + ".json")
    cmd = [binp, "-tier", tier, "-seed", str(seed), "-out", outp]
    only = only or part.get("only")
    if only:
        cmd += ["-only", only]
    if concrete:
        cmd += ["-concrete"]
    env = goenv()
    if tier == "thorough":
        env.setdefault("SYM_SOLVER2", "z3-new")
        env.setdefault("SYM_TIMEOUT_MS", "300000")
    rc, out, dt2 = sh(cmd, cwd=tmp, timeout=part.get("timeout", {"quick": 1500, "thorough": 6 * 3600})[tier], env=env)
    if rc != 0 or not os.path.exists(outp):
        return {"engine": "E2 symgroup", "part": name, "tool_error": "harness exited %d:\n%s" % (rc, out[-3000:])}
    rep = json.load(open(outp))
    rep["part"] = name
    rep["build_s"] = round(dt, 1)
    rep["log_tail"] = out[-400:]
    return rep


# ---------------------------------------------------------------- E1
def run_e1(pid, part, tier, seed, tmp):
    import e1
    return e1.run(pid, part, tier, seed, tmp)


# ---------------------------------------------------------------- merge
def match_known(pid, key, kf):
    for k in kf:
        if k.get("kind") == "finding" and k.get("property") == pid and re.search(k["key"], key):
            return k
    return None


def write_replay(pid, f, part, seed):
    d = os.path.join(VERIF if REPO == "/repo" else tempfile.gettempdir(), "replays", pid)
    os.makedirs(d, exist_ok=True)
    h = hashlib.sha256(f["key"].encode()).hexdigest()[:12]
    p = os.path.join(d, h + ".json")
    doc = {"property": pid, "engine": part.get("engine", ""), "part": part.get("part", ""), "seed": seed, "failure": f}
    if "replay_test" in f:
        doc["replay_test"] = f["replay_test"]
    json.dump(doc, open(p, "w"), indent=1)
    return p


def main(argv):
    if not argv:
        print(__doc__)
        return 3
    pid = argv[0]
    props = load_props()
    if pid not in props:
        print("unknown property", pid)
        return 3
    if len(argv) >= 3 and argv[1] == "--replay":
        return replay(pid, props[pid], argv[2])
    tier = argv[1] if len(argv) > 1 else os.environ.get("VERIF_TIER", "quick")
    if tier not in ("quick", "thorough"):
        tier = "quick"
    try:
        seed = int(os.environ.get("VERIF_SEED", "1"))
    except ValueError:
        seed = 1
    t0 = time.time()
    tmp = tempfile.mkdtemp(prefix="verif_%s_" % pid)
    reports = []
    try:
        for part in props[pid]["parts"]:
            if tier not in part.get("tiers", ("quick", "thorough")):
                continue
            if part["engine"] == "e2":
                reports.append(run_e2(pid, part, tier, seed, tmp))
            else:
                reports.append(run_e1(pid, part, tier, seed, tmp))
        return finish(pid, props[pid], tier, seed, reports, time.time() - t0)
    finally:
        shutil.rmtree(tmp, ignore_errors=True)


def finish(pid, prop, tier, seed, reports, wall):
    kf = known_findings()
    viol, known, inconc = [], {}, []
    queries = unsat = sat = distinct = asserts = scen = twin = 0
    solver_s = 0.0
    samples, funcs, stubs, bounds, outside, pcs = [], [], [], [], [], []
    for r in reports:
        if "tool_error" in r:
            inconc.append("%s: %s" % (r.get("part"), r["tool_error"]))
            continue
        queries += r.get("queries", 0)
        unsat += r.get("unsat", 0)
        sat += r.get("sat", 0)
        distinct += r.get("distinct_queries", 0)
        asserts += r.get("assertions", 0)
        scen += r.get("scenarios", 0)
        twin += r.get("twin_validated", 0)
        solver_s += r.get("solver_time_s", 0.0)
        samples += (r.get("samples") or [])[:4]
        funcs += r.get("functions_encoded") or []
        stubs += r.get("stubs") or []
        bounds += r.get("bounds") or []
        outside += r.get("outside_claim") or []
        pcs += (r.get("path_condition_samples") or [])[:4]
        for m in r.get("twin_mismatch") or []:
            inconc.append("symbolic/concrete outcome traces differ: " + m)
        for m in r.get("inconclusive") or []:
            inconc.append(m)
        for f in r.get("failures") or []:
            k = match_known(pid, f["key"], kf)
            if not f.get("reproduced"):
                if k:
                    known.setdefault(k["key"], (k, f))
                else:
                    inconc.append("symbolic failure not reproduced on the real code: %s (%s)" % (f["key"], f.get("detail", "")[:200]))
                continue
            if k:
                known.setdefault(k["key"], (k, f))
            else:
                viol.append((f, r))
    lines = []
    for key, (k, f) in sorted(known.items()):
        lines.append("KNOWN-FINDING: property=%s %s [%s]" % (pid, k["what"], f["key"]))
    seenv = set()
    if REPO == "/repo":
        shutil.rmtree(os.path.join(VERIF, "replays", pid), ignore_errors=True)
    for f, r in viol:
        if f["key"] in seenv:
            continue
        seenv.add(f["key"])
        if len(seenv) <= 25:
            p = write_replay(pid, f, r, seed)
            lines.append("VIOLATION property=%s replay=%s  # %s: %s" % (pid, p, f["key"], (f.get("detail") or "")[:160].replace("\n", " ")))
    for m in inconc[:20]:
        lines.append("INCONCLUSIVE property=%s %s" % (pid, m.replace("\n", " ")[:600]))
    for l in lines:
        print(l)
    cfg = prop
    ev = {
        "property_id": pid, "tier": tier, "seed": seed, "level": "model_checking",
        "coverage": {
            "evaluations": queries, "distinct_nontrivial": distinct,
            "rule": "evaluations = SMT queries discharged (one per obligation/decision, self-contained script); distinct_nontrivial = distinct query scripts (by hash) that were actually sent to the solver - syntactically identical terms never reach it",
            "samples": samples[:10] if samples else [],
            "symbolic_runs": scen, "assertions": asserts, "unsat": unsat, "sat": sat,
            "traces_validated_against_impl": twin,
            "solver_time_s": round(solver_s, 2),
            "functions_encoded": sorted(set(funcs + cfg.get("functions", []))),
            "bounds": bounds + cfg.get("bounds", []),
            "outside_claim": outside + cfg.get("outside_claim", []),
            "stubs": sorted(set(stubs + cfg.get("stubs", []))),
            "path_condition_samples": pcs[:10],
            "known_findings_hit": sorted(known.keys()),
            "inconclusive": inconc[:20],
            "parts": [{k: r.get(k) for k in ("part", "engine", "scenarios", "by_scenario", "queries", "unsat", "sat", "wall_s", "build_s", "cross_checked_second_solver", "path_condition_disequalities", "max_symbolic_vars", "max_terms", "harnesses", "obligations") if k in r} for r in reports],
        },
        "assumptions": cfg.get("assumptions", []),
        "wall_s": round(wall, 2),
        "violations": len(seenv),
    }
    evd = os.environ.get("VERIF_EVIDENCE_DIR", os.path.join(VERIF, "evidence"))
    os.makedirs(evd, exist_ok=True)
    json.dump(ev, open(os.path.join(evd, pid + ".json"), "w"), indent=1)
    print("%s %s: %d symbolic runs, %d assertions, %d queries (%d distinct; %d unsat, %d sat), solver %.1fs, twin-validated %d, known %d, violations %d, inconclusive %d, wall %.1fs" % (
        pid, tier, scen, asserts, queries, distinct, unsat, sat, solver_s, twin, len(known), len(seenv), len(inconc), wall))
    if seenv:
        return 1
    if inconc:
        return 2
    return 0


def replay(pid, prop, path):
    doc = json.load(open(path))
    f = doc["failure"]
    tmp = tempfile.mkdtemp(prefix="verif_replay_")
    try:
        part = next((p for p in prop["parts"] if p.get("cmd") == doc.get("part") or p.get("name") == doc.get("part")), None)
        if part is None:
            print("replay: part not found", doc.get("part"))
            return 3
        if part["engine"] == "e2":
            only = "^" + re.escape(f["scenario"] + "|" + f["cfg"]) + "$"
            r = run_e2(pid, part, "quick", doc.get("seed", 1), tmp, only=only, concrete=True)
            if "tool_error" in r:
                print(r["tool_error"])
                return 3
            hit = [x for x in r.get("failures") or [] if x["assert"] == f["assert"]]
            print("replay on the real suites (%s): %s" % (f["key"], "REPRODUCED: " + hit[0].get("detail", "") if hit else "not reproduced"))
            return 1 if hit else 0
        import e1
        return e1.replay(pid, part, doc, tmp)
    finally:
        shutil.rmtree(tmp, ignore_errors=True)
