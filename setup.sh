#!/bin/sh
# Offline setup: warm the Go build cache for both engines (everything is rebuilt from /repo on every check anyway).
set -e
export GOFLAGS=-mod=mod GOPROXY=off GOSUMDB=off GOTOOLCHAIN=local PATH=/opt/veriftools/go1.26.8/bin:$PATH
cd "$(dirname "$0")"
T=$(mktemp -d)
(cd e2 && go build ./sym/... ./hx/... ./scen/... && go build -o "$T/" ./cmd/c07 ./cmd/c13 )
(cd e1 && go build -o "$T/ssaexec" . )
rm -rf "$T"
echo setup ok
